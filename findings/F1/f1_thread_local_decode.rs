//! Triage demonstration for finding F1 (property C19): a serialized payload that does not decode as the
//! target actor's message type must be dropped without harming the actor -- also for thread-local actors.
//! Copy to ractor/tests/ and run:  cargo test -p ractor --features cluster --test f1_thread_local_decode --offline
#![cfg(feature = "cluster")]
use std::sync::atomic::{AtomicU8, Ordering};
use std::sync::Arc;
use std::time::Duration;

use ractor::message::{BoxedDowncastErr, SerializedMessage};
use ractor::thread_local::{ThreadLocalActor, ThreadLocalActorSpawner};
use ractor::{ActorProcessingErr, ActorRef, ActorStatus, Message};

struct TestMessage;
impl Message for TestMessage {
    fn serializable() -> bool {
        true
    }
    fn deserialize(bytes: SerializedMessage) -> Result<Self, BoxedDowncastErr> {
        match bytes {
            SerializedMessage::Cast { variant, .. } if variant == "valid" => Ok(Self),
            SerializedMessage::Cast { variant, .. } if variant == "panic" => panic!("malformed decoder input"),
            _ => Err(BoxedDowncastErr),
        }
    }
}

static RECEIVED: AtomicU8 = AtomicU8::new(0);

#[derive(Default)]
struct TlActor;
impl ThreadLocalActor for TlActor {
    type Msg = TestMessage;
    type State = ();
    type Arguments = Arc<AtomicU8>;
    async fn pre_start(&self, _m: ActorRef<Self::Msg>, _a: Arc<AtomicU8>) -> Result<(), ActorProcessingErr> {
        Ok(())
    }
    async fn handle(&self, _m: ActorRef<Self::Msg>, _msg: Self::Msg, _s: &mut ()) -> Result<(), ActorProcessingErr> {
        RECEIVED.fetch_add(1, Ordering::Relaxed);
        Ok(())
    }
}

async fn run(variants: &[&str]) -> (ActorStatus, u8) {
    RECEIVED.store(0, Ordering::Relaxed);
    let spawner = ThreadLocalActorSpawner::new();
    let (actor, handle) = ractor::spawn_local::<TlActor>(Arc::new(AtomicU8::new(0)), spawner).await.unwrap();
    assert!(actor.get_cell().supports_remoting(), "thread-local actors with serializable messages are remotable");
    for v in variants {
        let _ = actor.get_cell().send_serialized(SerializedMessage::Cast { variant: v.to_string(), args: vec![], metadata: None });
    }
    for _ in 0..100 {
        if RECEIVED.load(Ordering::Relaxed) == 1 || actor.get_status() == ActorStatus::Stopped {
            break;
        }
        tokio::time::sleep(Duration::from_millis(20)).await;
    }
    let st = actor.get_status();
    let n = RECEIVED.load(Ordering::Relaxed);
    actor.stop(None);
    let _ = handle.await;
    (st, n)
}

#[tokio::test]
async fn undecodable_payload_is_dropped_without_harming_a_thread_local_actor() {
    let (st, n) = run(&["error", "valid"]).await;
    assert_eq!(st, ActorStatus::Running, "actor died on an undecodable serialized payload");
    assert_eq!(n, 1);
}

#[tokio::test]
async fn panicking_decoder_is_contained_for_a_thread_local_actor() {
    let (st, n) = run(&["panic", "valid"]).await;
    assert_eq!(st, ActorStatus::Running, "actor died on a panicking decoder");
    assert_eq!(n, 1);
}

//! F3 (C05): ActorCell::terminate() kills only descendants whose status is <= Upgrading.  A child that is
//! *Draining* when its supervisor exits is detached from the tree but never killed: it goes on handling its
//! backlog (for as long as that takes -- forever if a handler never returns) after its supervisor has
//! reached Stopped, while its own children *are* killed underneath it.
//!
//! copy to ractor/tests/ and run:  cargo test -p ractor --test f3_draining_child_survives_supervisor --offline
use std::sync::atomic::{AtomicUsize, Ordering};
use std::sync::Arc;
use std::time::Duration;

use ractor::{Actor, ActorProcessingErr, ActorRef, ActorStatus};

struct Sup;
#[cfg_attr(feature = "async-trait", ractor::async_trait)]
impl Actor for Sup {
    type Msg = ();
    type State = ();
    type Arguments = ();
    async fn pre_start(&self, _: ActorRef<()>, _: ()) -> Result<(), ActorProcessingErr> {
        Ok(())
    }
}

struct Slow {
    handled: Arc<AtomicUsize>,
}
#[cfg_attr(feature = "async-trait", ractor::async_trait)]
impl Actor for Slow {
    type Msg = ();
    type State = ();
    type Arguments = ();
    async fn pre_start(&self, _: ActorRef<()>, _: ()) -> Result<(), ActorProcessingErr> {
        Ok(())
    }
    async fn handle(&self, _: ActorRef<()>, _: (), _: &mut ()) -> Result<(), ActorProcessingErr> {
        ractor::concurrency::sleep(Duration::from_millis(100)).await;
        self.handled.fetch_add(1, Ordering::SeqCst);
        Ok(())
    }
}

#[tokio::test(flavor = "multi_thread", worker_threads = 2)]
async fn a_draining_child_is_killed_with_its_supervisor() {
    let handled = Arc::new(AtomicUsize::new(0));
    let (sup, sup_h) = Actor::spawn(None, Sup, ()).await.unwrap();
    let (child, child_h) = Actor::spawn_linked(None, Slow { handled: handled.clone() }, (), sup.get_cell())
        .await
        .unwrap();
    // 30 x 100 ms of backlog, then drain
    for _ in 0..30 {
        child.cast(()).unwrap();
    }
    child.drain().unwrap();
    tokio::time::sleep(Duration::from_millis(150)).await;
    assert_eq!(child.get_status(), ActorStatus::Draining);

    // the supervisor exits (for any reason)
    sup.kill();
    sup_h.await.unwrap();
    assert_eq!(sup.get_status(), ActorStatus::Stopped);

    // every actor linked beneath it at that moment must be killed: allow generous scheduling slack (5 handlers' worth)
    let stopped_in_time = tokio::time::timeout(Duration::from_millis(500), child_h).await.is_ok();
    let seen = handled.load(Ordering::SeqCst);
    assert!(
        stopped_in_time,
        "the draining child outlived its supervisor: status {:?}, {} messages handled so far and still going",
        child.get_status(),
        seen
    );
    assert!(seen < 30, "the child was allowed to work through its whole backlog");
}

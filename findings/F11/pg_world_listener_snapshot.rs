// Demonstration for property C11 (process groups tell their monitors).
//
// `pg::join_scoped`, `pg::leave_scoped` and `pg::leave_all` (the automatic leave on
// actor exit) take the snapshot of the *per-group* listeners while they hold the
// group's map entry, i.e. atomically with the membership change.  The snapshot of
// the *scope-level / all-scopes* listeners (`notify_world_listeners`) is taken much
// later: after the group entry has been released (the new membership is already
// visible to every reader) and after all per-group notifications were sent.
//
// Consequences (each one is a test below):
//  1. an actor which starts monitoring the scope strictly AFTER it has already
//     observed the new member via `get_members` still receives the `Join`
//     (delivered to an actor which was not monitoring "at that time");
//  2. an actor which WAS monitoring the scope when the join took effect (the new
//     member was already visible) and demonitors afterwards never receives the
//     `Join` (not delivered to an actor which was monitoring "at that time");
//  3. same as 1. for the automatic leave on exit: a scope monitor which
//     subscribes after it saw the exiting actor gone from a group still receives
//     the `Leave` for that group.
//
// Only the public API is used.  The window between "membership visible" and
// "world listeners read" is widened with legal inputs only: a join call which
// names the same actor many times (the payload keeps the duplicates and is cloned
// once per per-group listener), resp. an actor which is a member of many groups.

use std::sync::Arc;
use std::sync::Mutex;
use std::time::Duration;

use ractor::pg;
use ractor::Actor;
use ractor::ActorCell;
use ractor::ActorProcessingErr;
use ractor::ActorRef;
use ractor::SupervisionEvent;

#[derive(Clone, Debug, PartialEq, Eq)]
enum Seen {
    Join(String, String),
    Leave(String, String),
}

type Log = Arc<Mutex<Vec<Seen>>>;

/// Records every process group notification it receives
struct Recorder {
    log: Log,
}

#[cfg_attr(feature = "async-trait", ractor::async_trait)]
impl Actor for Recorder {
    type Msg = ();
    type State = ();
    type Arguments = ();

    async fn pre_start(
        &self,
        _myself: ActorRef<Self::Msg>,
        _: (),
    ) -> Result<Self::State, ActorProcessingErr> {
        Ok(())
    }

    async fn handle_supervisor_evt(
        &self,
        _myself: ActorRef<Self::Msg>,
        message: SupervisionEvent,
        _state: &mut Self::State,
    ) -> Result<(), ActorProcessingErr> {
        if let SupervisionEvent::ProcessGroupChanged(change) = message {
            let seen = match change {
                pg::GroupChangeMessage::Join(scope, group, _) => Seen::Join(scope, group),
                pg::GroupChangeMessage::Leave(scope, group, _) => Seen::Leave(scope, group),
            };
            self.log.lock().unwrap().push(seen);
        }
        Ok(())
    }
}

/// An actor which does nothing (group member / ballast per-group listener)
struct Plain;

#[cfg_attr(feature = "async-trait", ractor::async_trait)]
impl Actor for Plain {
    type Msg = ();
    type State = ();
    type Arguments = ();

    async fn pre_start(
        &self,
        _myself: ActorRef<Self::Msg>,
        _: (),
    ) -> Result<Self::State, ActorProcessingErr> {
        Ok(())
    }
}

const DUPLICATES: usize = 400_000;
const BALLAST_LISTENERS: usize = 6;

fn is_member(group: &String, who: &ActorCell) -> bool {
    pg::get_members(group)
        .iter()
        .any(|m| m.get_id() == who.get_id())
}

/// Wait until `log` contains `marker`, then return everything recorded before it.
/// The supervision port is FIFO, so everything which was sent to the recorder before
/// the marker notification has been recorded once the marker shows up.
async fn events_before_marker(log: &Log, marker: &Seen) -> Vec<Seen> {
    for _ in 0..2000 {
        {
            let log = log.lock().unwrap();
            if let Some(pos) = log.iter().position(|e| e == marker) {
                return log[..pos].to_vec();
            }
        }
        tokio::time::sleep(Duration::from_millis(5)).await;
    }
    panic!("marker notification {marker:?} never arrived");
}

async fn spawn_ballast(group: &str) -> Vec<(ActorRef<()>, tokio::task::JoinHandle<()>)> {
    let mut ballast = Vec::new();
    for _ in 0..BALLAST_LISTENERS {
        let (actor, handle) = Actor::spawn(None, Plain, ()).await.expect("ballast");
        // per-group listeners of the group: their notifications are sent between the
        // release of the group entry and the (late) snapshot of the scope listeners
        pg::monitor(group.to_string(), actor.get_cell());
        ballast.push((actor, handle));
    }
    ballast
}

async fn stop_all(actors: Vec<(ActorRef<()>, tokio::task::JoinHandle<()>)>) {
    for (actor, handle) in actors {
        actor.stop(None);
        handle.await.expect("actor cleanup failed");
    }
}

/// 1. A scope monitor which subscribed after the join had taken effect must not be told
#[tokio::test(flavor = "multi_thread", worker_threads = 4)]
async fn join_is_not_delivered_to_a_scope_monitor_which_subscribed_after_it() {
    let group = "c11_demo_late_scope_monitor".to_string();
    let marker_group = "c11_demo_late_scope_monitor_marker".to_string();
    let scope = pg::DEFAULT_SCOPE.to_string();

    let log: Log = Arc::new(Mutex::new(Vec::new()));
    let (recorder, recorder_handle) = Actor::spawn(None, Recorder { log: log.clone() }, ())
        .await
        .expect("recorder");
    let (member, member_handle) = Actor::spawn(None, Plain, ()).await.expect("member");
    let ballast = spawn_ballast(&group).await;

    // one join call naming the same actor many times (the property explicitly covers
    // "duplicate actors in one call")
    let joiner = {
        let group = group.clone();
        let cells = vec![member.get_cell(); DUPLICATES];
        std::thread::spawn(move || pg::join(group, cells))
    };

    // wait until the join HAS TAKEN EFFECT: the member is visible to readers
    while !is_member(&group, &member.get_cell()) {
        std::hint::spin_loop();
    }
    // ... and only now start monitoring the scope
    pg::monitor_scope(scope.clone(), recorder.get_cell());

    joiner.join().expect("joiner panicked");

    // marker: a join which definitely happens while the recorder monitors the scope
    pg::join(marker_group.clone(), vec![member.get_cell()]);
    let before = events_before_marker(&log, &Seen::Join(scope.clone(), marker_group)).await;

    let spurious = before
        .iter()
        .filter(|e| **e == Seen::Join(scope.clone(), group.clone()))
        .count();

    stop_all(ballast).await;
    stop_all(vec![(member, member_handle), (recorder, recorder_handle)]).await;

    assert_eq!(
        0, spurious,
        "the recorder saw the member in the group BEFORE it called monitor_scope, no join \
         happened afterwards, and yet it was sent a Join for that group: {before:?}"
    );
}

/// 2. A scope monitor which was subscribed when the join took effect must be told
#[tokio::test(flavor = "multi_thread", worker_threads = 4)]
async fn join_is_delivered_to_a_scope_monitor_which_was_subscribed_at_that_time() {
    let group = "c11_demo_early_scope_monitor".to_string();
    let marker_group = "c11_demo_early_scope_monitor_marker".to_string();
    let scope = pg::DEFAULT_SCOPE.to_string();

    let log: Log = Arc::new(Mutex::new(Vec::new()));
    let (recorder, recorder_handle) = Actor::spawn(None, Recorder { log: log.clone() }, ())
        .await
        .expect("recorder");
    let (member, member_handle) = Actor::spawn(None, Plain, ()).await.expect("member");
    let ballast = spawn_ballast(&group).await;

    // the recorder monitors the scope BEFORE the join is even called
    pg::monitor_scope(scope.clone(), recorder.get_cell());

    let joiner = {
        let group = group.clone();
        let cells = vec![member.get_cell(); DUPLICATES];
        std::thread::spawn(move || pg::join(group, cells))
    };

    // the join has taken effect (the member is visible) while the recorder monitors ...
    while !is_member(&group, &member.get_cell()) {
        std::hint::spin_loop();
    }
    // ... and only afterwards the recorder unsubscribes
    pg::demonitor_scope(scope.clone(), recorder.get_id());

    joiner.join().expect("joiner panicked");

    // marker (subscribe again, FIFO port)
    pg::monitor_scope(scope.clone(), recorder.get_cell());
    pg::join(marker_group.clone(), vec![member.get_cell()]);
    let before = events_before_marker(&log, &Seen::Join(scope.clone(), marker_group)).await;

    let delivered = before
        .iter()
        .filter(|e| **e == Seen::Join(scope.clone(), group.clone()))
        .count();

    stop_all(ballast).await;
    stop_all(vec![(member, member_handle), (recorder, recorder_handle)]).await;

    assert_eq!(
        1, delivered,
        "the recorder was monitoring the scope from before the join call until after the \
         member was visible in the group, but it was never sent the Join: {before:?}"
    );
}

/// 3. Automatic leave on exit: a scope monitor which subscribed after it saw the exiting
///    actor gone from a group must not be sent the Leave of that group
#[tokio::test(flavor = "multi_thread", worker_threads = 4)]
async fn exit_leave_is_not_delivered_to_a_scope_monitor_which_subscribed_after_it() {
    const GROUPS: usize = 20_000;
    const PROBES: usize = 8;
    let scope = "c11_demo_exit_scope".to_string();
    let marker_group = "c11_demo_exit_marker".to_string();

    let log: Log = Arc::new(Mutex::new(Vec::new()));
    let (recorder, recorder_handle) = Actor::spawn(None, Recorder { log: log.clone() }, ())
        .await
        .expect("recorder");
    let (member, member_handle) = Actor::spawn(None, Plain, ()).await.expect("member");
    let (other, other_handle) = Actor::spawn(None, Plain, ()).await.expect("other");

    let groups = (0..GROUPS)
        .map(|i| format!("c11_demo_exit_group_{i}"))
        .collect::<Vec<_>>();
    for group in &groups {
        pg::join_scoped(scope.clone(), group.clone(), vec![member.get_cell()]);
    }

    member.stop(None);

    // wait until the exiting actor is observed to be gone from one of the probe groups
    let gone_from = loop {
        if let Some(group) = groups
            .iter()
            .take(PROBES)
            .find(|g| pg::get_scoped_members(&scope, g).is_empty())
        {
            break group.clone();
        }
        std::hint::spin_loop();
    };
    // ... and only now start monitoring the scope
    pg::monitor_scope(scope.clone(), recorder.get_cell());

    member_handle.await.expect("member cleanup failed");

    pg::join_scoped(scope.clone(), marker_group.clone(), vec![other.get_cell()]);
    let before = events_before_marker(&log, &Seen::Join(scope.clone(), marker_group)).await;

    let spurious = before
        .iter()
        .filter(|e| **e == Seen::Leave(scope.clone(), gone_from.clone()))
        .count();
    let total_leaves = before.len();

    stop_all(vec![(other, other_handle), (recorder, recorder_handle)]).await;

    assert_eq!(
        0, spurious,
        "the recorder saw that the exiting actor was no longer a member of '{gone_from}' \
         BEFORE it called monitor_scope, and yet it was sent the Leave for that group \
         ({total_leaves} notifications in total)"
    );
}

//! C20 demonstration 3: the exit of ONE remote reference takes the whole (ready, healthy) session
//! down, and with it every other remote reference of that peer.
//!
//! Node B stops / drains / kills its remote reference of actor X locally (e.g. an application
//! which shuts down "all members of group g" without filtering out the non-local ones). The
//! original X and the original Y are both alive on node A and the connection is intact, yet a
//! call to Y through its (unrelated) remote reference fails, because the node session died.
//!
//! copy to ractor_cluster/tests/c20_proxy_exit_kills_session.rs and run
//!   cargo nextest run --offline -p ractor_cluster --test c20_proxy_exit_kills_session --test-threads 4

use std::time::Duration;

use harness::*;
use ractor::Actor;
use ractor::ActorProcessingErr;
use ractor::ActorRef;
use ractor::ActorStatus;
use ractor::RpcReplyPort;
use ractor_cluster::RactorClusterMessage;

#[derive(RactorClusterMessage)]
enum M {
    #[rpc]
    Echo(u64, RpcReplyPort<u64>),
}

struct T;
#[cfg_attr(feature = "async-trait", ractor::async_trait)]
impl Actor for T {
    type Msg = M;
    type State = ();
    type Arguments = ();
    async fn pre_start(&self, _: ActorRef<M>, _: ()) -> Result<(), ActorProcessingErr> {
        Ok(())
    }
    async fn handle(&self, _: ActorRef<M>, m: M, _: &mut ()) -> Result<(), ActorProcessingErr> {
        match m {
            M::Echo(n, reply) => {
                let _ = reply.send(n);
            }
        }
        Ok(())
    }
}

async fn scenario(tag: &str, how: fn(&ActorRef<M>)) {
    let c = cluster(tag, 1024).await;
    let (x, hx) = Actor::spawn(None, T, ()).await.unwrap();
    let (y, hy) = Actor::spawn(None, T, ()).await.unwrap();
    let remote_x: ActorRef<M> = wait_proxy(&c.sb, x.get_id().pid()).await.into();
    let remote_y: ActorRef<M> = wait_proxy(&c.sb, y.get_id().pid()).await.into();
    assert_eq!(ractor::call_t!(remote_y, M::Echo, 1000, 4).unwrap(), 4);

    how(&remote_x);
    tokio::time::sleep(Duration::from_millis(300)).await;

    // nothing happened to Y, to its node or to the connection
    assert_eq!(y.get_status(), ActorStatus::Running);
    assert_eq!(x.get_status(), ActorStatus::Running);
    let session_b = c.sb.actor.get_status();
    let session_a = c.sa.actor.get_status();
    let answer = ractor::call_t!(remote_y, M::Echo, 1000, 5);

    x.stop(None);
    y.stop(None);
    hx.await.unwrap();
    hy.await.unwrap();
    c.shutdown().await;

    assert!(
        matches!(answer, Ok(5)),
        "after the remote reference of X went away on node B, a call to the live actor Y through \
         its own remote reference gave {answer:?}; node session on B is {session_b:?}, on A {session_a:?}"
    );
    assert_eq!(session_b, ActorStatus::Running);
}

#[tokio::test(flavor = "multi_thread", worker_threads = 4)]
async fn stopping_one_remote_reference_leaves_the_others_alone() {
    scenario("pstop", |r| r.stop(None)).await;
}

#[tokio::test(flavor = "multi_thread", worker_threads = 4)]
async fn draining_one_remote_reference_leaves_the_others_alone() {
    scenario("pdrain", |r| {
        let _ = r.drain();
    })
    .await;
}

#[tokio::test(flavor = "multi_thread", worker_threads = 4)]
async fn killing_one_remote_reference_leaves_the_others_alone() {
    scenario("pkill", |r| r.kill()).await;
}

// ---------------------------------------------------------------------------------------------
// Harness: two NodeServers in ONE process joined by an in-memory pipe (public API only).
// Both "nodes" share the process-wide pid registry / pg tables, so every remotable actor of the
// process is advertised in both directions; `proxy(&session, pid)` picks the proxy (RemoteActor)
// which one given session holds for the actor with that pid. Run every test in its own process
// (cargo nextest does) or with --test-threads 1: two clusters alive at the same time in one
// process would hand out the same node ids.
// ---------------------------------------------------------------------------------------------
#[allow(dead_code)]
mod harness {
    use std::time::Duration;

    use ractor::Actor;
    use ractor::ActorCell;
    use ractor::ActorId;
    use ractor::ActorRef;
    use ractor_cluster::node::NodeConnectionMode;
    use ractor_cluster::node::NodeServerSessionInformation;
    use ractor_cluster::BoxRead;
    use ractor_cluster::BoxWrite;
    use ractor_cluster::ClusterBidiStream;
    use ractor_cluster::NodeServer;
    use ractor_cluster::NodeServerMessage;
    use ractor_cluster::NodeSessionMessage;

    pub struct Duplex(pub tokio::io::DuplexStream, pub &'static str, pub &'static str);

    impl ClusterBidiStream for Duplex {
        fn split(self: Box<Self>) -> (BoxRead, BoxWrite) {
            let (r, w) = tokio::io::split(self.0);
            (Box::new(r), Box::new(w))
        }
        fn peer_label(&self) -> Option<String> {
            Some(self.1.to_string())
        }
        fn local_label(&self) -> Option<String> {
            Some(self.2.to_string())
        }
    }

    pub struct Cluster {
        pub a: ActorRef<NodeServerMessage>,
        pub b: ActorRef<NodeServerMessage>,
        pub ha: ractor::concurrency::JoinHandle<()>,
        pub hb: ractor::concurrency::JoinHandle<()>,
        /// the (ready) session of node A towards B
        pub sa: NodeServerSessionInformation,
        /// the (ready) session of node B towards A
        pub sb: NodeServerSessionInformation,
    }

    pub async fn wait_ready(node: &ActorRef<NodeServerMessage>) -> NodeServerSessionInformation {
        let deadline = std::time::Instant::now() + Duration::from_secs(10);
        loop {
            assert!(std::time::Instant::now() < deadline, "session never got ready");
            if let Ok(sessions) = ractor::call_t!(*node, NodeServerMessage::GetSessions, 500) {
                for info in sessions.into_values() {
                    if let Ok(true) =
                        ractor::call_t!(info.actor, NodeSessionMessage::GetReadyState, 500)
                    {
                        return info;
                    }
                }
            }
            tokio::time::sleep(Duration::from_millis(20)).await;
        }
    }

    /// `tag` keeps the node names unique, `buf` is the size of the pipe in bytes
    pub async fn cluster(tag: &str, buf: usize) -> Cluster {
        let mk = |n: &str| {
            NodeServer::new(
                0,
                "cookie".to_string(),
                format!("{tag}_{n}"),
                format!("host_{tag}_{n}"),
                None,
                Some(NodeConnectionMode::Isolated),
            )
        };
        let (a, ha) = Actor::spawn(None, mk("a"), ()).await.unwrap();
        let (b, hb) = Actor::spawn(None, mk("b"), ()).await.unwrap();

        // burn node id 0 on B, so that the proxies of the two sessions never share an ActorId
        {
            let (x, y) = tokio::io::duplex(64);
            drop(y);
            b.cast(NodeServerMessage::ConnectionOpenedExternal {
                stream: Box::new(Duplex(x, "nobody", "b")),
                is_server: true,
            })
            .unwrap();
            tokio::time::sleep(Duration::from_millis(100)).await;
        }

        let (ea, eb) = tokio::io::duplex(buf);
        a.cast(NodeServerMessage::ConnectionOpenedExternal {
            stream: Box::new(Duplex(ea, "b", "a")),
            is_server: true,
        })
        .unwrap();
        b.cast(NodeServerMessage::ConnectionOpenedExternal {
            stream: Box::new(Duplex(eb, "a", "b")),
            is_server: false,
        })
        .unwrap();
        let sa = wait_ready(&a).await;
        let sb = wait_ready(&b).await;
        assert_ne!(sa.node_id, sb.node_id);
        Cluster {
            a,
            b,
            ha,
            hb,
            sa,
            sb,
        }
    }

    /// The proxy which `session` holds for the actor with local pid `pid` on its peer
    pub fn proxy(session: &NodeServerSessionInformation, pid: u64) -> Option<ActorCell> {
        let want = ActorId::Remote {
            node_id: session.node_id,
            pid,
        };
        session
            .actor
            .get_children()
            .into_iter()
            .find(|c| c.get_id() == want)
    }

    pub async fn wait_proxy(session: &NodeServerSessionInformation, pid: u64) -> ActorCell {
        let deadline = std::time::Instant::now() + Duration::from_secs(5);
        loop {
            if let Some(c) = proxy(session, pid) {
                return c;
            }
            assert!(
                std::time::Instant::now() < deadline,
                "proxy for {pid} never appeared"
            );
            tokio::time::sleep(Duration::from_millis(5)).await;
        }
    }

    impl Cluster {
        pub async fn shutdown(self) {
            self.a.stop(None);
            self.b.stop(None);
            let _ = self.ha.await;
            let _ = self.hb.await;
        }
    }
}

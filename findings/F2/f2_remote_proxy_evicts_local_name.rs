//! F2 (C10): a remote-actor proxy created with a name (what ractor_cluster's NodeSession does for every
//! named remote actor) is *not* entered in the name registry, yet on exit it unregisters that name.
//! A live local actor registered under the same name is evicted: where_is(name) returns None while the
//! holder is still running, and a second local actor can then be spawned under the same name.
//!
//! copy to ractor/tests/ and run:  cargo test -p ractor --features cluster --test f2_remote_proxy_evicts_local_name --offline
#![cfg(feature = "cluster")]
use ractor::{Actor, ActorId, ActorProcessingErr, ActorRef, ActorRuntime};

struct Local;
struct Msg;
impl ractor::Message for Msg {}
impl Actor for Local {
    type Msg = Msg;
    type State = ();
    type Arguments = ();
    async fn pre_start(&self, _: ActorRef<Msg>, _: ()) -> Result<(), ActorProcessingErr> {
        Ok(())
    }
}

struct Proxy;
impl Actor for Proxy {
    type Msg = Msg;
    type State = ();
    type Arguments = ();
    async fn pre_start(&self, _: ActorRef<Msg>, _: ()) -> Result<(), ActorProcessingErr> {
        Ok(())
    }
}

#[tokio::test]
async fn remote_proxy_exit_must_not_release_a_local_actors_name() {
    let name = "f2-shared-name".to_string();
    let (sup, sup_h) = Actor::spawn(None, Local, ()).await.unwrap();
    let (local, local_h) = Actor::spawn(Some(name.clone()), Local, ()).await.unwrap();
    assert_eq!(ractor::registry::where_is(name.clone()).map(|c| c.get_id()), Some(local.get_id()));

    // the proxy for "the same service on another node"
    let (proxy, proxy_h) = ActorRuntime::spawn_linked_remote(
        Some(name.clone()),
        Proxy,
        ActorId::Remote { node_id: 7, pid: 42 },
        (),
        sup.get_cell(),
    )
    .await
    .unwrap();
    // still the local actor
    assert_eq!(ractor::registry::where_is(name.clone()).map(|c| c.get_id()), Some(local.get_id()));

    proxy.stop(None);
    proxy_h.await.unwrap();

    // the local holder is alive and has not begun to stop ...
    assert_eq!(local.get_status(), ractor::ActorStatus::Running);
    // ... so the name must still resolve to it
    let seen = ractor::registry::where_is(name.clone()).map(|c| c.get_id());
    assert_eq!(seen, Some(local.get_id()), "the exit of a remote proxy released the name of a live local actor");
    // and nobody else may take the name
    let second = Actor::spawn(Some(name.clone()), Local, ()).await;
    assert!(second.is_err(), "a second live actor was registered under the same name");

    local.stop(None);
    local_h.await.unwrap();
    sup.stop(None);
    sup_h.await.unwrap();
}

// C04 demonstration 1: a killed `Send` child is reported to its supervisor as
// `ActorTerminated(_, Some(state), Some("killed"))` instead of
// `ActorTerminated(_, None, Some("killed"))` when the kill lands in the message loop
// (idle actor, or actor inside `handle` / `handle_supervisor_evt`).
//
// Copy to ractor/tests/ and run:
//   cargo test --offline -j4 -p ractor --test c04_kill_event_carries_state -- --test-threads 4

use std::sync::{Arc, Mutex};
use std::time::Duration;

use ractor::{Actor, ActorProcessingErr, ActorRef, SupervisionEvent};

/// (kind, has_state, reason-or-error)
type Seen = Arc<Mutex<Vec<(&'static str, bool, Option<String>)>>>;

struct Supervisor;
impl Actor for Supervisor {
    type Msg = ();
    type State = Seen;
    type Arguments = Seen;
    async fn pre_start(&self, _: ActorRef<()>, seen: Seen) -> Result<Seen, ActorProcessingErr> {
        Ok(seen)
    }
    async fn handle_supervisor_evt(
        &self,
        _: ActorRef<()>,
        evt: SupervisionEvent,
        seen: &mut Seen,
    ) -> Result<(), ActorProcessingErr> {
        let item = match evt {
            SupervisionEvent::ActorStarted(_) => ("started", false, None),
            SupervisionEvent::ActorTerminated(_, state, reason) => {
                ("terminated", state.is_some(), reason)
            }
            SupervisionEvent::ActorFailed(_, err) => ("failed", false, Some(err.to_string())),
            _ => return Ok(()),
        };
        seen.lock().unwrap().push(item);
        Ok(())
    }
}

struct Child;
impl Actor for Child {
    type Msg = ();
    type State = u64;
    type Arguments = ();
    async fn pre_start(&self, _: ActorRef<()>, _: ()) -> Result<u64, ActorProcessingErr> {
        Ok(42)
    }
    async fn handle(&self, _: ActorRef<()>, _: (), _: &mut u64) -> Result<(), ActorProcessingErr> {
        // never completes: only a kill gets the actor out of here
        std::future::pending::<()>().await;
        Ok(())
    }
}

async fn kill_and_collect(busy: bool) -> Vec<(&'static str, bool, Option<String>)> {
    let seen: Seen = Default::default();
    let (sup, sup_handle) = Actor::spawn(None, Supervisor, seen.clone()).await.unwrap();
    let (child, child_handle) = Actor::spawn_linked(None, Child, (), sup.get_cell())
        .await
        .unwrap();
    if busy {
        child.cast(()).unwrap();
    }
    // let post_start / ActorStarted / the handler entry happen
    tokio::time::sleep(Duration::from_millis(100)).await;

    child.kill();
    // the join handle must complete normally
    tokio::time::timeout(Duration::from_secs(5), child_handle)
        .await
        .expect("child did not exit")
        .expect("child join handle did not complete normally");
    tokio::time::sleep(Duration::from_millis(100)).await;

    let events = seen.lock().unwrap().clone();
    sup.stop(None);
    sup_handle.await.unwrap();
    events
}

fn expected() -> Vec<(&'static str, bool, Option<String>)> {
    vec![
        ("started", false, None),
        // kill: no state, reason "killed"
        ("terminated", false, Some("killed".to_string())),
    ]
}

#[tokio::test(flavor = "multi_thread", worker_threads = 2)]
async fn kill_of_idle_child_is_reported_without_state() {
    assert_eq!(kill_and_collect(false).await, expected());
}

#[tokio::test(flavor = "multi_thread", worker_threads = 2)]
async fn kill_of_child_inside_handle_is_reported_without_state() {
    assert_eq!(kill_and_collect(true).await, expected());
}

// C04 demonstration 2: a panic raised by `post_start` / `post_stop` / `pre_start` *before the
// returned future is first polled* (the callbacks are declared as
// `fn post_start(..) -> impl Future<..> + Send`, so a hand-written, non-`async fn` implementation
// may run synchronous code before building its future) is not contained:
//   * the actor task itself panics -> the JoinHandle completes with a JoinError(panic)
//   * the supervisor gets ActorTerminated(None, "actor_task_cancelled") instead of
//     ActorFailed(<panic text>)
//   * for pre_start the panic unwinds into the *spawner's* task instead of giving it an Err
// The twin callbacks `handle` and `handle_supervisor_evt` written in exactly the same style ARE
// contained (control tests below pass), because they are called inside the caught loop future.
//
// Copy to ractor/tests/ and run:
//   cargo test --offline -j4 -p ractor --test c04_sync_panic_escapes_lifecycle_hooks -- --test-threads 4

use std::future::Future;
use std::sync::{Arc, Mutex};
use std::time::Duration;

use ractor::{Actor, ActorProcessingErr, ActorRef, SupervisionEvent};

type Seen = Arc<Mutex<Vec<String>>>;

struct Supervisor;
impl Actor for Supervisor {
    type Msg = ();
    type State = Seen;
    type Arguments = Seen;
    async fn pre_start(&self, _: ActorRef<()>, seen: Seen) -> Result<Seen, ActorProcessingErr> {
        Ok(seen)
    }
    async fn handle_supervisor_evt(
        &self,
        _: ActorRef<()>,
        evt: SupervisionEvent,
        seen: &mut Seen,
    ) -> Result<(), ActorProcessingErr> {
        let item = match evt {
            SupervisionEvent::ActorStarted(_) => "started".to_string(),
            SupervisionEvent::ActorTerminated(_, state, reason) => {
                format!("terminated(state={}, reason={reason:?})", state.is_some())
            }
            SupervisionEvent::ActorFailed(_, err) => format!("failed({err})"),
            _ => return Ok(()),
        };
        seen.lock().unwrap().push(item);
        Ok(())
    }
}

#[derive(Clone, Copy, PartialEq, Debug)]
enum PanicIn {
    Nowhere,
    PreStart,
    PostStart,
    Handle,
    SupervisorEvt,
    PostStop,
}

/// Every callback is a plain `fn` returning a future: the panic happens in the synchronous
/// part of the callback, i.e. *inside the callback*, before its future exists.
struct Child;
impl Actor for Child {
    type Msg = ();
    type State = PanicIn;
    type Arguments = PanicIn;

    fn pre_start(
        &self,
        _: ActorRef<()>,
        p: PanicIn,
    ) -> impl Future<Output = Result<PanicIn, ActorProcessingErr>> + Send {
        if p == PanicIn::PreStart {
            panic!("panic in pre_start");
        }
        async move { Ok(p) }
    }
    fn post_start(
        &self,
        _: ActorRef<()>,
        p: &mut PanicIn,
    ) -> impl Future<Output = Result<(), ActorProcessingErr>> + Send {
        if *p == PanicIn::PostStart {
            panic!("panic in post_start");
        }
        async move { Ok(()) }
    }
    fn handle(
        &self,
        _: ActorRef<()>,
        _: (),
        p: &mut PanicIn,
    ) -> impl Future<Output = Result<(), ActorProcessingErr>> + Send {
        if *p == PanicIn::Handle {
            panic!("panic in handle");
        }
        async move { Ok(()) }
    }
    fn handle_supervisor_evt(
        &self,
        _: ActorRef<()>,
        _: SupervisionEvent,
        p: &mut PanicIn,
    ) -> impl Future<Output = Result<(), ActorProcessingErr>> + Send {
        if *p == PanicIn::SupervisorEvt {
            panic!("panic in handle_supervisor_evt");
        }
        async move { Ok(()) }
    }
    fn post_stop(
        &self,
        _: ActorRef<()>,
        p: &mut PanicIn,
    ) -> impl Future<Output = Result<(), ActorProcessingErr>> + Send {
        if *p == PanicIn::PostStop {
            panic!("panic in post_stop");
        }
        async move { Ok(()) }
    }
}

/// Returns (did the child's join handle complete normally, events seen by the supervisor)
async fn run(p: PanicIn) -> (bool, Vec<String>) {
    let seen: Seen = Default::default();
    let (sup, sup_handle) = Actor::spawn(None, Supervisor, seen.clone()).await.unwrap();
    let (child, child_handle) = Actor::spawn_linked(None, Child, p, sup.get_cell())
        .await
        .unwrap();
    tokio::time::sleep(Duration::from_millis(100)).await;
    match p {
        PanicIn::Handle => child.cast(()).unwrap(),
        PanicIn::PostStop => child.stop(None),
        PanicIn::SupervisorEvt => {
            // give the child a grand-child whose exit makes the child's handle_supervisor_evt run
            let (gc, gch) = Actor::spawn_linked(None, Child, PanicIn::Nowhere, child.get_cell())
                .await
                .unwrap();
            gc.stop(None);
            gch.await.unwrap();
        }
        _ => {}
    }
    let joined = tokio::time::timeout(Duration::from_secs(5), child_handle)
        .await
        .expect("child did not exit");
    tokio::time::sleep(Duration::from_millis(100)).await;
    let events = seen.lock().unwrap().clone();
    sup.stop(None);
    sup_handle.await.unwrap();
    (joined.is_ok(), events)
}

// ---- controls: same style of panic in the two loop callbacks is contained (these pass) ----

#[tokio::test(flavor = "multi_thread", worker_threads = 2)]
async fn control_sync_panic_in_handle_is_contained() {
    let (joined_ok, events) = run(PanicIn::Handle).await;
    assert!(joined_ok);
    assert_eq!(events, vec!["started", "failed(panic in handle)"]);
}

#[tokio::test(flavor = "multi_thread", worker_threads = 2)]
async fn control_sync_panic_in_handle_supervisor_evt_is_contained() {
    let (joined_ok, events) = run(PanicIn::SupervisorEvt).await;
    assert!(joined_ok);
    assert_eq!(
        events,
        vec!["started", "failed(panic in handle_supervisor_evt)"]
    );
}

// ---- the violations (these fail on the unmodified tree) ----

#[tokio::test(flavor = "multi_thread", worker_threads = 2)]
async fn sync_panic_in_post_start_is_contained() {
    let (joined_ok, events) = run(PanicIn::PostStart).await;
    assert_eq!(
        (joined_ok, events),
        (true, vec!["failed(panic in post_start)".to_string()]),
        "(join handle completed normally?, supervisor events)"
    );
}

#[tokio::test(flavor = "multi_thread", worker_threads = 2)]
async fn sync_panic_in_post_stop_is_contained() {
    let (joined_ok, events) = run(PanicIn::PostStop).await;
    assert_eq!(
        (joined_ok, events),
        (
            true,
            vec![
                "started".to_string(),
                "failed(panic in post_stop)".to_string()
            ]
        ),
        "(join handle completed normally?, supervisor events)"
    );
}

#[tokio::test(flavor = "multi_thread", worker_threads = 2)]
async fn sync_panic_in_pre_start_is_an_err_for_the_spawner() {
    let seen: Seen = Default::default();
    let (sup, sup_handle) = Actor::spawn(None, Supervisor, seen.clone()).await.unwrap();
    let sup_cell = sup.get_cell();
    // the spawner is its own task so that we can observe whether the panic reaches it
    let spawner = tokio::spawn(async move {
        Actor::spawn_linked(None, Child, PanicIn::PreStart, sup_cell)
            .await
            .map(|_| ())
    });
    let spawner_result = spawner.await;
    tokio::time::sleep(Duration::from_millis(100)).await;
    let events = seen.lock().unwrap().clone();
    sup.stop(None);
    sup_handle.await.unwrap();

    assert!(events.is_empty(), "no supervision event expected: {events:?}");
    match spawner_result {
        Ok(Err(ractor::SpawnErr::StartupFailed(_))) => {}
        other => panic!("spawner should have received Err(StartupFailed), got {other:?}"),
    }
}

// ---- the thread-local twin has the same hole ----

#[derive(Default)]
struct LocalChild;
impl ractor::thread_local::ThreadLocalActor for LocalChild {
    type Msg = ();
    type State = PanicIn;
    type Arguments = PanicIn;
    fn pre_start(
        &self,
        _: ActorRef<()>,
        p: PanicIn,
    ) -> impl Future<Output = Result<PanicIn, ActorProcessingErr>> {
        async move { Ok(p) }
    }
    fn post_start(
        &self,
        _: ActorRef<()>,
        p: &mut PanicIn,
    ) -> impl Future<Output = Result<(), ActorProcessingErr>> {
        if *p == PanicIn::PostStart {
            panic!("panic in post_start");
        }
        async move { Ok(()) }
    }
    fn post_stop(
        &self,
        _: ActorRef<()>,
        p: &mut PanicIn,
    ) -> impl Future<Output = Result<(), ActorProcessingErr>> {
        if *p == PanicIn::PostStop {
            panic!("panic in post_stop");
        }
        async move { Ok(()) }
    }
}

async fn run_local(p: PanicIn) -> (bool, Vec<String>) {
    use ractor::thread_local::{ThreadLocalActor, ThreadLocalActorSpawner};
    let seen: Seen = Default::default();
    let (sup, sup_handle) = Actor::spawn(None, Supervisor, seen.clone()).await.unwrap();
    let (child, child_handle) =
        LocalChild::spawn_linked(None, p, sup.get_cell(), ThreadLocalActorSpawner::new())
            .await
            .unwrap();
    tokio::time::sleep(Duration::from_millis(100)).await;
    if p == PanicIn::PostStop {
        child.stop(None);
    }
    let joined = tokio::time::timeout(Duration::from_secs(5), child_handle)
        .await
        .expect("child did not exit");
    tokio::time::sleep(Duration::from_millis(100)).await;
    let events = seen.lock().unwrap().clone();
    sup.stop(None);
    sup_handle.await.unwrap();
    (joined.is_ok(), events)
}

#[tokio::test(flavor = "multi_thread", worker_threads = 2)]
async fn thread_local_sync_panic_in_post_start_is_contained() {
    let (joined_ok, events) = run_local(PanicIn::PostStart).await;
    assert_eq!(
        (joined_ok, events),
        (true, vec!["failed(panic in post_start)".to_string()]),
        "(join handle completed normally?, supervisor events)"
    );
}

#[tokio::test(flavor = "multi_thread", worker_threads = 2)]
async fn thread_local_sync_panic_in_post_stop_is_contained() {
    let (joined_ok, events) = run_local(PanicIn::PostStop).await;
    assert_eq!(
        (joined_ok, events),
        (
            true,
            vec![
                "started".to_string(),
                "failed(panic in post_stop)".to_string()
            ]
        ),
        "(join handle completed normally?, supervisor events)"
    );
}

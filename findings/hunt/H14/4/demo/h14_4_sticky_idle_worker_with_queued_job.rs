// HUNT H14 / property C14 "Factory routing keeps its promises about where a job runs"
// Finding 4: sticky queuer routing leaves a job in the factory queue while a worker sits idle
//
// Integration test, public API only. Copy to ractor/tests/h14_4_sticky_idle_worker_with_queued_job.rs and run
//   cargo test --offline -j4 -p ractor --test h14_4_sticky_idle_worker_with_queued_job -- --test-threads 4
// Every `demo_*` test FAILS on the unmodified tree; every `control_*` test passes (it runs the
// same harness without the triggering step and shows that the harness raises no false alarm).
#![allow(dead_code)]
#![allow(unused_imports)]

use std::collections::HashMap;
use std::collections::HashSet;
use std::future::Future;
use std::pin::Pin;
use std::sync::atomic::AtomicBool;
use std::sync::atomic::Ordering;
use std::sync::Arc;
use std::sync::Mutex;
use std::time::Duration;

use ractor::factory::*;
use ractor::Actor;
use ractor::ActorCell;
use ractor::ActorProcessingErr;
use ractor::ActorRef;
use tokio::sync::Semaphore;

type Key = u64;

#[derive(Debug)]
struct Msg {
    seq: u32,
}
#[cfg(feature = "cluster")]
impl ractor::Message for Msg {}

// ------------------------------------------------------------------------------------------
// Shared observation state
// ------------------------------------------------------------------------------------------

#[derive(Default)]
struct Shared {
    /// one gate per job (by sequence number): `Worker::handle` does not return before the
    /// gate was opened
    gates: Mutex<HashMap<u32, Arc<Semaphore>>>,
    /// jobs currently inside `Worker::handle`: key -> [(worker, seq)]
    in_progress: Mutex<HashMap<Key, Vec<(WorkerId, u32)>>>,
    /// seq -> worker which started the job
    started: Mutex<HashMap<u32, WorkerId>>,
    /// the order in which jobs entered `Worker::handle`
    start_order: Mutex<Vec<u32>>,
    finished: Mutex<HashSet<u32>>,
    /// "same key in progress on two workers" observations
    violations: Mutex<Vec<String>>,

    /// when set, `Worker::post_stop` blocks until `post_stop_release` gets a permit
    block_post_stop: AtomicBool,
    post_stop_entered: AtomicBool,
    post_stop_release: Semaphore0,

    /// when set, the capacity controller blocks the factory inside its `Calculate` handler
    block_factory: AtomicBool,
    factory_blocked: AtomicBool,
    factory_release: Semaphore0,
}

/// A semaphore starting with 0 permits (so that `Shared` can derive `Default`)
struct Semaphore0(Semaphore);
impl Default for Semaphore0 {
    fn default() -> Self {
        Self(Semaphore::new(0))
    }
}

impl Shared {
    fn gate(&self, seq: u32) -> Arc<Semaphore> {
        self.gates
            .lock()
            .unwrap()
            .entry(seq)
            .or_insert_with(|| Arc::new(Semaphore::new(0)))
            .clone()
    }
    fn open(&self, seq: u32) {
        self.gate(seq).add_permits(1);
    }
    fn started_on(&self, seq: u32) -> Option<WorkerId> {
        self.started.lock().unwrap().get(&seq).copied()
    }
    fn is_finished(&self, seq: u32) -> bool {
        self.finished.lock().unwrap().contains(&seq)
    }
    fn violations(&self) -> Vec<String> {
        self.violations.lock().unwrap().clone()
    }
}

/// Removes the job from the "in progress" set, also when the worker is killed mid-job
struct InProgress {
    shared: Arc<Shared>,
    key: Key,
    wid: WorkerId,
    seq: u32,
}
impl Drop for InProgress {
    fn drop(&mut self) {
        if let Some(list) = self.shared.in_progress.lock().unwrap().get_mut(&self.key) {
            list.retain(|e| *e != (self.wid, self.seq));
        }
    }
}

// ------------------------------------------------------------------------------------------
// The worker (plain `Worker` trait implementation, nothing exotic)
// ------------------------------------------------------------------------------------------

struct GatedWorker {
    shared: Arc<Shared>,
}

#[cfg_attr(feature = "async-trait", ractor::async_trait)]
impl Worker for GatedWorker {
    type Key = Key;
    type Message = Msg;
    type Arguments = ();
    type State = ();

    async fn pre_start(
        &self,
        _wid: WorkerId,
        _factory: &ActorRef<FactoryMessage<Key, Msg>>,
        _args: (),
    ) -> Result<(), ActorProcessingErr> {
        Ok(())
    }

    async fn handle(
        &self,
        wid: WorkerId,
        _factory: &ActorRef<FactoryMessage<Key, Msg>>,
        job: Job<Key, Msg>,
        _state: &mut (),
    ) -> Result<Key, ActorProcessingErr> {
        let key = job.key;
        let seq = job.msg.seq;
        {
            let mut in_progress = self.shared.in_progress.lock().unwrap();
            let list = in_progress.entry(key).or_default();
            for (other_wid, other_seq) in list.iter() {
                if *other_wid != wid {
                    self.shared.violations.lock().unwrap().push(format!(
                        "key {key}: job #{seq} started on worker {wid} while job #{other_seq} of the same key is in progress on worker {other_wid}"
                    ));
                }
            }
            list.push((wid, seq));
        }
        let _guard = InProgress {
            shared: self.shared.clone(),
            key,
            wid,
            seq,
        };
        self.shared.started.lock().unwrap().insert(seq, wid);
        self.shared.start_order.lock().unwrap().push(seq);

        // the job is "in progress" until the test opens its gate
        self.shared.gate(seq).acquire().await.unwrap().forget();

        self.shared.finished.lock().unwrap().insert(seq);
        Ok(key)
    }

    async fn post_stop(
        &self,
        _wid: WorkerId,
        _factory: &ActorRef<FactoryMessage<Key, Msg>>,
        _state: &mut (),
    ) -> Result<(), ActorProcessingErr> {
        if self.shared.block_post_stop.load(Ordering::SeqCst) {
            self.shared.post_stop_entered.store(true, Ordering::SeqCst);
            self.shared
                .post_stop_release
                .0
                .acquire()
                .await
                .unwrap()
                .forget();
        }
        Ok(())
    }
}

struct Builder {
    shared: Arc<Shared>,
}
impl WorkerBuilder<GatedWorker, ()> for Builder {
    fn build(&mut self, _wid: WorkerId) -> (GatedWorker, ()) {
        (
            GatedWorker {
                shared: self.shared.clone(),
            },
            (),
        )
    }
}

// ------------------------------------------------------------------------------------------
// A capacity controller which never changes the pool size, but can keep the factory busy
// inside one message handler (`FactoryMessage::Calculate`, every 100ms) for as long as the
// test wants. That is all it is used for: "the factory is busy with something else while a
// worker reports completion and then dies".
// ------------------------------------------------------------------------------------------

struct BusyFactory {
    shared: Arc<Shared>,
}

impl BusyFactory {
    async fn run(&mut self, current: usize) -> usize {
        if self.shared.block_factory.load(Ordering::SeqCst) {
            self.shared.factory_blocked.store(true, Ordering::SeqCst);
            self.shared
                .factory_release
                .0
                .acquire()
                .await
                .unwrap()
                .forget();
            self.shared.factory_blocked.store(false, Ordering::SeqCst);
        }
        current
    }
}

#[cfg(not(feature = "async-trait"))]
impl WorkerCapacityController for BusyFactory {
    fn get_pool_size(
        &mut self,
        current: usize,
    ) -> Pin<Box<dyn Future<Output = usize> + Send + '_>> {
        Box::pin(self.run(current))
    }
}

#[cfg(feature = "async-trait")]
#[ractor::async_trait]
impl WorkerCapacityController for BusyFactory {
    async fn get_pool_size(&mut self, current: usize) -> usize {
        self.run(current).await
    }
}

// ------------------------------------------------------------------------------------------
// helpers
// ------------------------------------------------------------------------------------------

async fn wait_until(what: &str, timeout: Duration, mut cond: impl FnMut() -> bool) -> bool {
    let deadline = tokio::time::Instant::now() + timeout;
    while tokio::time::Instant::now() < deadline {
        if cond() {
            return true;
        }
        tokio::time::sleep(Duration::from_millis(5)).await;
    }
    let ok = cond();
    if !ok {
        eprintln!("[h14] timed out waiting for: {what}");
    }
    ok
}

type FactoryRef = ActorRef<FactoryMessage<Key, Msg>>;

/// Round trip through the factory's mailbox: everything sent to the factory before this call
/// has been handled when it returns. Returns the factory queue depth.
async fn sync(factory: &FactoryRef) -> usize {
    match factory
        .call(FactoryMessage::GetQueueDepth, Some(Duration::from_secs(5)))
        .await
        .expect("factory alive")
    {
        ractor::rpc::CallResult::Success(n) => n,
        other => panic!("factory did not answer: {other:?}"),
    }
}

fn dispatch(factory: &FactoryRef, key: Key, seq: u32) {
    factory
        .cast(FactoryMessage::Dispatch(Job::new(key, Msg { seq })))
        .expect("factory alive");
}

async fn spawn_factory<R>(
    shared: &Arc<Shared>,
    workers: usize,
) -> (FactoryRef, tokio::task::JoinHandle<()>)
where
    R: routing::Router<Key, Msg> + Default,
{
    let definition =
        Factory::<Key, Msg, (), GatedWorker, R, queues::DefaultQueue<Key, Msg>>::default();
    let arguments = FactoryArguments::builder()
        .worker_builder(Box::new(Builder {
            shared: shared.clone(),
        }))
        .num_initial_workers(workers)
        .router(R::default())
        .queue(queues::DefaultQueue::default())
        .capacity_controller(Box::new(BusyFactory {
            shared: shared.clone(),
        }))
        .build();
    Actor::spawn(None, definition, arguments)
        .await
        .expect("factory starts")
}

/// Start a factory with one worker, grow it to two, and return the actor cells of worker 0
/// and worker 1 (the only way to learn which actor is which worker through the public API).
async fn two_worker_factory<R>(
    shared: &Arc<Shared>,
) -> (
    FactoryRef,
    tokio::task::JoinHandle<()>,
    HashMap<WorkerId, ActorCell>,
)
where
    R: routing::Router<Key, Msg> + Default,
{
    let (factory, handle) = spawn_factory::<R>(shared, 1).await;
    let first = factory.get_children();
    assert_eq!(first.len(), 1);
    let w0 = first[0].clone();
    factory
        .cast(FactoryMessage::AdjustWorkerPool(2))
        .expect("factory alive");
    sync(&factory).await;
    let both = factory.get_children();
    assert_eq!(both.len(), 2, "pool grew to two workers");
    let w1 = both
        .into_iter()
        .find(|c| c.get_id() != w0.get_id())
        .expect("second worker");
    (factory, handle, HashMap::from([(0, w0), (1, w1)]))
}

async fn shutdown(shared: &Arc<Shared>, factory: FactoryRef, handle: tokio::task::JoinHandle<()>) {
    // never leave anything gated behind
    shared.block_factory.store(false, Ordering::SeqCst);
    shared.factory_release.0.add_permits(1000);
    shared.block_post_stop.store(false, Ordering::SeqCst);
    shared.post_stop_release.0.add_permits(1000);
    for seq in 0..32 {
        shared.gate(seq).add_permits(1000);
    }
    factory.stop(None);
    let _ = tokio::time::timeout(Duration::from_secs(5), handle).await;
}

// ------------------------------------------------------------------------------------------
// History D (sticky queuer routing): a worker becomes free, the job at the head of the factory
// queue is "sticky" to ANOTHER (busy) worker and is moved to that worker's own queue, and the
// factory stops there: the next job stays in the factory queue although the worker which just
// became free sits idle. It is only picked up when some worker completes a job; jobs
// submitted later overtake it.
// ------------------------------------------------------------------------------------------

#[tokio::test(flavor = "multi_thread", worker_threads = 2)]
async fn demo_sticky_job_waits_in_factory_queue_while_a_worker_is_idle() {
    let shared = Arc::new(Shared::default());
    let (factory, handle) =
        spawn_factory::<routing::StickyQueuerRouting<Key, Msg>>(&shared, 2).await;

    // both workers are busy (keys 1 and 2) ...
    dispatch(&factory, 1, 1);
    dispatch(&factory, 2, 2);
    assert!(wait_until("jobs 1+2 started", Duration::from_secs(5), || {
        shared.started_on(1).is_some() && shared.started_on(2).is_some()
    })
    .await);
    let first = shared.started_on(1).unwrap();
    let second = shared.started_on(2).unwrap();
    assert_ne!(first, second);

    // ... and three jobs wait in the factory queue: key 3, key 3, key 4
    dispatch(&factory, 3, 3);
    dispatch(&factory, 3, 4);
    dispatch(&factory, 4, 5);
    assert_eq!(sync(&factory).await, 3);

    // the first worker completes its job and takes job #3 (key 3)
    shared.open(1);
    assert!(wait_until("job 3 started", Duration::from_secs(5), || shared.started_on(3).is_some()).await);
    assert_eq!(shared.started_on(3), Some(first));
    // the second worker completes its job: job #4 (key 3) is sticky to the first worker,
    // job #5 (key 4) can run on the second worker, which is free now
    shared.open(2);
    assert!(wait_until("job 2 finished", Duration::from_secs(5), || shared.is_finished(2)).await);
    tokio::time::sleep(Duration::from_millis(500)).await;
    let depth = sync(&factory).await;
    let busy = match factory
        .call(
            FactoryMessage::GetNumActiveWorkers,
            Some(Duration::from_secs(5)),
        )
        .await
        .unwrap()
    {
        ractor::rpc::CallResult::Success(n) => n,
        other => panic!("{other:?}"),
    };
    let job5 = shared.started_on(5);
    eprintln!(
        "[h14] 500ms after the second worker became free: factory queue depth = {depth}, busy workers = {busy} of 2, job 5 started on {job5:?}"
    );

    for seq in 3..=5 {
        shared.open(seq);
    }
    assert!(wait_until("all finished", Duration::from_secs(5), || {
        (3..=5).all(|s| shared.is_finished(s))
    })
    .await);
    shutdown(&shared, factory, handle).await;

    assert!(
        job5.is_some() && depth == 0,
        "a job waited in the factory queue (depth {depth}) while only {busy} of 2 workers were busy"
    );
}

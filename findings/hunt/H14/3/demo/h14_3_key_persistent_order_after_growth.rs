// HUNT H14 / property C14 "Factory routing keeps its promises about where a job runs"
// Finding 3: key-persistent submission order is lost when a backlog is only partially flushed on growth
//
// Integration test, public API only. Copy to ractor/tests/h14_3_key_persistent_order_after_growth.rs and run
//   cargo test --offline -j4 -p ractor --test h14_3_key_persistent_order_after_growth -- --test-threads 4
// Every `demo_*` test FAILS on the unmodified tree; every `control_*` test passes (it runs the
// same harness without the triggering step and shows that the harness raises no false alarm).
#![allow(dead_code)]
#![allow(unused_imports)]

use std::collections::HashMap;
use std::collections::HashSet;
use std::future::Future;
use std::pin::Pin;
use std::sync::atomic::AtomicBool;
use std::sync::atomic::Ordering;
use std::sync::Arc;
use std::sync::Mutex;
use std::time::Duration;

use ractor::factory::*;
use ractor::Actor;
use ractor::ActorCell;
use ractor::ActorProcessingErr;
use ractor::ActorRef;
use tokio::sync::Semaphore;

type Key = u64;

#[derive(Debug)]
struct Msg {
    seq: u32,
}
#[cfg(feature = "cluster")]
impl ractor::Message for Msg {}

// ------------------------------------------------------------------------------------------
// Shared observation state
// ------------------------------------------------------------------------------------------

#[derive(Default)]
struct Shared {
    /// one gate per job (by sequence number): `Worker::handle` does not return before the
    /// gate was opened
    gates: Mutex<HashMap<u32, Arc<Semaphore>>>,
    /// jobs currently inside `Worker::handle`: key -> [(worker, seq)]
    in_progress: Mutex<HashMap<Key, Vec<(WorkerId, u32)>>>,
    /// seq -> worker which started the job
    started: Mutex<HashMap<u32, WorkerId>>,
    /// the order in which jobs entered `Worker::handle`
    start_order: Mutex<Vec<u32>>,
    finished: Mutex<HashSet<u32>>,
    /// "same key in progress on two workers" observations
    violations: Mutex<Vec<String>>,

    /// when set, `Worker::post_stop` blocks until `post_stop_release` gets a permit
    block_post_stop: AtomicBool,
    post_stop_entered: AtomicBool,
    post_stop_release: Semaphore0,

    /// when set, the capacity controller blocks the factory inside its `Calculate` handler
    block_factory: AtomicBool,
    factory_blocked: AtomicBool,
    factory_release: Semaphore0,
}

/// A semaphore starting with 0 permits (so that `Shared` can derive `Default`)
struct Semaphore0(Semaphore);
impl Default for Semaphore0 {
    fn default() -> Self {
        Self(Semaphore::new(0))
    }
}

impl Shared {
    fn gate(&self, seq: u32) -> Arc<Semaphore> {
        self.gates
            .lock()
            .unwrap()
            .entry(seq)
            .or_insert_with(|| Arc::new(Semaphore::new(0)))
            .clone()
    }
    fn open(&self, seq: u32) {
        self.gate(seq).add_permits(1);
    }
    fn started_on(&self, seq: u32) -> Option<WorkerId> {
        self.started.lock().unwrap().get(&seq).copied()
    }
    fn is_finished(&self, seq: u32) -> bool {
        self.finished.lock().unwrap().contains(&seq)
    }
    fn violations(&self) -> Vec<String> {
        self.violations.lock().unwrap().clone()
    }
}

/// Removes the job from the "in progress" set, also when the worker is killed mid-job
struct InProgress {
    shared: Arc<Shared>,
    key: Key,
    wid: WorkerId,
    seq: u32,
}
impl Drop for InProgress {
    fn drop(&mut self) {
        if let Some(list) = self.shared.in_progress.lock().unwrap().get_mut(&self.key) {
            list.retain(|e| *e != (self.wid, self.seq));
        }
    }
}

// ------------------------------------------------------------------------------------------
// The worker (plain `Worker` trait implementation, nothing exotic)
// ------------------------------------------------------------------------------------------

struct GatedWorker {
    shared: Arc<Shared>,
}

#[cfg_attr(feature = "async-trait", ractor::async_trait)]
impl Worker for GatedWorker {
    type Key = Key;
    type Message = Msg;
    type Arguments = ();
    type State = ();

    async fn pre_start(
        &self,
        _wid: WorkerId,
        _factory: &ActorRef<FactoryMessage<Key, Msg>>,
        _args: (),
    ) -> Result<(), ActorProcessingErr> {
        Ok(())
    }

    async fn handle(
        &self,
        wid: WorkerId,
        _factory: &ActorRef<FactoryMessage<Key, Msg>>,
        job: Job<Key, Msg>,
        _state: &mut (),
    ) -> Result<Key, ActorProcessingErr> {
        let key = job.key;
        let seq = job.msg.seq;
        {
            let mut in_progress = self.shared.in_progress.lock().unwrap();
            let list = in_progress.entry(key).or_default();
            for (other_wid, other_seq) in list.iter() {
                if *other_wid != wid {
                    self.shared.violations.lock().unwrap().push(format!(
                        "key {key}: job #{seq} started on worker {wid} while job #{other_seq} of the same key is in progress on worker {other_wid}"
                    ));
                }
            }
            list.push((wid, seq));
        }
        let _guard = InProgress {
            shared: self.shared.clone(),
            key,
            wid,
            seq,
        };
        self.shared.started.lock().unwrap().insert(seq, wid);
        self.shared.start_order.lock().unwrap().push(seq);

        // the job is "in progress" until the test opens its gate
        self.shared.gate(seq).acquire().await.unwrap().forget();

        self.shared.finished.lock().unwrap().insert(seq);
        Ok(key)
    }

    async fn post_stop(
        &self,
        _wid: WorkerId,
        _factory: &ActorRef<FactoryMessage<Key, Msg>>,
        _state: &mut (),
    ) -> Result<(), ActorProcessingErr> {
        if self.shared.block_post_stop.load(Ordering::SeqCst) {
            self.shared.post_stop_entered.store(true, Ordering::SeqCst);
            self.shared
                .post_stop_release
                .0
                .acquire()
                .await
                .unwrap()
                .forget();
        }
        Ok(())
    }
}

struct Builder {
    shared: Arc<Shared>,
}
impl WorkerBuilder<GatedWorker, ()> for Builder {
    fn build(&mut self, _wid: WorkerId) -> (GatedWorker, ()) {
        (
            GatedWorker {
                shared: self.shared.clone(),
            },
            (),
        )
    }
}

// ------------------------------------------------------------------------------------------
// A capacity controller which never changes the pool size, but can keep the factory busy
// inside one message handler (`FactoryMessage::Calculate`, every 100ms) for as long as the
// test wants. That is all it is used for: "the factory is busy with something else while a
// worker reports completion and then dies".
// ------------------------------------------------------------------------------------------

struct BusyFactory {
    shared: Arc<Shared>,
}

impl BusyFactory {
    async fn run(&mut self, current: usize) -> usize {
        if self.shared.block_factory.load(Ordering::SeqCst) {
            self.shared.factory_blocked.store(true, Ordering::SeqCst);
            self.shared
                .factory_release
                .0
                .acquire()
                .await
                .unwrap()
                .forget();
            self.shared.factory_blocked.store(false, Ordering::SeqCst);
        }
        current
    }
}

#[cfg(not(feature = "async-trait"))]
impl WorkerCapacityController for BusyFactory {
    fn get_pool_size(
        &mut self,
        current: usize,
    ) -> Pin<Box<dyn Future<Output = usize> + Send + '_>> {
        Box::pin(self.run(current))
    }
}

#[cfg(feature = "async-trait")]
#[ractor::async_trait]
impl WorkerCapacityController for BusyFactory {
    async fn get_pool_size(&mut self, current: usize) -> usize {
        self.run(current).await
    }
}

// ------------------------------------------------------------------------------------------
// helpers
// ------------------------------------------------------------------------------------------

async fn wait_until(what: &str, timeout: Duration, mut cond: impl FnMut() -> bool) -> bool {
    let deadline = tokio::time::Instant::now() + timeout;
    while tokio::time::Instant::now() < deadline {
        if cond() {
            return true;
        }
        tokio::time::sleep(Duration::from_millis(5)).await;
    }
    let ok = cond();
    if !ok {
        eprintln!("[h14] timed out waiting for: {what}");
    }
    ok
}

type FactoryRef = ActorRef<FactoryMessage<Key, Msg>>;

/// Round trip through the factory's mailbox: everything sent to the factory before this call
/// has been handled when it returns. Returns the factory queue depth.
async fn sync(factory: &FactoryRef) -> usize {
    match factory
        .call(FactoryMessage::GetQueueDepth, Some(Duration::from_secs(5)))
        .await
        .expect("factory alive")
    {
        ractor::rpc::CallResult::Success(n) => n,
        other => panic!("factory did not answer: {other:?}"),
    }
}

fn dispatch(factory: &FactoryRef, key: Key, seq: u32) {
    factory
        .cast(FactoryMessage::Dispatch(Job::new(key, Msg { seq })))
        .expect("factory alive");
}

async fn spawn_factory<R>(
    shared: &Arc<Shared>,
    workers: usize,
) -> (FactoryRef, tokio::task::JoinHandle<()>)
where
    R: routing::Router<Key, Msg> + Default,
{
    let definition =
        Factory::<Key, Msg, (), GatedWorker, R, queues::DefaultQueue<Key, Msg>>::default();
    let arguments = FactoryArguments::builder()
        .worker_builder(Box::new(Builder {
            shared: shared.clone(),
        }))
        .num_initial_workers(workers)
        .router(R::default())
        .queue(queues::DefaultQueue::default())
        .capacity_controller(Box::new(BusyFactory {
            shared: shared.clone(),
        }))
        .build();
    Actor::spawn(None, definition, arguments)
        .await
        .expect("factory starts")
}

/// Start a factory with one worker, grow it to two, and return the actor cells of worker 0
/// and worker 1 (the only way to learn which actor is which worker through the public API).
async fn two_worker_factory<R>(
    shared: &Arc<Shared>,
) -> (
    FactoryRef,
    tokio::task::JoinHandle<()>,
    HashMap<WorkerId, ActorCell>,
)
where
    R: routing::Router<Key, Msg> + Default,
{
    let (factory, handle) = spawn_factory::<R>(shared, 1).await;
    let first = factory.get_children();
    assert_eq!(first.len(), 1);
    let w0 = first[0].clone();
    factory
        .cast(FactoryMessage::AdjustWorkerPool(2))
        .expect("factory alive");
    sync(&factory).await;
    let both = factory.get_children();
    assert_eq!(both.len(), 2, "pool grew to two workers");
    let w1 = both
        .into_iter()
        .find(|c| c.get_id() != w0.get_id())
        .expect("second worker");
    (factory, handle, HashMap::from([(0, w0), (1, w1)]))
}

async fn shutdown(shared: &Arc<Shared>, factory: FactoryRef, handle: tokio::task::JoinHandle<()>) {
    // never leave anything gated behind
    shared.block_factory.store(false, Ordering::SeqCst);
    shared.factory_release.0.add_permits(1000);
    shared.block_post_stop.store(false, Ordering::SeqCst);
    shared.post_stop_release.0.add_permits(1000);
    for seq in 0..32 {
        shared.gate(seq).add_permits(1000);
    }
    factory.stop(None);
    let _ = tokio::time::timeout(Duration::from_secs(5), handle).await;
}

// ------------------------------------------------------------------------------------------
// History C (key-persistent routing): a factory started with an empty pool queues jobs until
// it is resized (`zero_initial_worker_pool_queues_until_resized` in the crate's own tests).
// On growth only `new_pool_size` queued jobs are flushed; the rest stays in the factory queue
// and is fed one-per-completion, while newly submitted jobs of the same key go straight to
// the worker and overtake them.
// ------------------------------------------------------------------------------------------

async fn four_jobs_of_one_key(initial_workers: usize) -> Vec<u32> {
    let key: Key = 7;
    let shared = Arc::new(Shared::default());
    let (factory, handle) =
        spawn_factory::<routing::KeyPersistentRouting<Key, Msg>>(&shared, initial_workers).await;

    dispatch(&factory, key, 1);
    dispatch(&factory, key, 2);
    dispatch(&factory, key, 3);
    let depth = sync(&factory).await;
    if initial_workers == 0 {
        assert_eq!(depth, 3, "no workers: the three jobs are queued");
    }

    factory
        .cast(FactoryMessage::AdjustWorkerPool(1))
        .expect("factory alive");
    sync(&factory).await;
    assert!(wait_until("job 1 started", Duration::from_secs(5), || shared.started_on(1).is_some()).await);

    // a fourth job of the same key is submitted after the other three
    dispatch(&factory, key, 4);
    sync(&factory).await;

    for seq in 1..=4 {
        shared.open(seq);
    }
    assert!(wait_until("all jobs finished", Duration::from_secs(5), || {
        (1..=4).all(|s| shared.is_finished(s))
    })
    .await);
    let order = shared.start_order.lock().unwrap().clone();
    shutdown(&shared, factory, handle).await;
    order
}

#[tokio::test(flavor = "multi_thread", worker_threads = 2)]
async fn control_key_persistent_submission_order_with_one_initial_worker() {
    assert_eq!(four_jobs_of_one_key(1).await, vec![1, 2, 3, 4]);
}

#[tokio::test(flavor = "multi_thread", worker_threads = 2)]
async fn demo_key_persistent_submission_order_after_growth_from_empty_pool() {
    assert_eq!(
        four_jobs_of_one_key(0).await,
        vec![1, 2, 3, 4],
        "key-persistent routing: jobs of one key must be handled in submission order"
    );
}


#!/usr/bin/env python3
"""Apply trial repairs A, B, C, D (any subset) to a CLEAN checkout. Usage: apply_repair.py A B ..."""
import sys
root = '/tmp/wt/H14/'

def sub(path, old, new):
    s = open(root + path).read()
    assert old in s, (path, old[:60])
    s = s.replace(old, new)
    open(root + path, 'w').write(s)

def repair_a():
    sub('ractor/src/factory.rs', '''    /// A job finished
    Finished(WorkerId, TKey),
''', '''    /// A job finished
    Finished(WorkerId, TKey),

    /// (internal) A worker actor exited. Sent by the factory to itself when it receives the
    /// supervision event, so that the replacement is ordered AFTER every message the dead
    /// worker sent to the factory (supervision events overtake regular messages).
    #[doc(hidden)]
    WorkerExited(crate::ActorId, String),
''')
    p = 'ractor/src/factory/factoryimpl.rs'
    s = open(root + p).read()
    a = s.index('''        match message {
            SupervisionEvent::ActorTerminated(who, _, reason) => {''')
    b = s.index('''            _ => {}
        }
        Ok(())
    }

    async fn handle(''')
    new_sup = '''        match message {
            SupervisionEvent::ActorTerminated(who, _, reason) => {
                if state.worker_by_actor.contains_key(&who.get_id()) {
                    let _ = myself.cast(FactoryMessage::WorkerExited(
                        who.get_id(),
                        format!("terminated with {reason:?}"),
                    ));
                }
            }
            SupervisionEvent::ActorFailed(who, reason) => {
                if state.worker_by_actor.contains_key(&who.get_id()) {
                    let _ = myself.cast(FactoryMessage::WorkerExited(
                        who.get_id(),
                        format!("panicked with {reason}"),
                    ));
                }
            }
'''
    s = s[:a] + new_sup + s[b:]
    open(root + p, 'w').write(s)
    sub(p, '''            FactoryMessage::Finished(who, key) => {
                state.worker_finished_job(who, key)?;
            }
''', '''            FactoryMessage::Finished(who, key) => {
                state.worker_finished_job(who, key)?;
            }
            FactoryMessage::WorkerExited(who, reason) => {
                let should_ping_replacement = state.dead_mans_switch.is_some();
                let worker_id = state.worker_by_actor.get(&who).copied();
                let replacement =
                    if let Some(worker) = worker_id.and_then(|wid| state.pool.get_mut(&wid)) {
                        tracing::warn!(
                            factory = ?myself, "Factory's worker {} {}",
                            worker.wid,
                            reason
                        );
                        let (new_worker, custom_start) = state.worker_builder.build(worker.wid);
                        let spec = WorkerStartContext {
                            wid: worker.wid,
                            factory: myself.clone(),
                            custom_start,
                        };
                        let (replacement, replacement_handle) =
                            Actor::spawn_linked(None, new_worker, spec, myself.get_cell()).await?;

                        let replacement_id = replacement.get_id();
                        worker.replace_worker(replacement, replacement_handle)?;
                        if should_ping_replacement {
                            let _ = worker.send_factory_ping();
                        }
                        Some((worker.wid, replacement_id))
                    } else {
                        None
                    };
                if let Some((wid, replacement_id)) = replacement {
                    state.worker_by_actor.remove(&who);
                    state.worker_by_actor.insert(replacement_id, wid);
                    state.try_route_next_active_job(Some(wid))?;
                    if matches!(state.pool.get(&wid), Some(w) if w.is_available()) {
                        state.router.on_worker_availability_change(wid, true);
                    }
                }
            }
''')

def repair_b():
    p = 'ractor/src/factory/routing.rs'
    s = open(root + p).read()
    a = s.index('impl<TKey, TMsg> Router<TKey, TMsg> for StickyQueuerRouting')
    b = s.index('// ============================ Round-robin routing')
    seg = s[a:b]
    assert seg.count('is_processing_key(&job.key)') == 2
    s = s[:a] + seg.replace('is_processing_key(&job.key)', 'has_pending_key(&job.key)') + s[b:]
    open(root + p, 'w').write(s)

def repair_c():
    sub('ractor/src/factory/factoryimpl.rs', '''        if is_growing {
            for _ in 0..new_pool_size {
                if self.queue.peek().is_none() {
                    break;
                }
                self.try_route_next_active_job(None)?;
            }
        }
''', '''        if is_growing {
            // flush as much of the backlog as the router accepts (not only `new_pool_size`
            // jobs): what stays behind would be overtaken by newly submitted jobs
            loop {
                let backlog = self.queue.len();
                if backlog == 0 {
                    break;
                }
                self.try_route_next_active_job(None)?;
                if self.queue.len() >= backlog {
                    break;
                }
            }
        }
''')

def repair_d():
    sub('ractor/src/factory/factoryimpl.rs', '''                    RouteResult::Handled => {
                        // routed a job, we're done trying to route the next active job.
                        return Ok(());
                    }
''', '''                    RouteResult::Handled => {
                        // routed a job, we're done trying to route the next active job,
                        // unless the job went to another worker than the hinted one (sticky
                        // routing) and the hinted worker is therefore still free.
                        let hinted_worker_still_free = worker_hint.is_some_and(|hint| {
                            hint != worker
                                && self.pool.get(&hint).is_some_and(|w| w.is_available())
                        });
                        if !hinted_worker_still_free {
                            return Ok(());
                        }
                    }
''')

for which in sys.argv[1:]:
    {'A': repair_a, 'B': repair_b, 'C': repair_c, 'D': repair_d}[which]()
    print('applied repair', which)

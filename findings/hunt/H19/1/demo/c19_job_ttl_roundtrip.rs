//! C19 demonstration: the wire encoding of `ractor::factory::JobOptions` (the job metadata that
//! travels with every `Job` sent to a remote factory) does not round-trip the job's TTL.
//!
//! * `Some(Duration::ZERO)` ("already expired") is encoded as 0, which is the marker for `None`
//!   ("never expires"), so encode -> decode turns an expired job into an immortal one.
//! * TTLs of 2^64 ns or more are truncated with `as u64` and wrap around, so a ~584 year TTL can
//!   arrive as a TTL of a few nanoseconds.
//!
//! Copy to `ractor_cluster_integration_tests/tests/` and run
//! `cargo test --offline -j4 -p ractor_cluster_integration_tests --test c19_job_ttl_roundtrip`.

use ractor::concurrency::Duration;
use ractor::factory::FactoryMessage;
use ractor::factory::Job;
use ractor::factory::JobOptions;
use ractor::BytesConvertable;
use ractor::Message;

/// `BytesConvertable` level: encode followed by decode must give the TTL back.
#[test]
fn job_options_zero_ttl_survives_encode_decode() {
    for ttl in &[
        None,
        Some(Duration::from_nanos(1)),
        Some(Duration::from_secs(3600)),
        Some(Duration::ZERO),
    ] {
        let options = JobOptions::new(*ttl);
        let submit_time = options.submit_time();
        let decoded = <JobOptions as BytesConvertable>::from_bytes(options.into_bytes());
        assert_eq!(decoded.submit_time(), submit_time, "submit time of {:?}", ttl);
        assert_eq!(decoded.ttl(), *ttl, "ttl {:?} changed on the wire", ttl);
    }
}

/// `Message` level: exactly what a remote factory does with the `Cast` it receives.
#[test]
fn zero_ttl_job_is_still_expired_at_the_remote_factory() {
    let job = Job::<u64, u32>::with_options(7, 42, JobOptions::new(Some(Duration::ZERO)));
    std::thread::sleep(std::time::Duration::from_millis(5));
    assert!(job.is_expired(), "a zero TTL job is expired on the sending node");

    let wire = FactoryMessage::Dispatch(job)
        .serialize()
        .expect("a job with a serializable message serializes");
    let decoded = match FactoryMessage::<u64, u32>::deserialize(wire) {
        Ok(FactoryMessage::Dispatch(job)) => job,
        _ => panic!("the job must decode as a dispatch"),
    };
    assert_eq!(decoded.key, 7);
    assert_eq!(decoded.msg, 42);
    assert_eq!(
        decoded.options.ttl(),
        Some(Duration::ZERO),
        "the TTL was lost on the wire"
    );
    assert!(
        decoded.is_expired(),
        "the same job never expires on the receiving node"
    );
}

/// A TTL which does not fit the 8 byte field must not wrap around into a tiny TTL. (Exact
/// equality is impossible here, so this only asserts that the job did not become expired.)
#[test]
fn huge_ttl_does_not_wrap_into_an_expired_job() {
    // 2^64 + 5 nanoseconds, about 584.5 years
    let ttl = Duration::new(18_446_744_073, 709_551_616 + 5);
    let job = Job::<u64, u32>::with_options(1, 2, JobOptions::new(Some(ttl)));
    assert!(!job.is_expired());

    let wire = job.serialize().expect("serializes");
    let decoded = Job::<u64, u32>::deserialize(wire).expect("decodes");
    std::thread::sleep(std::time::Duration::from_millis(5));
    assert!(
        decoded.options.ttl().expect("a TTL was set") > Duration::from_secs(3600),
        "a 584 year TTL arrived as {:?}",
        decoded.options.ttl()
    );
    assert!(
        !decoded.is_expired(),
        "a job with a 584 year TTL is expired on arrival"
    );
}

use std::convert::TryFrom;
use std::fs::File;
use std::io::BufReader;
use std::sync::Arc;
use std::time::Duration;

use ractor::Actor;
use ractor_cluster::{IncomingEncryptionMode, NodeServer, NodeServerMessage};
use tokio_rustls::rustls::pki_types::pem::PemObject;
use tokio_rustls::rustls::pki_types::{CertificateDer, PrivateKeyDer, ServerName, TrustAnchor};
use tokio_rustls::{TlsAcceptor, TlsConnector};

fn tls() -> (TlsAcceptor, TlsConnector, ServerName<'static>) {
    let certs = CertificateDer::pem_file_iter("test-ca/rsa-2048/end.fullchain").unwrap().collect::<Result<Vec<_>, _>>().unwrap();
    let key = PrivateKeyDer::from_pem_file("test-ca/rsa-2048/end.key").unwrap();
    let server_config = tokio_rustls::rustls::ServerConfig::builder().with_no_client_auth().with_single_cert(certs, key).unwrap();
    let acceptor = TlsAcceptor::from(Arc::new(server_config));
    let mut ca_pem = BufReader::new(File::open("test-ca/rsa-2048/ca.cert").unwrap());
    let ca_certs = rustls_pemfile::certs(&mut ca_pem).filter_map(|c| c.ok());
    let mut store = tokio_rustls::rustls::RootCertStore::empty();
    store.extend(ca_certs.map(|cert| {
        let ta = webpki::TrustAnchor::try_from_cert_der(&cert[..]).unwrap();
        TrustAnchor { subject: ta.subject.into(), name_constraints: ta.name_constraints.map(|a| a.into()), subject_public_key_info: ta.spki.into() }.to_owned()
    }));
    let cc = tokio_rustls::rustls::ClientConfig::builder().with_root_certificates(store).with_no_client_auth();
    (acceptor, TlsConnector::from(Arc::new(cc)), ServerName::try_from("testserver.com").unwrap())
}

fn free_port() -> u16 {
    std::net::TcpListener::bind("127.0.0.1:0").unwrap().local_addr().unwrap().port()
}

#[tokio::test(flavor = "multi_thread", worker_threads = 3)]
async fn silent_tcp_peer_does_not_block_other_inbound_connections() {
    let (acceptor, connector, domain) = tls();
    let port_a = free_port();
    let (a, ah) = Actor::spawn(None, NodeServer::new(port_a, "cookie".into(), "a".into(), "localhost".into(), Some(IncomingEncryptionMode::Tls(acceptor.clone())), None), ()).await.unwrap();
    let (b, bh) = Actor::spawn(None, NodeServer::new(free_port(), "cookie".into(), "b".into(), "localhost".into(), Some(IncomingEncryptionMode::Tls(acceptor)), None), ()).await.unwrap();

    // a peer which opens a TCP connection and sends a few bytes of a TLS record, then stalls
    let mut stalled = tokio::net::TcpStream::connect(("127.0.0.1", port_a)).await.unwrap();
    tokio::io::AsyncWriteExt::write_all(&mut stalled, &[0x16, 0x03, 0x01]).await.unwrap();
    tokio::time::sleep(Duration::from_millis(200)).await;

    // a legitimate peer connects afterwards
    let connected = tokio::time::timeout(
        Duration::from_secs(5),
        ractor_cluster::client_connect_enc(&b, format!("127.0.0.1:{port_a}"), connector, domain),
    )
    .await;

    let mut authenticated = false;
    for _ in 0..if connected.is_ok() { 100 } else { 0 } {
        let sessions = ractor::call_t!(a, NodeServerMessage::GetSessions, 1000).unwrap();
        if let Some(s) = sessions.into_values().next() {
            if ractor::call_t!(s.actor, ractor_cluster::NodeSessionMessage::GetAuthenticationState, 1000).unwrap_or(false) {
                authenticated = true;
                break;
            }
        }
        tokio::time::sleep(Duration::from_millis(50)).await;
    }
    drop(stalled);
    a.stop(None); b.stop(None);
    let _ = ah.await; let _ = bh.await;
    assert!(connected.is_ok(), "TLS handshake of the legitimate peer was never served: the listener is stuck behind the silent peer");
    assert!(authenticated, "node A never accepted the legitimate peer while a silent TCP peer was connected");
}

// Probe for property C03 (kill > stop > supervision > messages).
// Scratch file, not part of the library.

use std::sync::Arc;
use std::sync::Mutex;

use ractor::concurrency::oneshot;
use ractor::concurrency::sleep;
use ractor::concurrency::timeout;
use ractor::concurrency::Duration;
use ractor::concurrency::JoinHandle;
use ractor::concurrency::OneshotReceiver;
use ractor::concurrency::OneshotSender;
use ractor::thread_local::ThreadLocalActor;
use ractor::thread_local::ThreadLocalActorSpawner;
use ractor::Actor;
use ractor::ActorProcessingErr;
use ractor::ActorRef;
use ractor::SpawnErr;
use ractor::SupervisionEvent;

type Log = Arc<Mutex<Vec<String>>>;

fn log(l: &Log, s: impl Into<String>) {
    l.lock().unwrap().push(s.into());
}
fn snapshot(l: &Log) -> Vec<String> {
    l.lock().unwrap().clone()
}

struct Gate {
    entered: Option<OneshotSender<()>>,
    release: Option<OneshotReceiver<()>>,
}
struct GateCtl {
    entered: Option<OneshotReceiver<()>>,
    release: Option<OneshotSender<()>>,
}
fn gate() -> (Gate, GateCtl) {
    let (etx, erx) = oneshot();
    let (rtx, rrx) = oneshot();
    (
        Gate {
            entered: Some(etx),
            release: Some(rrx),
        },
        GateCtl {
            entered: Some(erx),
            release: Some(rtx),
        },
    )
}
impl Gate {
    async fn pass(&mut self, l: &Log, label: &str) {
        log(l, format!("{label}:enter"));
        if let Some(e) = self.entered.take() {
            let _ = e.send(());
        }
        if let Some(r) = self.release.take() {
            let _ = r.await;
        }
        log(l, format!("{label}:resume"));
    }
}
impl GateCtl {
    async fn wait_entered(&mut self) {
        let rx = self.entered.take().unwrap();
        timeout(Duration::from_secs(10), rx)
            .await
            .expect("gate was never entered")
            .expect("gate dropped before entered");
        // make sure the callback really is suspended at the gate (multi-threaded executors)
        sleep(Duration::from_millis(60)).await;
    }
    fn release(&mut self) {
        if let Some(r) = self.release.take() {
            let _ = r.send(());
        }
    }
}

#[derive(Default)]
struct Probe;

struct Args {
    log: Log,
    pre: Option<Gate>,
    post_start: Option<Gate>,
    post_stop: Option<Gate>,
    sup: Option<Gate>,
}
impl Args {
    fn new(log: &Log) -> Self {
        Self {
            log: log.clone(),
            pre: None,
            post_start: None,
            post_stop: None,
            sup: None,
        }
    }
}

struct St {
    log: Log,
    post_start: Option<Gate>,
    post_stop: Option<Gate>,
    sup: Option<Gate>,
    counter: u64,
}

enum Msg {
    Gated(String, Gate),
    Sync(u64),
    Block(u64),
    KillSelf,
    KillSelfYield,
    StopSelf,
    StopSelfYield,
}
#[cfg(feature = "cluster")]
impl ractor::Message for Msg {}

#[cfg_attr(feature = "async-trait", ractor::async_trait)]
impl Actor for Probe {
    type Msg = Msg;
    type State = St;
    type Arguments = Args;

    async fn pre_start(
        &self,
        _myself: ActorRef<Self::Msg>,
        mut args: Args,
    ) -> Result<St, ActorProcessingErr> {
        if let Some(g) = args.pre.as_mut() {
            g.pass(&args.log, "pre_start").await;
        } else {
            log(&args.log, "pre_start");
        }
        Ok(St {
            log: args.log,
            post_start: args.post_start,
            post_stop: args.post_stop,
            sup: args.sup,
            counter: 0,
        })
    }

    async fn post_start(
        &self,
        _myself: ActorRef<Self::Msg>,
        state: &mut St,
    ) -> Result<(), ActorProcessingErr> {
        if let Some(mut g) = state.post_start.take() {
            g.pass(&state.log, "post_start").await;
        } else {
            log(&state.log, "post_start");
        }
        Ok(())
    }

    async fn post_stop(
        &self,
        _myself: ActorRef<Self::Msg>,
        state: &mut St,
    ) -> Result<(), ActorProcessingErr> {
        let label = format!("post_stop[{}]", state.counter);
        if let Some(mut g) = state.post_stop.take() {
            g.pass(&state.log, &label).await;
        } else {
            log(&state.log, label);
        }
        Ok(())
    }

    async fn handle(
        &self,
        myself: ActorRef<Self::Msg>,
        message: Msg,
        state: &mut St,
    ) -> Result<(), ActorProcessingErr> {
        match message {
            Msg::Gated(name, mut g) => {
                g.pass(&state.log, &format!("h:{name}")).await;
                state.counter += 1000;
            }
            Msg::Sync(n) => {
                log(&state.log, format!("h:sync{n}"));
                state.counter += 1;
            }
            Msg::Block(ms) => {
                log(&state.log, "h:block:enter");
                std::thread::sleep(std::time::Duration::from_millis(ms));
                log(&state.log, "h:block:exit");
            }
            Msg::KillSelf => {
                log(&state.log, "h:killself");
                myself.kill();
            }
            Msg::KillSelfYield => {
                log(&state.log, "h:killselfyield:enter");
                myself.kill();
                yield_once().await;
                log(&state.log, "h:killselfyield:PROGRESS");
            }
            Msg::StopSelf => {
                log(&state.log, "h:stopself");
                myself.stop(None);
            }
            Msg::StopSelfYield => {
                log(&state.log, "h:stopselfyield:enter");
                myself.stop(None);
                yield_once().await;
                state.counter += 7;
                log(&state.log, "h:stopselfyield:resume");
            }
        }
        Ok(())
    }

    async fn handle_supervisor_evt(
        &self,
        _myself: ActorRef<Self::Msg>,
        message: SupervisionEvent,
        state: &mut St,
    ) -> Result<(), ActorProcessingErr> {
        let kind = match &message {
            SupervisionEvent::ActorStarted(_) => "started",
            SupervisionEvent::ActorTerminated(..) => "terminated",
            SupervisionEvent::ActorFailed(..) => "failed",
            _ => "other",
        };
        if let Some(mut g) = state.sup.take() {
            g.pass(&state.log, &format!("sup:{kind}")).await;
        } else {
            log(&state.log, format!("sup:{kind}"));
        }
        Ok(())
    }
}

/// A real suspension point (returns Pending once, wakes itself).
async fn yield_once() {
    struct Y(bool);
    impl std::future::Future for Y {
        type Output = ();
        fn poll(
            mut self: std::pin::Pin<&mut Self>,
            cx: &mut std::task::Context<'_>,
        ) -> std::task::Poll<()> {
            if self.0 {
                std::task::Poll::Ready(())
            } else {
                self.0 = true;
                cx.waker().wake_by_ref();
                std::task::Poll::Pending
            }
        }
    }
    Y(false).await
}

/// trivial child, used to generate supervision events
struct Child;
#[cfg_attr(feature = "async-trait", ractor::async_trait)]
impl Actor for Child {
    type Msg = ();
    type State = ();
    type Arguments = ();
    async fn pre_start(&self, _m: ActorRef<()>, _a: ()) -> Result<(), ActorProcessingErr> {
        Ok(())
    }
}

#[derive(Clone)]
enum Mode {
    Send,
    Local(ThreadLocalActorSpawner),
}
fn modes() -> Vec<(&'static str, Mode)> {
    vec![
        ("send", Mode::Send),
        ("local", Mode::Local(ThreadLocalActorSpawner::new())),
    ]
}

async fn spawn(mode: &Mode, args: Args) -> (ActorRef<Msg>, JoinHandle<()>) {
    match mode {
        Mode::Send => Actor::spawn(None, Probe, args).await.expect("spawn"),
        Mode::Local(sp) => <Probe as ThreadLocalActor>::spawn(None, args, sp.clone())
            .await
            .expect("spawn"),
    }
}
#[allow(clippy::type_complexity)]
fn spawn_instant(
    mode: &Mode,
    args: Args,
) -> (
    ActorRef<Msg>,
    JoinHandle<Result<JoinHandle<()>, SpawnErr>>,
) {
    match mode {
        Mode::Send => ractor::ActorRuntime::<Probe>::spawn_instant(None, Probe, args).expect("si"),
        Mode::Local(sp) => {
            <Probe as ThreadLocalActor>::spawn_instant(None, args, sp.clone()).expect("si")
        }
    }
}

async fn settle() {
    sleep(Duration::from_millis(150)).await;
}
async fn wait_dead(a: &ActorRef<Msg>) {
    a.wait(Some(Duration::from_secs(10)))
        .await
        .expect("actor did not exit");
    // let trailing work (if any, that's a bug) show up
    sleep(Duration::from_millis(50)).await;
}

fn assert_log(name: &str, l: &Log, expected: &[&str]) {
    let got = snapshot(l);
    let exp: Vec<String> = expected.iter().map(|s| s.to_string()).collect();
    assert_eq!(got, exp, "[{name}] unexpected callback history");
}

// ---------------------------------------------------------------- kill

#[ractor::concurrency::test]
async fn kill_before_start() {
    for (n, mode) in modes() {
        let l = Log::default();
        let (a, h) = spawn_instant(&mode, Args::new(&l));
        a.kill();
        let _ = a.send_message(Msg::Sync(1));
        a.stop(None);
        let r = h.await;
        assert!(matches!(r, Ok(Err(_))), "[{n}] expected startup failure");
        wait_dead(&a).await;
        assert_log(n, &l, &[]);
    }
}

#[ractor::concurrency::test]
async fn kill_during_pre_start() {
    for (n, mode) in modes() {
        let l = Log::default();
        let (g, mut c) = gate();
        let mut args = Args::new(&l);
        args.pre = Some(g);
        let (a, h) = spawn_instant(&mode, args);
        c.wait_entered().await;
        let _ = a.send_message(Msg::Sync(1));
        a.stop(None);
        a.kill();
        c.release();
        let r = h.await;
        assert!(matches!(r, Ok(Err(_))), "[{n}] expected startup failure");
        wait_dead(&a).await;
        assert_log(n, &l, &["pre_start:enter"]);
    }
}

#[ractor::concurrency::test]
async fn kill_during_post_start() {
    for (n, mode) in modes() {
        let l = Log::default();
        let (g, mut c) = gate();
        let mut args = Args::new(&l);
        args.post_start = Some(g);
        let (a, _h) = spawn(&mode, args).await;
        c.wait_entered().await;
        let _ = a.send_message(Msg::Sync(1));
        let (_ch, _) = Actor::spawn_linked(None, Child, (), a.get_cell())
            .await
            .unwrap();
        settle().await;
        a.stop(None);
        a.kill();
        c.release();
        wait_dead(&a).await;
        assert_log(n, &l, &["pre_start", "post_start:enter"]);
    }
}

#[ractor::concurrency::test]
async fn kill_during_handler() {
    for (n, mode) in modes() {
        let l = Log::default();
        let (a, _h) = spawn(&mode, Args::new(&l)).await;
        let (g, mut c) = gate();
        a.send_message(Msg::Gated("g1".into(), g)).unwrap();
        c.wait_entered().await;
        let _ = a.send_message(Msg::Sync(1));
        let (_ch, _) = Actor::spawn_linked(None, Child, (), a.get_cell())
            .await
            .unwrap();
        settle().await;
        a.stop(None);
        a.kill();
        c.release();
        wait_dead(&a).await;
        assert_log(n, &l, &["pre_start", "post_start", "h:g1:enter"]);
    }
}

#[ractor::concurrency::test]
async fn kill_during_supervision_handler() {
    for (n, mode) in modes() {
        let l = Log::default();
        let (g, mut c) = gate();
        let mut args = Args::new(&l);
        args.sup = Some(g);
        let (a, _h) = spawn(&mode, args).await;
        let (ch, _) = Actor::spawn_linked(None, Child, (), a.get_cell())
            .await
            .unwrap();
        c.wait_entered().await;
        let _ = a.send_message(Msg::Sync(1));
        ch.stop(None); // another supervision event
        settle().await;
        a.stop(None);
        a.kill();
        c.release();
        wait_dead(&a).await;
        assert_log(n, &l, &["pre_start", "post_start", "sup:started:enter"]);
    }
}

#[ractor::concurrency::test]
async fn kill_during_post_stop() {
    for (n, mode) in modes() {
        let l = Log::default();
        let (g, mut c) = gate();
        let mut args = Args::new(&l);
        args.post_stop = Some(g);
        let (a, _h) = spawn(&mode, args).await;
        settle().await;
        a.stop(None);
        c.wait_entered().await;
        a.kill();
        c.release();
        wait_dead(&a).await;
        assert_log(n, &l, &["pre_start", "post_start", "post_stop[0]:enter"]);
    }
}

#[ractor::concurrency::test]
async fn kill_while_sync_handler_runs_then_nothing_starts() {
    for (n, mode) in modes() {
        let l = Log::default();
        let (a, _h) = spawn(&mode, Args::new(&l)).await;
        settle().await;
        a.send_message(Msg::Block(300)).unwrap();
        // give the actor time to enter the blocking handler (other thread or
        // blocking our own thread for the Send/current-thread case)
        let a2 = a.clone();
        let t = std::thread::spawn(move || {
            std::thread::sleep(std::time::Duration::from_millis(100));
            let _ = a2.send_message(Msg::Sync(1));
            a2.stop(None);
            a2.kill();
        });
        wait_dead(&a).await;
        t.join().unwrap();
        assert_log(
            n,
            &l,
            &["pre_start", "post_start", "h:block:enter", "h:block:exit"],
        );
    }
}

#[cfg(not(feature = "async-std"))]
#[ractor::concurrency::test]
async fn stop_and_kill_ready_together_while_idle() {
    // Only deterministic for the Send runtime on a current-thread executor
    for order in 0..2 {
        let l = Log::default();
        let (a, _h) = spawn(&Mode::Send, Args::new(&l)).await;
        settle().await;
        let (_ch, _) = Actor::spawn_linked(None, Child, (), a.get_cell())
            .await
            .unwrap();
        // no yielding from here on
        let _ = a.send_message(Msg::Sync(1));
        if order == 0 {
            a.stop(None);
            a.kill();
        } else {
            a.kill();
            a.stop(None);
        }
        wait_dead(&a).await;
        let got = snapshot(&l);
        assert!(
            !got.iter().any(|s| s.starts_with("post_stop") || s.starts_with("h:")),
            "order {order}: {got:?}"
        );
    }
}

// ---------------------------------------------------------------- stop

#[ractor::concurrency::test]
async fn stop_during_handler() {
    for (n, mode) in modes() {
        let l = Log::default();
        let (a, _h) = spawn(&mode, Args::new(&l)).await;
        let (g, mut c) = gate();
        a.send_message(Msg::Gated("g1".into(), g)).unwrap();
        c.wait_entered().await;
        let _ = a.send_message(Msg::Sync(1));
        let (_ch, _) = Actor::spawn_linked(None, Child, (), a.get_cell())
            .await
            .unwrap();
        settle().await;
        a.stop(None);
        let _ = a.send_message(Msg::Sync(2));
        c.release();
        wait_dead(&a).await;
        assert_log(
            n,
            &l,
            &[
                "pre_start",
                "post_start",
                "h:g1:enter",
                "h:g1:resume",
                "post_stop[1000]",
            ],
        );
    }
}

#[ractor::concurrency::test]
async fn stop_during_supervision_handler() {
    for (n, mode) in modes() {
        let l = Log::default();
        let (g, mut c) = gate();
        let mut args = Args::new(&l);
        args.sup = Some(g);
        let (a, _h) = spawn(&mode, args).await;
        let (ch, _) = Actor::spawn_linked(None, Child, (), a.get_cell())
            .await
            .unwrap();
        c.wait_entered().await;
        let _ = a.send_message(Msg::Sync(1));
        ch.stop(None);
        settle().await;
        a.stop(None);
        c.release();
        wait_dead(&a).await;
        assert_log(
            n,
            &l,
            &[
                "pre_start",
                "post_start",
                "sup:started:enter",
                "sup:started:resume",
                "post_stop[0]",
            ],
        );
    }
}

#[ractor::concurrency::test]
async fn stop_before_start() {
    for (n, mode) in modes() {
        let l = Log::default();
        let (a, h) = spawn_instant(&mode, Args::new(&l));
        let _ = a.send_message(Msg::Sync(1));
        a.stop(None);
        let _ = h.await;
        wait_dead(&a).await;
        assert_log(n, &l, &["pre_start", "post_start", "post_stop[0]"]);
    }
}

#[ractor::concurrency::test]
async fn stop_during_pre_start_and_post_start() {
    for (n, mode) in modes() {
        let l = Log::default();
        let (g, mut c) = gate();
        let (g2, mut c2) = gate();
        let mut args = Args::new(&l);
        args.pre = Some(g);
        args.post_start = Some(g2);
        let (a, _h) = spawn_instant(&mode, args);
        c.wait_entered().await;
        let _ = a.send_message(Msg::Sync(1));
        a.stop(None);
        c.release();
        c2.wait_entered().await;
        let _ = a.send_message(Msg::Sync(2));
        c2.release();
        wait_dead(&a).await;
        assert_log(
            n,
            &l,
            &[
                "pre_start:enter",
                "pre_start:resume",
                "post_start:enter",
                "post_start:resume",
                "post_stop[0]",
            ],
        );
    }
}

#[ractor::concurrency::test]
async fn stop_self_in_handler_final_state() {
    for (n, mode) in modes() {
        let l = Log::default();
        let (a, _h) = spawn(&mode, Args::new(&l)).await;
        let (g, mut c) = gate();
        a.send_message(Msg::Gated("g0".into(), g)).unwrap();
        c.wait_entered().await;
        a.send_message(Msg::Sync(1)).unwrap();
        a.send_message(Msg::StopSelfYield).unwrap();
        a.send_message(Msg::Sync(2)).unwrap();
        c.release();
        wait_dead(&a).await;
        assert_log(
            n,
            &l,
            &[
                "pre_start",
                "post_start",
                "h:g0:enter",
                "h:g0:resume",
                "h:sync1",
                "h:stopselfyield:enter",
                "h:stopselfyield:resume",
                "post_stop[1008]",
            ],
        );
    }
}

// ---------------------------------------------------------------- supervision before messages

#[ractor::concurrency::test]
async fn supervision_before_messages() {
    for (n, mode) in modes() {
        let l = Log::default();
        let (a, _h) = spawn(&mode, Args::new(&l)).await;
        let (g, mut c) = gate();
        a.send_message(Msg::Gated("g1".into(), g)).unwrap();
        c.wait_entered().await;
        a.send_message(Msg::Sync(1)).unwrap();
        a.send_message(Msg::Sync(2)).unwrap();
        let (_c1, _) = Actor::spawn_linked(None, Child, (), a.get_cell())
            .await
            .unwrap();
        let (_c2, _) = Actor::spawn_linked(None, Child, (), a.get_cell())
            .await
            .unwrap();
        settle().await;
        a.send_message(Msg::Sync(3)).unwrap();
        c.release();
        settle().await;
        a.drain().unwrap();
        wait_dead(&a).await;
        assert_log(
            n,
            &l,
            &[
                "pre_start",
                "post_start",
                "h:g1:enter",
                "h:g1:resume",
                "sup:started",
                "sup:started",
                "h:sync1",
                "h:sync2",
                "h:sync3",
                "post_stop[1003]",
            ],
        );
    }
}

// ---------------------------------------------------------------- long synchronous runs (coop budget)

#[ractor::concurrency::test]
async fn long_run_then_self_stop_or_kill() {
    for (n, mode) in modes() {
        for k in [1u64, 2, 126, 127, 128, 129, 130, 255, 256, 257, 300] {
            for what in 0..3 {
                let l = Log::default();
                let (a, _h) = spawn(&mode, Args::new(&l)).await;
                let (g, mut c) = gate();
                a.send_message(Msg::Gated("g0".into(), g)).unwrap();
                c.wait_entered().await;
                for i in 1..k {
                    a.send_message(Msg::Sync(i)).unwrap();
                }
                a.send_message(match what {
                    0 => Msg::StopSelf,
                    1 => Msg::KillSelf,
                    _ => Msg::KillSelfYield,
                })
                .unwrap();
                for i in 0..5 {
                    a.send_message(Msg::Sync(10_000 + i)).unwrap();
                }
                c.release();
                wait_dead(&a).await;
                let got = snapshot(&l);
                let tail: Vec<&String> = got.iter().skip(4 + (k as usize - 1)).collect();
                let expected: Vec<String> = match what {
                    0 => vec![
                        "h:stopself".to_string(),
                        format!("post_stop[{}]", 1000 + k - 1),
                    ],
                    1 => vec!["h:killself".to_string()],
                    _ => vec!["h:killselfyield:enter".to_string()],
                };
                let tail: Vec<String> = tail.into_iter().cloned().collect();
                assert_eq!(tail, expected, "[{n}] k={k} what={what}");
            }
        }
    }
}

// ---------------------------------------------------------------- all four ports ready at once (idle actor)

#[cfg(not(feature = "async-std"))]
#[ractor::concurrency::test]
async fn all_ports_ready_together_while_idle() {
    // what = 0: msg + sup + stop          -> only post_stop
    // what = 1: msg + sup + stop + kill   -> nothing
    // what = 2: msg + sup                 -> sup before msg
    for perm in 0..6 {
        for what in 0..3 {
            let l = Log::default();
            let (a, _h) = spawn(&Mode::Send, Args::new(&l)).await;
            let (ch, _) = Actor::spawn(None, Child, ()).await.unwrap();
            settle().await;
            // no yielding from here on: the actor is parked in listen_in_priority
            let send_msg = || {
                let _ = a.send_message(Msg::Sync(1));
            };
            let send_sup = || {
                // synchronously deliver a supervision event to `a`
                ch.link(a.get_cell());
                ch.notify_supervisor(SupervisionEvent::ActorStarted(ch.get_cell()));
                ch.unlink(a.get_cell());
            };
            let send_stop = || {
                if what <= 1 {
                    a.stop(None)
                }
            };
            let order: [usize; 3] = match perm {
                0 => [0, 1, 2],
                1 => [0, 2, 1],
                2 => [1, 0, 2],
                3 => [1, 2, 0],
                4 => [2, 0, 1],
                _ => [2, 1, 0],
            };
            if what == 1 && perm % 2 == 0 {
                a.kill();
            }
            for o in order {
                match o {
                    0 => send_msg(),
                    1 => send_sup(),
                    _ => send_stop(),
                }
            }
            if what == 1 && perm % 2 == 1 {
                a.kill();
            }
            if what == 2 {
                settle().await;
                a.drain().unwrap();
            }
            wait_dead(&a).await;
            ch.stop(None);
            let expected: &[&str] = match what {
                0 => &["pre_start", "post_start", "post_stop[0]"],
                1 => &["pre_start", "post_start"],
                _ => &["pre_start", "post_start", "sup:started", "h:sync1", "post_stop[1]"],
            };
            assert_log(&format!("perm {perm} what {what}"), &l, expected);
        }
    }
}

// ---------------------------------------------------------------- draining boundary

#[ractor::concurrency::test]
async fn drain_then_stop_or_kill() {
    for (n, mode) in modes() {
        for what in 0..2 {
            let l = Log::default();
            let (a, _h) = spawn(&mode, Args::new(&l)).await;
            let (g, mut c) = gate();
            a.send_message(Msg::Gated("g1".into(), g)).unwrap();
            c.wait_entered().await;
            a.send_message(Msg::Sync(1)).unwrap();
            a.send_message(Msg::Sync(2)).unwrap();
            a.drain().unwrap();
            assert_eq!(a.get_status(), ractor::ActorStatus::Draining);
            if what == 0 {
                a.stop(None);
            } else {
                a.kill();
            }
            c.release();
            wait_dead(&a).await;
            let expected: &[&str] = if what == 0 {
                &[
                    "pre_start",
                    "post_start",
                    "h:g1:enter",
                    "h:g1:resume",
                    "post_stop[1000]",
                ]
            } else {
                &["pre_start", "post_start", "h:g1:enter"]
            };
            assert_log(&format!("{n} what {what}"), &l, expected);
        }
    }
}

// ---------------------------------------------------------------- randomized multi-thread stress (tokio only)

#[cfg(not(feature = "async-std"))]
mod stress {
    use std::sync::atomic::AtomicU64;
    use std::sync::atomic::Ordering;
    use std::time::Instant;

    use super::*;

    struct Shared {
        t0: Instant,
        // micros since t0 of the latest callback start / progress tick
        last_start: AtomicU64,
        last_progress: AtomicU64,
        post_stop_runs: AtomicU64,
        handler_starts_after_stop_mark: AtomicU64,
        stop_mark: AtomicU64, // 0 = not stopped, else micros at which stop() returned
    }
    impl Shared {
        fn now(&self) -> u64 {
            self.t0.elapsed().as_micros() as u64 + 1
        }
    }

    struct S;
    #[cfg_attr(feature = "async-trait", ractor::async_trait)]
    impl Actor for S {
        type Msg = u8;
        type State = Arc<Shared>;
        type Arguments = Arc<Shared>;
        async fn pre_start(
            &self,
            _m: ActorRef<u8>,
            a: Arc<Shared>,
        ) -> Result<Arc<Shared>, ActorProcessingErr> {
            a.last_start.store(a.now(), Ordering::SeqCst);
            tokio::task::yield_now().await;
            a.last_progress.store(a.now(), Ordering::SeqCst);
            Ok(a)
        }
        async fn post_start(
            &self,
            _m: ActorRef<u8>,
            s: &mut Arc<Shared>,
        ) -> Result<(), ActorProcessingErr> {
            s.last_start.store(s.now(), Ordering::SeqCst);
            tokio::task::yield_now().await;
            s.last_progress.store(s.now(), Ordering::SeqCst);
            Ok(())
        }
        async fn post_stop(
            &self,
            _m: ActorRef<u8>,
            s: &mut Arc<Shared>,
        ) -> Result<(), ActorProcessingErr> {
            s.last_start.store(s.now(), Ordering::SeqCst);
            s.post_stop_runs.fetch_add(1, Ordering::SeqCst);
            for _ in 0..3 {
                tokio::task::yield_now().await;
                s.last_progress.store(s.now(), Ordering::SeqCst);
            }
            Ok(())
        }
        async fn handle(
            &self,
            _m: ActorRef<u8>,
            msg: u8,
            s: &mut Arc<Shared>,
        ) -> Result<(), ActorProcessingErr> {
            let now = s.now();
            s.last_start.store(now, Ordering::SeqCst);
            let sm = s.stop_mark.load(Ordering::SeqCst);
            if sm != 0 && now > sm + 20_000 {
                s.handler_starts_after_stop_mark.fetch_add(1, Ordering::SeqCst);
            }
            for _ in 0..(msg % 4) {
                tokio::task::yield_now().await;
                s.last_progress.store(s.now(), Ordering::SeqCst);
            }
            Ok(())
        }
        async fn handle_supervisor_evt(
            &self,
            _m: ActorRef<u8>,
            _e: SupervisionEvent,
            s: &mut Arc<Shared>,
        ) -> Result<(), ActorProcessingErr> {
            let now = s.now();
            s.last_start.store(now, Ordering::SeqCst);
            let sm = s.stop_mark.load(Ordering::SeqCst);
            if sm != 0 && now > sm + 20_000 {
                s.handler_starts_after_stop_mark.fetch_add(1, Ordering::SeqCst);
            }
            tokio::task::yield_now().await;
            s.last_progress.store(s.now(), Ordering::SeqCst);
            Ok(())
        }
    }

    #[tokio::test(flavor = "multi_thread", worker_threads = 3)]
    async fn stress_kill_and_stop() {
        let mut seed = 0x9E3779B97F4A7C15u64;
        let mut rnd = move || {
            seed ^= seed << 13;
            seed ^= seed >> 7;
            seed ^= seed << 17;
            seed
        };
        for iter in 0..400 {
            let sh = Arc::new(Shared {
                t0: Instant::now(),
                last_start: AtomicU64::new(0),
                last_progress: AtomicU64::new(0),
                post_stop_runs: AtomicU64::new(0),
                handler_starts_after_stop_mark: AtomicU64::new(0),
                stop_mark: AtomicU64::new(0),
            });
            let (a, h) = ractor::ActorRuntime::<S>::spawn_instant(None, S, sh.clone()).unwrap();
            let (ch, _) = Actor::spawn(None, Child, ()).await.unwrap();
            let nmsg = rnd() % 400;
            for i in 0..nmsg {
                let _ = a.send_message((rnd() % 251) as u8);
                if i % 37 == 0 {
                    ch.link(a.get_cell());
                    ch.notify_supervisor(SupervisionEvent::ActorStarted(ch.get_cell()));
                    ch.unlink(a.get_cell());
                }
                if rnd() % 50 == 0 {
                    tokio::task::yield_now().await;
                }
            }
            let spin = rnd() % 2000;
            for _ in 0..spin {
                std::hint::spin_loop();
            }
            let do_stop = rnd() % 2 == 0;
            let do_kill = rnd() % 3 != 0 || !do_stop;
            if do_stop {
                a.stop(None);
                sh.stop_mark.store(sh.now(), Ordering::SeqCst);
                let spin = rnd() % 3000;
                for _ in 0..spin {
                    std::hint::spin_loop();
                }
            }
            let mut kill_at = 0;
            if do_kill {
                a.kill();
                kill_at = sh.now();
            }
            a.wait(Some(Duration::from_secs(20))).await.expect("exit");
            let _ = h.await;
            tokio::time::sleep(Duration::from_millis(3)).await;
            ch.stop(None);
            if do_kill {
                // nothing may start or progress noticeably (>20ms) after kill() returned
                let ls = sh.last_start.load(Ordering::SeqCst);
                let lp = sh.last_progress.load(Ordering::SeqCst);
                assert!(
                    ls <= kill_at + 20_000,
                    "iter {iter}: callback started {}us after kill returned",
                    ls - kill_at
                );
                assert!(
                    lp <= kill_at + 20_000,
                    "iter {iter}: callback progressed {}us after kill returned",
                    lp - kill_at
                );
            } else {
                assert_eq!(sh.post_stop_runs.load(Ordering::SeqCst), 1, "iter {iter}");
            }
            assert_eq!(
                sh.handler_starts_after_stop_mark.load(Ordering::SeqCst),
                0,
                "iter {iter}: handler started long after stop() returned"
            );
        }
    }
}

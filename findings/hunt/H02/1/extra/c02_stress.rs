use std::sync::atomic::{AtomicBool, Ordering};
use std::sync::{Arc, Barrier, Mutex};
use std::time::Duration;

use ractor::{Actor, ActorProcessingErr, ActorRef, MessagingErr};

#[derive(Debug)]
struct Msg {
    sender: usize,
    seq: usize,
    echo: bool,
}
#[cfg(feature = "cluster")]
impl ractor::Message for Msg {}

#[derive(Default)]
struct Rec;

type Log = Arc<Mutex<Vec<(usize, usize)>>>;

#[cfg_attr(feature = "async-trait", ractor::async_trait)]
impl Actor for Rec {
    type Msg = Msg;
    type State = (Log, usize);
    type Arguments = Log;

    async fn pre_start(
        &self,
        _myself: ActorRef<Self::Msg>,
        log: Log,
    ) -> Result<Self::State, ActorProcessingErr> {
        Ok((log, 0))
    }

    async fn handle(
        &self,
        myself: ActorRef<Self::Msg>,
        m: Msg,
        state: &mut Self::State,
    ) -> Result<(), ActorProcessingErr> {
        state.0.lock().unwrap().push((m.sender, m.seq));
        if m.echo {
            // self send: sender id 1000 + sender
            let seq = state.1;
            match myself.send_message(Msg {
                sender: 999,
                seq,
                echo: false,
            }) {
                Ok(()) => {
                    state.1 += 1;
                }
                Err(MessagingErr::SendErr(_)) => {}
                Err(e) => panic!("unexpected {e:?}"),
            }
        }
        if m.seq % 7 == 0 {
            tokio::task::yield_now().await;
        }
        Ok(())
    }
}

#[derive(Clone, Copy, Debug)]
enum Term {
    Drain,
    Stop,
    Kill,
}

fn check(log: &[(usize, usize)], oks: &[Vec<usize>], errs: &[Vec<usize>], term: Term, nsenders: usize) {
    // at most once
    let mut seen = std::collections::HashSet::new();
    for e in log {
        assert!(seen.insert(*e), "{term:?}: message {e:?} handled twice");
    }
    for s in 0..nsenders {
        let handled: Vec<usize> = log.iter().filter(|e| e.0 == s).map(|e| e.1).collect();
        // rejected never handled
        for r in &errs[s] {
            assert!(!handled.contains(r), "{term:?}: rejected message {s}/{r} handled");
        }
        // handled is a prefix of accepted in order
        assert!(
            handled.len() <= oks[s].len(),
            "{term:?}: sender {s} handled more than accepted"
        );
        assert_eq!(
            &handled[..],
            &oks[s][..handled.len()],
            "{term:?}: sender {s} order/prefix violated"
        );
        if matches!(term, Term::Drain) {
            assert_eq!(handled.len(), oks[s].len(), "{term:?}: sender {s} lost accepted message(s): handled {} accepted {}", handled.len(), oks[s].len());
        }
    }
    // self-sends are in order
    let selfs: Vec<usize> = log.iter().filter(|e| e.0 == 999).map(|e| e.1).collect();
    for (i, s) in selfs.iter().enumerate() {
        assert_eq!(i, *s, "{term:?}: self-send order");
    }
}

async fn run_once(term: Term, nsenders: usize, nmsgs: usize, delay_us: u64, local: Option<ractor::thread_local::ThreadLocalActorSpawner>) {
    let log: Log = Arc::new(Mutex::new(Vec::new()));
    let (actor, handle) = if let Some(sp) = local {
        ractor::spawn_local::<Rec>(log.clone(), sp).await.unwrap()
    } else {
        Actor::spawn(None, Rec, log.clone()).await.unwrap()
    };
    let barrier = Arc::new(Barrier::new(nsenders + 1));
    let stopflag = Arc::new(AtomicBool::new(false));
    let mut threads = vec![];
    for s in 0..nsenders {
        let actor = actor.clone();
        let barrier = barrier.clone();
        let stopflag = stopflag.clone();
        threads.push(std::thread::spawn(move || {
            let mut oks = vec![];
            let mut errs = vec![];
            barrier.wait();
            for seq in 0..nmsgs {
                let r = if seq % 3 == 0 {
                    actor.cast(Msg { sender: s, seq, echo: seq % 5 == 0 })
                } else {
                    actor.send_message(Msg { sender: s, seq, echo: seq % 5 == 0 })
                };
                match r {
                    Ok(()) => oks.push(seq),
                    Err(MessagingErr::SendErr(m)) => {
                        assert_eq!((m.sender, m.seq), (s, seq));
                        errs.push(seq);
                        if stopflag.load(Ordering::Relaxed) && errs.len() > 20 {
                            break;
                        }
                    }
                    Err(e) => panic!("unexpected {e:?}"),
                }
            }
            (oks, errs)
        }));
    }
    let b2 = barrier.clone();
    tokio::task::spawn_blocking(move || b2.wait()).await.unwrap();
    if delay_us > 0 {
        tokio::time::sleep(Duration::from_micros(delay_us)).await;
    }
    match term {
        Term::Drain => actor.drain().unwrap(),
        Term::Stop => actor.stop(None),
        Term::Kill => actor.kill(),
    }
    stopflag.store(true, Ordering::Relaxed);
    handle.await.unwrap();
    let mut oks = vec![];
    let mut errs = vec![];
    for t in threads {
        let (o, e) = tokio::task::spawn_blocking(move || t.join().unwrap()).await.unwrap();
        oks.push(o);
        errs.push(e);
    }
    let log = log.lock().unwrap().clone();
    check(&log, &oks, &errs, term, nsenders);
}

#[tokio::test(flavor = "multi_thread", worker_threads = 3)]
async fn stress_send_runtime() {
    for i in 0..150 {
        for term in [Term::Drain, Term::Stop, Term::Kill] {
            run_once(term, 3, 400, (i % 10) * 30, None).await;
        }
    }
}

#[tokio::test(flavor = "multi_thread", worker_threads = 3)]
async fn stress_thread_local_runtime() {
    let sp = ractor::thread_local::ThreadLocalActorSpawner::new();
    for i in 0..150 {
        for term in [Term::Drain, Term::Stop, Term::Kill] {
            run_once(term, 3, 400, (i % 10) * 30, Some(sp.clone())).await;
        }
    }
}

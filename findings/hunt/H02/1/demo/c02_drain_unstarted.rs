//! Borderline demonstration (see HUNT/1/report.md): messages accepted with Ok(()) and then a
//! drain() accepted with Ok(()) on an actor created by `spawn_instant` whose start task has not
//! run yet: the accepted messages are never handled and the actor never starts.

use std::sync::atomic::{AtomicUsize, Ordering};
use std::sync::Arc;

use ractor::{Actor, ActorProcessingErr, ActorRef};

struct Msg(usize);
#[cfg(feature = "cluster")]
impl ractor::Message for Msg {}

struct Counter(Arc<AtomicUsize>);

#[cfg_attr(feature = "async-trait", ractor::async_trait)]
impl Actor for Counter {
    type Msg = Msg;
    type State = ();
    type Arguments = ();

    async fn pre_start(
        &self,
        _myself: ActorRef<Self::Msg>,
        _: (),
    ) -> Result<Self::State, ActorProcessingErr> {
        Ok(())
    }

    async fn handle(
        &self,
        _myself: ActorRef<Self::Msg>,
        _m: Msg,
        _state: &mut Self::State,
    ) -> Result<(), ActorProcessingErr> {
        self.0.fetch_add(1, Ordering::SeqCst);
        Ok(())
    }
}

// current_thread runtime: the start task cannot run before the first await below, so the
// actor is deterministically still `Unstarted` when the sends and the drain happen.
#[tokio::test]
async fn drain_before_start_task_ran_handles_accepted_messages() {
    let handled = Arc::new(AtomicUsize::new(0));
    let (actor, start_handle) =
        ractor::ActorRuntime::spawn_instant(None, Counter(handled.clone()), ()).expect("spawn_instant");

    for i in 0..10 {
        actor.cast(Msg(i)).expect("send accepted");
    }
    actor.drain().expect("drain accepted");
    // after the drain, sends are rejected and handed back
    assert!(actor.cast(Msg(99)).is_err());

    let started = start_handle.await.unwrap();
    match started {
        Ok(inner) => inner.await.unwrap(),
        Err(e) => eprintln!("actor start failed: {e}"),
    }
    actor.wait(None).await.unwrap();
    assert_eq!(
        10,
        handled.load(Ordering::SeqCst),
        "10 sends returned Ok and a drain was requested, but not all were handled"
    );
}

// The thread-local runtime is a twin of the Send runtime and has the same check.
#[derive(Default)]
struct LocalCounter;

impl ractor::thread_local::ThreadLocalActor for LocalCounter {
    type Msg = Msg;
    type State = Arc<AtomicUsize>;
    type Arguments = Arc<AtomicUsize>;

    async fn pre_start(
        &self,
        _myself: ActorRef<Self::Msg>,
        counter: Arc<AtomicUsize>,
    ) -> Result<Self::State, ActorProcessingErr> {
        Ok(counter)
    }

    async fn handle(
        &self,
        _myself: ActorRef<Self::Msg>,
        _m: Msg,
        state: &mut Self::State,
    ) -> Result<(), ActorProcessingErr> {
        state.fetch_add(1, Ordering::SeqCst);
        Ok(())
    }
}

#[tokio::test]
async fn thread_local_drain_before_start_task_ran_handles_accepted_messages() {
    use ractor::thread_local::{ThreadLocalActor, ThreadLocalActorSpawner};
    let handled = Arc::new(AtomicUsize::new(0));
    let (actor, start_handle) =
        LocalCounter::spawn_instant(None, handled.clone(), ThreadLocalActorSpawner::new())
            .expect("spawn_instant");

    for i in 0..10 {
        actor.cast(Msg(i)).expect("send accepted");
    }
    actor.drain().expect("drain accepted");
    assert!(actor.cast(Msg(99)).is_err());

    match start_handle.await.unwrap() {
        Ok(inner) => inner.await.unwrap(),
        Err(e) => eprintln!("actor start failed: {e}"),
    }
    actor.wait(None).await.unwrap();
    assert_eq!(
        10,
        handled.load(Ordering::SeqCst),
        "10 sends returned Ok and a drain was requested, but not all were handled"
    );
}

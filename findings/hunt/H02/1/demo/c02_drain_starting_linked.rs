//! Demonstration (see HUNT/1/report.md): a drain() requested while a *supervised* actor is still
//! in `pre_start` (status `Starting`) aborts the actor's startup ("Supervisor is shutting down")
//! and the messages that were accepted with Ok(()) before the drain are never handled.
//! The identical history on an unsupervised actor handles all of them (control test below).

use std::sync::atomic::{AtomicUsize, Ordering};
use std::sync::{Arc, Mutex};

use ractor::{Actor, ActorProcessingErr, ActorRef, ActorRuntime, ActorStatus, SupervisionEvent};
use tokio::sync::oneshot;

struct Msg(usize);
#[cfg(feature = "cluster")]
impl ractor::Message for Msg {}

struct Supervisor;

#[cfg_attr(feature = "async-trait", ractor::async_trait)]
impl Actor for Supervisor {
    type Msg = ();
    type State = ();
    type Arguments = ();

    async fn pre_start(&self, _: ActorRef<()>, _: ()) -> Result<(), ActorProcessingErr> {
        Ok(())
    }

    async fn handle_supervisor_evt(
        &self,
        _: ActorRef<()>,
        _: SupervisionEvent,
        _: &mut (),
    ) -> Result<(), ActorProcessingErr> {
        Ok(())
    }
}

struct Gates {
    entered: Option<oneshot::Sender<()>>,
    release: Option<oneshot::Receiver<()>>,
}

struct Counter {
    handled: Arc<AtomicUsize>,
    gates: Mutex<Gates>,
}

#[cfg_attr(feature = "async-trait", ractor::async_trait)]
impl Actor for Counter {
    type Msg = Msg;
    type State = ();
    type Arguments = ();

    async fn pre_start(
        &self,
        _myself: ActorRef<Self::Msg>,
        _: (),
    ) -> Result<Self::State, ActorProcessingErr> {
        let (entered, release) = {
            let mut g = self.gates.lock().unwrap();
            (g.entered.take().unwrap(), g.release.take().unwrap())
        };
        let _ = entered.send(());
        let _ = release.await;
        Ok(())
    }

    async fn handle(
        &self,
        _myself: ActorRef<Self::Msg>,
        _m: Msg,
        _state: &mut Self::State,
    ) -> Result<(), ActorProcessingErr> {
        self.handled.fetch_add(1, Ordering::SeqCst);
        Ok(())
    }
}

async fn scenario(supervised: bool) -> usize {
    let (sup, sup_handle) = Actor::spawn(None, Supervisor, ()).await.unwrap();

    let handled = Arc::new(AtomicUsize::new(0));
    let (entered_tx, entered_rx) = oneshot::channel();
    let (release_tx, release_rx) = oneshot::channel();
    let counter = Counter {
        handled: handled.clone(),
        gates: Mutex::new(Gates {
            entered: Some(entered_tx),
            release: Some(release_rx),
        }),
    };

    let (actor, start_handle) = if supervised {
        ActorRuntime::spawn_linked_instant(None, counter, (), sup.get_cell()).unwrap()
    } else {
        ActorRuntime::spawn_instant(None, counter, ()).unwrap()
    };

    // the actor is inside pre_start
    entered_rx.await.unwrap();
    assert_eq!(ActorStatus::Starting, actor.get_status());

    for i in 0..10 {
        actor.cast(Msg(i)).expect("send accepted");
    }
    actor.drain().expect("drain accepted");
    assert!(actor.cast(Msg(99)).is_err(), "sends after the drain are rejected");

    // let pre_start finish
    release_tx.send(()).unwrap();

    match start_handle.await.unwrap() {
        Ok(inner) => inner.await.unwrap(),
        Err(e) => eprintln!("actor start failed: {e}"),
    }
    actor.wait(None).await.unwrap();

    sup.stop(None);
    sup_handle.await.unwrap();
    handled.load(Ordering::SeqCst)
}

#[tokio::test]
async fn control_unsupervised_drain_during_pre_start_handles_accepted_messages() {
    assert_eq!(10, scenario(false).await);
}

#[tokio::test]
async fn supervised_drain_during_pre_start_handles_accepted_messages() {
    assert_eq!(
        10,
        scenario(true).await,
        "10 sends returned Ok and a drain was requested, but not all were handled"
    );
}

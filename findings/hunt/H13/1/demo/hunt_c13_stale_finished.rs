// HUNT C13 / finding 1
//
// A `Finished(wid, key)` notification that a worker sent just before it died is
// still in the factory's mailbox when the factory handles the (higher priority)
// supervision event and replaces the worker. If the replacement has meanwhile been
// given the next queued job *with the same key* (the normal situation for
// KeyPersistentRouting / StickyQueuerRouting / `()` keys), the stale notification is
// taken for the completion of the replacement's job: the factory dispatches a second
// job into the replacement's mailbox while it is still busy with the first one.
//
// The replacement now holds TWO jobs. When it dies, both are lost: a job that was
// "queued for a worker that dies" is NOT given to its replacement, it silently
// disappears, and one worker death costs two jobs.
//
// History forced below (1 worker, KeyPersistentRouting, jobs J1 J2 J3, all key 7):
//   * J1 is running on W, J2 and J3 are queued for W
//   * the factory is parked inside its capacity controller (any slow factory
//     callback would do)
//   * W completes J1 (-> Finished(0, 7) enqueued at the factory), then W is killed
//   * factory resumes: supervision event first -> W' replaces W and receives J2;
//     then the stale Finished(0, 7) -> J3 is pushed to W' as well
//   * J2 panics (W' dies holding J2 -- that single loss is allowed)
//   * expected: J3 is handed to the replacement W'' and handled
//   * actual:   J3 was sitting in W's mailbox and vanished with it

use std::sync::atomic::{AtomicBool, Ordering};
use std::sync::{Arc, Mutex};
use std::time::Duration;

use ractor::factory::*;
use ractor::{Actor, ActorProcessingErr, ActorRef, ActorStatus};
use tokio::sync::Semaphore;

#[derive(Debug)]
struct Msg(u32);
#[cfg(feature = "cluster")]
impl ractor::Message for Msg {}

#[derive(Default)]
struct Log {
    started: Mutex<Vec<u32>>,
    handled: Mutex<Vec<u32>>,
    discarded: Mutex<Vec<(u32, DiscardReason)>>,
}

struct Ctl {
    log: Log,
    gate1: Semaphore,
    gate2: Semaphore,
}

struct TestWorker {
    ctl: Arc<Ctl>,
}

#[cfg_attr(feature = "async-trait", ractor::async_trait)]
impl Worker for TestWorker {
    type Key = u64;
    type Message = Msg;
    type Arguments = ();
    type State = ();

    async fn pre_start(
        &self,
        _wid: WorkerId,
        _factory: &ActorRef<FactoryMessage<u64, Msg>>,
        _args: (),
    ) -> Result<(), ActorProcessingErr> {
        Ok(())
    }

    async fn handle(
        &self,
        _wid: WorkerId,
        _factory: &ActorRef<FactoryMessage<u64, Msg>>,
        job: Job<u64, Msg>,
        _state: &mut (),
    ) -> Result<u64, ActorProcessingErr> {
        let id = job.msg.0;
        self.ctl.log.started.lock().unwrap().push(id);
        match id {
            1 => self.ctl.gate1.acquire().await.unwrap().forget(),
            2 => {
                self.ctl.gate2.acquire().await.unwrap().forget();
                panic!("job 2 is a poison job");
            }
            _ => {}
        }
        self.ctl.log.handled.lock().unwrap().push(id);
        Ok(job.key)
    }
}

struct Builder {
    ctl: Arc<Ctl>,
}
impl WorkerBuilder<TestWorker, ()> for Builder {
    fn build(&mut self, _wid: WorkerId) -> (TestWorker, ()) {
        (
            TestWorker {
                ctl: self.ctl.clone(),
            },
            (),
        )
    }
}

struct Discards {
    ctl: Arc<Ctl>,
}
impl DiscardHandler<u64, Msg> for Discards {
    fn discard(&self, reason: DiscardReason, job: &mut Job<u64, Msg>) {
        self.ctl
            .log
            .discarded
            .lock()
            .unwrap()
            .push((job.msg.0, reason));
    }
}

/// Parks the factory inside `Calculate` on demand.
struct GateController {
    armed: Arc<AtomicBool>,
    parked: Arc<Semaphore>,
    release: Arc<Semaphore>,
}

impl GateController {
    async fn gate(&mut self, current: usize) -> usize {
        if self.armed.swap(false, Ordering::SeqCst) {
            self.parked.add_permits(1);
            self.release.acquire().await.unwrap().forget();
        }
        current
    }
}

#[cfg_attr(feature = "async-trait", ractor::async_trait)]
impl WorkerCapacityController for GateController {
    #[cfg(feature = "async-trait")]
    async fn get_pool_size(&mut self, current: usize) -> usize {
        self.gate(current).await
    }

    #[cfg(not(feature = "async-trait"))]
    fn get_pool_size(&mut self, current: usize) -> futures::future::BoxFuture<'_, usize> {
        Box::pin(self.gate(current))
    }
}

async fn wait_until(what: &str, f: impl Fn() -> bool) {
    let deadline = std::time::Instant::now() + Duration::from_secs(10);
    while !f() {
        assert!(
            std::time::Instant::now() < deadline,
            "test set-up timed out waiting for: {what}"
        );
        tokio::time::sleep(Duration::from_millis(10)).await;
    }
}

#[tokio::test(flavor = "multi_thread", worker_threads = 2)]
async fn job_queued_for_dead_worker_is_given_to_replacement_despite_stale_finished() {
    scenario(routing::KeyPersistentRouting::<u64, Msg>::default(), true).await;
}

/// Same history with the factory level queue (QueuerRouting): J2/J3 wait in the factory's
/// queue, the stale `Finished` makes the busy replacement look idle and J3 is routed to it.
#[tokio::test(flavor = "multi_thread", worker_threads = 2)]
async fn job_in_factory_queue_is_not_routed_to_a_busy_replacement_by_a_stale_finished() {
    scenario(routing::QueuerRouting::<u64, Msg>::default(), true).await;
}

/// Control: the very same history, except that W is killed while it still runs J1 (so no
/// `Finished` of the dead worker is in flight). Passes on the unmodified tree: J1 and J2 are
/// lost with the two dead workers, J3 reaches the second replacement.
#[tokio::test(flavor = "multi_thread", worker_threads = 2)]
async fn control_without_a_stale_finished_job_3_reaches_the_replacement() {
    scenario(routing::KeyPersistentRouting::<u64, Msg>::default(), false).await;
}

async fn scenario<TRouter>(router: TRouter, first_worker_finishes_job_1: bool)
where
    TRouter: routing::Router<u64, Msg>,
{
    let ctl = Arc::new(Ctl {
        log: Log::default(),
        gate1: Semaphore::new(0),
        gate2: Semaphore::new(0),
    });
    let armed = Arc::new(AtomicBool::new(false));
    let parked = Arc::new(Semaphore::new(0));
    let release = Arc::new(Semaphore::new(0));

    let factory_definition =
        Factory::<u64, Msg, (), TestWorker, TRouter, queues::DefaultQueue<u64, Msg>>::default();
    let (factory, factory_handle) = Actor::spawn(
        None,
        factory_definition,
        FactoryArguments::builder()
            .worker_builder(Box::new(Builder { ctl: ctl.clone() }))
            .num_initial_workers(1)
            .router(router)
            .queue(Default::default())
            .discard_handler(Arc::new(Discards { ctl: ctl.clone() }))
            .capacity_controller(Box::new(GateController {
                armed: armed.clone(),
                parked: parked.clone(),
                release: release.clone(),
            }))
            .build(),
    )
    .await
    .expect("failed to spawn factory");

    // J1 runs, J2 + J3 are queued for worker 0 (all have the same key)
    for id in 1..=3u32 {
        factory
            .cast(FactoryMessage::Dispatch(Job::new(7u64, Msg(id))))
            .unwrap();
    }
    wait_until("job 1 started", || {
        ctl.log.started.lock().unwrap().contains(&1)
    })
    .await;

    // Park the factory inside one of its own callbacks.
    armed.store(true, Ordering::SeqCst);
    parked.acquire().await.unwrap().forget();

    // W completes J1: `Finished(0, 7)` is now waiting in the factory's mailbox.
    let workers = factory.get_cell().get_children();
    assert_eq!(1, workers.len());
    let w = workers.into_iter().next().unwrap();
    if first_worker_finishes_job_1 {
        ctl.gate1.add_permits(1);
        wait_until("job 1 handled", || {
            ctl.log.handled.lock().unwrap().contains(&1)
        })
        .await;
        tokio::time::sleep(Duration::from_millis(200)).await;
    }

    // ... and now W is killed (in the main scenario it is idle and holds NO job at this point).
    w.kill();
    wait_until("worker is dead", || w.get_status() == ActorStatus::Stopped).await;
    tokio::time::sleep(Duration::from_millis(200)).await;

    // Let the factory continue: supervision event (priority) then the stale `Finished`.
    release.add_permits(1);

    // The replacement W' got J2 ...
    wait_until("job 2 started on the replacement", || {
        ctl.log.started.lock().unwrap().contains(&2)
    })
    .await;
    tokio::time::sleep(Duration::from_millis(200)).await;
    // ... and J2 kills W'. Losing J2 is the one allowed loss for this worker death.
    ctl.gate2.add_permits(1);

    // J3 was queued for the dead worker => must be given to its replacement and handled.
    let deadline = std::time::Instant::now() + Duration::from_secs(3);
    while std::time::Instant::now() < deadline && !ctl.log.handled.lock().unwrap().contains(&3) {
        tokio::time::sleep(Duration::from_millis(20)).await;
    }

    let handled = ctl.log.handled.lock().unwrap().clone();
    let started = ctl.log.started.lock().unwrap().clone();
    let discarded = ctl.log.discarded.lock().unwrap().clone();
    let queue_depth = ractor::call_t!(factory, FactoryMessage::GetQueueDepth, 1000).unwrap();
    let active = ractor::call_t!(factory, FactoryMessage::GetNumActiveWorkers, 1000).unwrap();

    factory.stop(None);
    factory_handle.await.unwrap();

    assert!(
        handled.contains(&3),
        "job 3 met no fate: handled={handled:?} started={started:?} discarded={discarded:?} \
         factory queue depth={queue_depth} busy workers={active} -- it was pushed into the mailbox \
         of the replacement worker while that worker was still running job 2 (stale `Finished` of \
         the dead predecessor was accepted), and vanished together with job 2 when that worker died"
    );
    if first_worker_finishes_job_1 {
        assert_eq!(vec![1, 3], handled);
    } else {
        assert_eq!(vec![3], handled);
    }
}

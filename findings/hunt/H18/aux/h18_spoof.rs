//! H18 exploratory: unauthenticated raw peers claiming the peer's name (stalled handshake)
use std::sync::{Arc, Mutex};
use std::time::Duration;
use ractor::{Actor, ActorRef};
use ractor_cluster::node::NodeServerSessionInformation;
use ractor_cluster::{BoxRead, BoxWrite, ClusterBidiStream, NodeEventSubscription, NodeServer, NodeServerMessage};
use tokio::io::{AsyncWriteExt, DuplexStream};

struct Labeled { stream: DuplexStream, label: String }
impl ClusterBidiStream for Labeled {
    fn split(self: Box<Self>) -> (BoxRead, BoxWrite) { let (r, w) = tokio::io::split(self.stream); (Box::new(r), Box::new(w)) }
    fn peer_label(&self) -> Option<String> { Some(self.label.clone()) }
    fn local_label(&self) -> Option<String> { Some(self.label.clone()) }
}
fn link(label: &str) -> (Labeled, Labeled) {
    let (a, b) = tokio::io::duplex(1 << 20);
    (Labeled { stream: a, label: label.into() }, Labeled { stream: b, label: label.into() })
}
type Log = Arc<Mutex<Vec<(char, &'static str, String)>>>;
struct Sub { node: char, log: Log }
impl NodeEventSubscription for Sub {
    fn node_session_opened(&self, s: NodeServerSessionInformation) { self.log.lock().unwrap().push((self.node, "opened", s.peer_addr)); }
    fn node_session_disconnected(&self, s: NodeServerSessionInformation) { self.log.lock().unwrap().push((self.node, "disc", s.peer_addr)); }
    fn node_session_authenticated(&self, s: NodeServerSessionInformation) { self.log.lock().unwrap().push((self.node, "auth", s.peer_addr)); }
    fn node_session_ready(&self, s: NodeServerSessionInformation) { self.log.lock().unwrap().push((self.node, "ready", s.peer_addr)); }
}
async fn spawn_node(name: &str, node: char, log: &Log) -> (ActorRef<NodeServerMessage>, ractor::concurrency::JoinHandle<()>) {
    let (n, h) = Actor::spawn(None, NodeServer::new(0, "cookie".into(), name.into(), "host".into(), None, None), ()).await.unwrap();
    n.cast(NodeServerMessage::SubscribeToEvents { id: "t".into(), subscription: Box::new(Sub { node, log: log.clone() }) }).unwrap();
    ractor::call_t!(n, NodeServerMessage::GetSessions, 2000).unwrap();
    (n, h)
}
fn varint(mut v: u64, out: &mut Vec<u8>) { loop { let b = (v & 0x7f) as u8; v >>= 7; if v == 0 { out.push(b); break } else { out.push(b | 0x80) } } }
fn ld(tag: u32, body: &[u8], out: &mut Vec<u8>) { varint(((tag << 3) | 2) as u64, out); varint(body.len() as u64, out); out.extend_from_slice(body); }
fn name_frame(name: &str, conn: &str, nonce: u64) -> Vec<u8> {
    let mut nm = vec![]; ld(1, name.as_bytes(), &mut nm); ld(3, conn.as_bytes(), &mut nm);
    if nonce != 0 { varint((4 << 3) as u64, &mut nm); varint(nonce, &mut nm); }
    let mut auth = vec![]; ld(1, &nm, &mut auth);
    let mut net = vec![]; ld(1, &auth, &mut net);
    let mut frame = (net.len() as u64).to_be_bytes().to_vec(); frame.extend_from_slice(&net); frame
}

#[tokio::test(flavor = "multi_thread", worker_threads = 4)]
async fn stalled_spoofs_do_not_disturb_convergence() {
    for variant in 0..4 {
        let log: Log = Arc::new(Mutex::new(vec![]));
        let (a, ah) = spawn_node("a", 'A', &log).await;
        let (b, bh) = spawn_node("b", 'B', &log).await;
        let mut keep = vec![];
        let spoof = |label: &str, nonce: u64| {
            let (ae, mut raw) = link(label);
            let f = name_frame("b@host", "evil:1", nonce);
            let a = a.clone();
            async move {
                a.cast(NodeServerMessage::ConnectionOpenedExternal { stream: Box::new(ae), is_server: true }).unwrap();
                raw.stream.write_all(&f).await.unwrap();
                raw
            }
        };
        if variant & 1 == 0 { keep.push(spoof("spoof-before-0", 0).await); keep.push(spoof("spoof-before-7", 7).await); }
        tokio::time::sleep(Duration::from_millis(50)).await;
        let (xa, xb) = link("x"); let (ya, yb) = link("y");
        if variant & 2 == 0 {
            a.cast(NodeServerMessage::ConnectionOpenedExternal { stream: Box::new(xa), is_server: false }).unwrap();
            b.cast(NodeServerMessage::ConnectionOpenedExternal { stream: Box::new(xb), is_server: true }).unwrap();
            tokio::time::sleep(Duration::from_millis(100)).await;
        }
        if variant & 1 == 1 { keep.push(spoof("spoof-mid-0", 0).await); keep.push(spoof("spoof-mid-9", 9).await); tokio::time::sleep(Duration::from_millis(50)).await; }
        b.cast(NodeServerMessage::ConnectionOpenedExternal { stream: Box::new(yb), is_server: false }).unwrap();
        a.cast(NodeServerMessage::ConnectionOpenedExternal { stream: Box::new(ya), is_server: true }).unwrap();
        tokio::time::sleep(Duration::from_millis(500)).await;
        let sa = ractor::call_t!(a, NodeServerMessage::GetSessions, 2000).unwrap();
        let sb = ractor::call_t!(b, NodeServerMessage::GetSessions, 2000).unwrap();
        let la: Vec<_> = sa.values().map(|s| s.peer_addr.clone()).collect();
        let lb: Vec<_> = sb.values().map(|s| s.peer_addr.clone()).collect();
        println!("variant {variant}: A={la:?} B={lb:?} log={:?}", log.lock().unwrap());
        assert_eq!(la, vec!["y".to_string()]);
        assert_eq!(lb, vec!["y".to_string()]);
        let l = log.lock().unwrap().clone();
        assert!(l.iter().any(|e| e.0 == 'A' && e.1 == "ready" && e.2 == "y"));
        assert!(l.iter().any(|e| e.0 == 'B' && e.1 == "ready" && e.2 == "y"));
        drop(keep);
        a.stop(None); b.stop(None); let _ = ah.await; let _ = bh.await;
    }
}

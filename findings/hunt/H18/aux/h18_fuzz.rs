//! H18 exploratory harness: two honest nodes, several physical connections
//! routed through a frame relay that delays frames per direction.

use std::collections::{HashMap, HashSet};
use std::sync::{Arc, Mutex};
use std::time::Duration;

use ractor::{Actor, ActorId, ActorRef};
use ractor_cluster::node::NodeServerSessionInformation;
use ractor_cluster::{
    BoxRead, BoxWrite, ClusterBidiStream, NodeEventSubscription, NodeServer, NodeServerMessage,
};
use tokio::io::{AsyncReadExt, AsyncWriteExt, DuplexStream};

struct Rng(u64);
impl Rng {
    fn next(&mut self) -> u64 {
        let mut x = self.0;
        x ^= x << 13;
        x ^= x >> 7;
        x ^= x << 17;
        self.0 = x;
        x
    }
    fn below(&mut self, n: u64) -> u64 {
        self.next() % n
    }
}

struct Labeled {
    stream: DuplexStream,
    label: String,
}
impl ClusterBidiStream for Labeled {
    fn split(self: Box<Self>) -> (BoxRead, BoxWrite) {
        let (r, w) = tokio::io::split(self.stream);
        (Box::new(r), Box::new(w))
    }
    fn peer_label(&self) -> Option<String> {
        Some(self.label.clone())
    }
    fn local_label(&self) -> Option<String> {
        Some(self.label.clone())
    }
}

#[derive(Clone, Debug, PartialEq, Eq)]
enum Kind {
    Opened,
    Authenticated,
    Ready,
    Disconnected,
}

#[derive(Clone, Debug)]
struct Ev {
    node: char,
    kind: Kind,
    actor: ActorId,
    label: String,
}

#[derive(Clone)]
struct Log(Arc<Mutex<Vec<Ev>>>);

struct Sub {
    node: char,
    log: Log,
}
impl Sub {
    fn push(&self, kind: Kind, s: NodeServerSessionInformation) {
        self.log.0.lock().unwrap().push(Ev {
            node: self.node,
            kind,
            actor: s.actor.get_id(),
            label: s.peer_addr,
        });
    }
}
impl NodeEventSubscription for Sub {
    fn node_session_opened(&self, s: NodeServerSessionInformation) {
        self.push(Kind::Opened, s)
    }
    fn node_session_disconnected(&self, s: NodeServerSessionInformation) {
        self.push(Kind::Disconnected, s)
    }
    fn node_session_authenticated(&self, s: NodeServerSessionInformation) {
        self.push(Kind::Authenticated, s)
    }
    fn node_session_ready(&self, s: NodeServerSessionInformation) {
        self.push(Kind::Ready, s)
    }
}

async fn pump(
    mut r: tokio::io::ReadHalf<DuplexStream>,
    mut w: tokio::io::WriteHalf<DuplexStream>,
    delays: Vec<u64>,
) {
    let mut i = 0usize;
    loop {
        let len = match r.read_u64().await {
            Ok(l) => l,
            Err(_) => break,
        };
        let mut buf = vec![0u8; len as usize];
        if r.read_exact(&mut buf).await.is_err() {
            break;
        }
        let d = delays[i % delays.len()];
        i += 1;
        if d > 0 {
            tokio::time::sleep(Duration::from_millis(d)).await;
        }
        if w.write_u64(len).await.is_err() || w.write_all(&buf).await.is_err() {
            break;
        }
        let _ = w.flush().await;
    }
    let _ = w.shutdown().await;
}

/// returns (a_end, b_end)
fn relayed(label: &str, d_ab: Vec<u64>, d_ba: Vec<u64>) -> (Labeled, Labeled) {
    let (a_end, ra) = tokio::io::duplex(1 << 20);
    let (rb, b_end) = tokio::io::duplex(1 << 20);
    let (ra_r, ra_w) = tokio::io::split(ra);
    let (rb_r, rb_w) = tokio::io::split(rb);
    tokio::spawn(pump(ra_r, rb_w, d_ab));
    tokio::spawn(pump(rb_r, ra_w, d_ba));
    (
        Labeled {
            stream: a_end,
            label: label.to_string(),
        },
        Labeled {
            stream: b_end,
            label: label.to_string(),
        },
    )
}

async fn spawn_node(
    name: &str,
    node: char,
    log: &Log,
) -> (
    ActorRef<NodeServerMessage>,
    ractor::concurrency::JoinHandle<()>,
) {
    let (n, h) = Actor::spawn(
        None,
        NodeServer::new(
            0,
            "cookie".to_string(),
            name.to_string(),
            "host".to_string(),
            None,
            None,
        ),
        (),
    )
    .await
    .expect("node start");
    n.cast(NodeServerMessage::SubscribeToEvents {
        id: "t".to_string(),
        subscription: Box::new(Sub {
            node,
            log: log.clone(),
        }),
    })
    .unwrap();
    ractor::call_t!(n, NodeServerMessage::GetSessions, 2000).unwrap();
    (n, h)
}

async fn trial(seed: u64) -> Result<String, String> {
    let mut rng = Rng(seed.wrapping_mul(0x9E3779B97F4A7C15) | 1);
    let log = Log(Arc::new(Mutex::new(Vec::new())));
    let (a, ah) = spawn_node("a", 'A', &log).await;
    let (b, bh) = spawn_node("b", 'B', &log).await;

    let scale: u64 = std::env::var("H18_SCALE").ok().and_then(|s| s.parse().ok()).unwrap_or(1);
    let maxn: u64 = std::env::var("H18_MAXN").ok().and_then(|s| s.parse().ok()).unwrap_or(4);
    let n = 2 + rng.below(maxn - 1) as usize;
    let mut desc = format!("seed={seed} n={n}:");
    let mut tasks = vec![];
    for i in 0..n {
        let a_initiates = rng.below(2) == 0;
        let start = rng.below(40) * scale.min(1) + rng.below(3) * (1 - scale.min(1));
        let skew = rng.below(10) * scale.min(1);
        let base_ab = rng.below(12) * scale;
        let base_ba = rng.below(12) * scale;
        let mut d_ab = vec![];
        let mut d_ba = vec![];
        for _ in 0..8 {
            d_ab.push(base_ab + scale * rng.below(25) * (rng.below(3) == 0) as u64);
            d_ba.push(base_ba + scale * rng.below(25) * (rng.below(3) == 0) as u64);
        }
        desc.push_str(&format!(
            " [c{i} {} start={start} skew={skew} ab={d_ab:?} ba={d_ba:?}]",
            if a_initiates { "A->B" } else { "B->A" }
        ));
        let (ae, be) = relayed(&format!("c{i}"), d_ab, d_ba);
        let a = a.clone();
        let b = b.clone();
        tasks.push(tokio::spawn(async move {
            tokio::time::sleep(Duration::from_millis(start)).await;
            // the initiator opens first, the acceptor after a skew
            if a_initiates {
                a.cast(NodeServerMessage::ConnectionOpenedExternal {
                    stream: Box::new(ae),
                    is_server: false,
                })
                .unwrap();
                tokio::time::sleep(Duration::from_millis(skew)).await;
                b.cast(NodeServerMessage::ConnectionOpenedExternal {
                    stream: Box::new(be),
                    is_server: true,
                })
                .unwrap();
            } else {
                b.cast(NodeServerMessage::ConnectionOpenedExternal {
                    stream: Box::new(be),
                    is_server: false,
                })
                .unwrap();
                tokio::time::sleep(Duration::from_millis(skew)).await;
                a.cast(NodeServerMessage::ConnectionOpenedExternal {
                    stream: Box::new(ae),
                    is_server: true,
                })
                .unwrap();
            }
        }));
    }
    for t in tasks {
        t.await.unwrap();
    }

    // quiescence: no new events for 700ms
    let mut last = 0usize;
    let mut stable = 0;
    for _ in 0..200 {
        tokio::time::sleep(Duration::from_millis(100)).await;
        let cur = log.0.lock().unwrap().len();
        if cur == last {
            stable += 1;
            if stable >= 7 {
                break;
            }
        } else {
            stable = 0;
            last = cur;
        }
    }

    let sa = ractor::call_t!(a, NodeServerMessage::GetSessions, 2000).unwrap();
    let sb = ractor::call_t!(b, NodeServerMessage::GetSessions, 2000).unwrap();
    let evs = log.0.lock().unwrap().clone();

    let mut problems = vec![];
    let mut notes = vec![];
    let la: Vec<_> = sa.values().map(|s| s.peer_addr.clone()).collect();
    let lb: Vec<_> = sb.values().map(|s| s.peer_addr.clone()).collect();
    if la.len() != 1 || lb.len() != 1 || la != lb {
        problems.push(format!("final sessions differ: A={la:?} B={lb:?}"));
    }
    for node in ['A', 'B'] {
        let opened = evs
            .iter()
            .filter(|e| e.node == node && e.kind == Kind::Opened)
            .count();
        let disc = evs
            .iter()
            .filter(|e| e.node == node && e.kind == Kind::Disconnected)
            .count();
        if opened != n || disc != n - 1 {
            problems.push(format!("node {node}: opened={opened} disconnected={disc}"));
        }
        let mut live_ready: HashSet<ActorId> = HashSet::new();
        let mut ready_counts: HashMap<ActorId, usize> = HashMap::new();
        let mut max_live = 0;
        for e in evs.iter().filter(|e| e.node == node) {
            match e.kind {
                Kind::Ready => {
                    live_ready.insert(e.actor);
                    *ready_counts.entry(e.actor).or_default() += 1;
                }
                Kind::Disconnected => {
                    live_ready.remove(&e.actor);
                }
                _ => {}
            }
            max_live = max_live.max(live_ready.len());
        }
        let fin = if node == 'A' { &sa } else { &sb };
        for s in fin.values() {
            match ready_counts.get(&s.actor.get_id()) {
                Some(1) => {}
                other => problems.push(format!(
                    "node {node}: final session {} ready count {other:?}",
                    s.peer_addr
                )),
            }
        }
        if ready_counts.len() > 1 {
            notes.push(format!(
                "node {node}: {} distinct sessions reported ready",
                ready_counts.len()
            ));
        }
        if max_live > 1 {
            notes.push(format!("node {node}: max live-ready {max_live}"));
        }
        if live_ready.len() != 1 {
            problems.push(format!(
                "node {node}: live ready at end = {}",
                live_ready.len()
            ));
        }
    }

    a.stop(None);
    b.stop(None);
    let _ = ah.await;
    let _ = bh.await;

    if problems.is_empty() {
        Ok(if notes.is_empty() {
            String::new()
        } else {
            format!("{desc}\n   notes: {notes:?}")
        })
    } else {
        let trace: Vec<String> = evs
            .iter()
            .map(|e| format!("{}:{:?}:{}:{}", e.node, e.kind, e.label, e.actor))
            .collect();
        Err(format!(
            "{desc}\n   PROBLEMS: {problems:?}\n   notes: {notes:?}\n   trace: {trace:?}"
        ))
    }
}

#[tokio::test(flavor = "multi_thread", worker_threads = 4)]
async fn fuzz_honest_duplicates() {
    let start: u64 = std::env::var("H18_SEED")
        .ok()
        .and_then(|s| s.parse().ok())
        .unwrap_or(1);
    let count: u64 = std::env::var("H18_COUNT")
        .ok()
        .and_then(|s| s.parse().ok())
        .unwrap_or(40);
    let mut failures = vec![];
    let mut noted = 0;
    // run a few trials concurrently
    let mut seed = start;
    while seed < start + count {
        let mut hs = vec![];
        for s in seed..(seed + 4).min(start + count) {
            hs.push(tokio::spawn(trial(s)));
        }
        seed += 4;
        for h in hs {
            match h.await.unwrap() {
                Ok(s) => {
                    if !s.is_empty() {
                        noted += 1;
                        println!("NOTE {s}");
                    }
                }
                Err(e) => {
                    println!("FAIL {e}");
                    failures.push(e);
                }
            }
        }
    }
    println!("trials={count} failures={} noted={noted}", failures.len());
    assert!(failures.is_empty(), "{} failures", failures.len());
}


async fn wait_ready(log: &Log, label: &str) {
    for _ in 0..500 {
        {
            let l = log.0.lock().unwrap();
            let a = l.iter().any(|e| e.node == 'A' && e.kind == Kind::Ready && e.label == label);
            let b = l.iter().any(|e| e.node == 'B' && e.kind == Kind::Ready && e.label == label);
            if a && b {
                return;
            }
        }
        tokio::time::sleep(Duration::from_millis(5)).await;
    }
    panic!("{label} never ready");
}

fn direct(label: &str) -> (Labeled, Labeled) {
    let (a, b) = tokio::io::duplex(1 << 20);
    (
        Labeled { stream: a, label: label.to_string() },
        Labeled { stream: b, label: label.to_string() },
    )
}

#[tokio::test(flavor = "multi_thread", worker_threads = 4)]
async fn measure_overlap() {
    let rounds = 60;
    let mut overlap_a = 0;
    let mut overlap_b = 0;
    for _ in 0..rounds {
        let log = Log(Arc::new(Mutex::new(Vec::new())));
        let (a, ah) = spawn_node("a", 'A', &log).await;
        let (b, bh) = spawn_node("b", 'B', &log).await;
        let (xa, xb) = direct("x");
        a.cast(NodeServerMessage::ConnectionOpenedExternal { stream: Box::new(xa), is_server: false }).unwrap();
        b.cast(NodeServerMessage::ConnectionOpenedExternal { stream: Box::new(xb), is_server: true }).unwrap();
        wait_ready(&log, "x").await;
        let (ya, yb) = direct("y");
        b.cast(NodeServerMessage::ConnectionOpenedExternal { stream: Box::new(yb), is_server: false }).unwrap();
        a.cast(NodeServerMessage::ConnectionOpenedExternal { stream: Box::new(ya), is_server: true }).unwrap();
        wait_ready(&log, "y").await;
        tokio::time::sleep(Duration::from_millis(100)).await;
        let evs = log.0.lock().unwrap().clone();
        for node in ['A', 'B'] {
            let mut live: HashSet<ActorId> = HashSet::new();
            let mut max = 0;
            for e in evs.iter().filter(|e| e.node == node) {
                match e.kind {
                    Kind::Ready => { live.insert(e.actor); }
                    Kind::Disconnected => { live.remove(&e.actor); }
                    _ => {}
                }
                max = max.max(live.len());
            }
            if max > 1 {
                if node == 'A' { overlap_a += 1 } else { overlap_b += 1 }
            }
        }
        a.stop(None);
        b.stop(None);
        let _ = ah.await;
        let _ = bh.await;
    }
    println!("rounds={rounds} overlap_a={overlap_a} overlap_b={overlap_b}");
}

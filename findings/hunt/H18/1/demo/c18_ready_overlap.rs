//! C18 demonstration: while a duplicate connection is being resolved, the node
//! events of ONE node report TWO ready sessions for the same peer at the same
//! time: `node_session_ready(new)` is delivered before
//! `node_session_disconnected(old)`.
//!
//! History (two honest nodes, public API only):
//!   1. a@host dials b@host (connection "x"); both nodes report it ready.
//!   2. b@host dials a@host (connection "y"). b sorts last, so "y" is the
//!      connection both nodes must keep and "x" must be closed.
//!   3. On node b, "y" is the outgoing session: the peer's ServerAck and Ready
//!      frames arrive back to back, so `ConnectionReady(y)` reaches the
//!      NodeServer before the supervision event for the stopped session "x".
//!
//! A subscriber that tracks "the ready session of peer P" (add on ready, remove
//! on disconnected) therefore sees two ready sessions for a@host.
//!
//! The ordering is a race inside the library that cannot be gated from the
//! outside, so the history is repeated on fresh node pairs until it shows up
//! (about one round in three on the unmodified tree; 200 rounds are allowed).

use std::collections::HashSet;
use std::sync::{Arc, Mutex};
use std::time::Duration;

use ractor::{Actor, ActorId, ActorRef};
use ractor_cluster::node::NodeServerSessionInformation;
use ractor_cluster::{
    BoxRead, BoxWrite, ClusterBidiStream, NodeEventSubscription, NodeServer, NodeServerMessage,
};
use tokio::io::DuplexStream;

struct Labeled {
    stream: DuplexStream,
    label: String,
}

impl ClusterBidiStream for Labeled {
    fn split(self: Box<Self>) -> (BoxRead, BoxWrite) {
        let (r, w) = tokio::io::split(self.stream);
        (Box::new(r), Box::new(w))
    }
    fn peer_label(&self) -> Option<String> {
        Some(self.label.clone())
    }
    fn local_label(&self) -> Option<String> {
        Some(self.label.clone())
    }
}

fn link(label: &str) -> (Labeled, Labeled) {
    let (a, b) = tokio::io::duplex(1 << 20);
    (
        Labeled {
            stream: a,
            label: label.to_string(),
        },
        Labeled {
            stream: b,
            label: label.to_string(),
        },
    )
}

#[derive(Clone, Debug, PartialEq, Eq)]
enum Kind {
    Ready,
    Disconnected,
}

#[derive(Clone, Debug)]
struct Ev {
    node: char,
    kind: Kind,
    actor: ActorId,
    link: String,
    peer: Option<String>,
}

type Log = Arc<Mutex<Vec<Ev>>>;

struct Sub {
    node: char,
    log: Log,
}

impl Sub {
    fn push(&self, kind: Kind, s: NodeServerSessionInformation) {
        self.log.lock().unwrap().push(Ev {
            node: self.node,
            kind,
            actor: s.actor.get_id(),
            link: s.peer_addr,
            peer: s.peer_name.map(|n| n.name),
        });
    }
}

impl NodeEventSubscription for Sub {
    fn node_session_opened(&self, _: NodeServerSessionInformation) {}
    fn node_session_authenticated(&self, _: NodeServerSessionInformation) {}
    fn node_session_disconnected(&self, s: NodeServerSessionInformation) {
        self.push(Kind::Disconnected, s)
    }
    fn node_session_ready(&self, s: NodeServerSessionInformation) {
        self.push(Kind::Ready, s)
    }
}

async fn spawn_node(
    name: &str,
    node: char,
    log: &Log,
) -> (
    ActorRef<NodeServerMessage>,
    ractor::concurrency::JoinHandle<()>,
) {
    let (n, h) = Actor::spawn(
        None,
        NodeServer::new(
            0,
            "cookie".to_string(),
            name.to_string(),
            "host".to_string(),
            None,
            None,
        ),
        (),
    )
    .await
    .expect("node should start");
    n.cast(NodeServerMessage::SubscribeToEvents {
        id: "c18".to_string(),
        subscription: Box::new(Sub {
            node,
            log: log.clone(),
        }),
    })
    .expect("subscribe");
    // mailbox barrier: subscription and listener port are installed
    ractor::call_t!(n, NodeServerMessage::GetSessions, 2000).expect("barrier");
    (n, h)
}

async fn wait_ready_on_both(log: &Log, link: &str) {
    for _ in 0..2000 {
        {
            let l = log.lock().unwrap();
            let on = |node| {
                l.iter()
                    .any(|e| e.node == node && e.kind == Kind::Ready && e.link == link)
            };
            if on('A') && on('B') {
                return;
            }
        }
        tokio::time::sleep(Duration::from_millis(2)).await;
    }
    panic!("connection {link} never became ready on both nodes");
}

async fn wait_disconnected_on_both(log: &Log, link: &str) {
    for _ in 0..2000 {
        {
            let l = log.lock().unwrap();
            let on = |node| {
                l.iter()
                    .any(|e| e.node == node && e.kind == Kind::Disconnected && e.link == link)
            };
            if on('A') && on('B') {
                return;
            }
        }
        tokio::time::sleep(Duration::from_millis(2)).await;
    }
    panic!("connection {link} was never closed on both nodes");
}

/// Replays the event stream of one node the way a subscriber would and returns
/// the first moment at which more than one session of the same peer is ready.
fn first_overlap(evs: &[Ev], node: char) -> Option<String> {
    let mut ready: HashSet<(Option<String>, ActorId)> = HashSet::new();
    for (idx, e) in evs.iter().filter(|e| e.node == node).enumerate() {
        match e.kind {
            Kind::Ready => {
                ready.insert((e.peer.clone(), e.actor));
            }
            Kind::Disconnected => {
                ready.retain(|(_, actor)| *actor != e.actor);
            }
        }
        let same_peer = ready.iter().filter(|(peer, _)| *peer == e.peer).count();
        if same_peer > 1 {
            let trace = evs
                .iter()
                .filter(|e| e.node == node)
                .map(|e| format!("{:?}({} session {})", e.kind, e.link, e.actor))
                .collect::<Vec<_>>()
                .join(", ");
            return Some(format!(
                "node {node}: after event #{idx} the subscriber holds {same_peer} ready sessions \
                 for peer {:?}; event order on this node: [{trace}]",
                e.peer
            ));
        }
    }
    None
}

#[tokio::test(flavor = "multi_thread", worker_threads = 4)]
async fn node_events_never_report_two_ready_sessions_for_one_peer() {
    const ROUNDS: usize = 200;
    for round in 0..ROUNDS {
        let log: Log = Arc::new(Mutex::new(Vec::new()));
        let (a, a_handle) = spawn_node("a", 'A', &log).await;
        let (b, b_handle) = spawn_node("b", 'B', &log).await;

        // 1. a -> b
        let (xa, xb) = link("x");
        a.cast(NodeServerMessage::ConnectionOpenedExternal {
            stream: Box::new(xa),
            is_server: false,
        })
        .unwrap();
        b.cast(NodeServerMessage::ConnectionOpenedExternal {
            stream: Box::new(xb),
            is_server: true,
        })
        .unwrap();
        wait_ready_on_both(&log, "x").await;

        // 2. b -> a : the connection both nodes have to converge on
        let (ya, yb) = link("y");
        b.cast(NodeServerMessage::ConnectionOpenedExternal {
            stream: Box::new(yb),
            is_server: false,
        })
        .unwrap();
        a.cast(NodeServerMessage::ConnectionOpenedExternal {
            stream: Box::new(ya),
            is_server: true,
        })
        .unwrap();
        wait_ready_on_both(&log, "y").await;
        wait_disconnected_on_both(&log, "x").await;

        // convergence itself is fine: one session per node, the same link
        let sa = ractor::call_t!(a, NodeServerMessage::GetSessions, 2000).unwrap();
        let sb = ractor::call_t!(b, NodeServerMessage::GetSessions, 2000).unwrap();
        assert_eq!(sa.len(), 1);
        assert_eq!(sb.len(), 1);
        assert_eq!(sa.values().next().unwrap().peer_addr, "y");
        assert_eq!(sb.values().next().unwrap().peer_addr, "y");

        let evs = log.lock().unwrap().clone();
        a.stop(None);
        b.stop(None);
        let _ = a_handle.await;
        let _ = b_handle.await;

        for node in ['A', 'B'] {
            if let Some(overlap) = first_overlap(&evs, node) {
                panic!("round {round}: two ready sessions reported for one peer: {overlap}");
            }
        }
    }
}

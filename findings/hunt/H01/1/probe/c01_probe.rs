// Stress + scenario probe for property C01 (one handler at a time, in lifecycle order).
// PASSES on the unmodified tree: it is evidence of examination, not a demonstration of a defect.

use std::sync::atomic::{AtomicBool, AtomicIsize, AtomicU64, Ordering};
use std::sync::{Arc, Mutex};

use ractor::concurrency::{sleep, Duration};
use ractor::thread_local::{ThreadLocalActor, ThreadLocalActorSpawner};
use ractor::{Actor, ActorCell, ActorProcessingErr, ActorRef, SupervisionEvent};

#[derive(Clone, Copy, Debug, PartialEq, Eq)]
enum Cb {
    PreStart,
    PostStart,
    Handle,
    Sup,
    PostStop,
}

#[derive(Clone, Debug, PartialEq, Eq)]
enum Ev {
    Enter(Cb),
    Return(Cb, bool),
    // callback future dropped without returning (cancel or panic)
    Dropped(Cb, bool),
    KillIssued,
    StopIssued,
    DrainIssued,
}

#[derive(Default)]
struct Log {
    evs: Mutex<Vec<Ev>>,
    inflight: AtomicIsize,
    overlap: AtomicBool,
}

impl Log {
    fn push(&self, ev: Ev) {
        self.evs.lock().unwrap().push(ev);
    }
}

struct Span {
    log: Arc<Log>,
    cb: Cb,
    done: bool,
}

impl Span {
    fn enter(log: &Arc<Log>, cb: Cb) -> Self {
        let prev = log.inflight.fetch_add(1, Ordering::SeqCst);
        if prev != 0 {
            log.overlap.store(true, Ordering::SeqCst);
        }
        log.push(Ev::Enter(cb));
        Span {
            log: log.clone(),
            cb,
            done: false,
        }
    }
    fn ret(mut self, ok: bool) {
        self.done = true;
        self.log.push(Ev::Return(self.cb, ok));
        self.log.inflight.fetch_sub(1, Ordering::SeqCst);
    }
}

impl Drop for Span {
    fn drop(&mut self) {
        if !self.done {
            self.log
                .push(Ev::Dropped(self.cb, std::thread::panicking()));
            self.log.inflight.fetch_sub(1, Ordering::SeqCst);
        }
    }
}

#[derive(Clone, Copy, Debug, PartialEq, Eq)]
enum Mode {
    Ok,
    Yield,
    Sleep,
    Fail,
    Panic,
}

#[derive(Clone, Copy, Debug, PartialEq, Eq)]
enum SupMode {
    Default,
    Ignore,
    Sleep,
    Fail,
    Panic,
}

#[derive(Clone, Debug)]
enum Msg {
    Do(Mode),
    SelfSend,
    SelfStop,
    SelfKill,
    SelfDrain,
    SpawnChild(Vec<Msg>),
    SpawnTaskThatSends,
}
#[cfg(feature = "cluster")]
impl ractor::Message for Msg {}

#[derive(Clone)]
struct Cfg {
    log: Arc<Log>,
    all_logs: Arc<Mutex<Vec<Arc<Log>>>>,
    pre: Mode,
    post_start: Mode,
    post_stop: Mode,
    sup: SupMode,
    // messages sent to self from post_start
    script: Vec<Msg>,
    local_spawner: Option<ThreadLocalActorSpawner>,
}

async fn act(mode: Mode) -> Result<(), ActorProcessingErr> {
    match mode {
        Mode::Ok => Ok(()),
        Mode::Yield => {
            for _ in 0..3 {
                sleep(Duration::from_micros(1)).await;
            }
            Ok(())
        }
        Mode::Sleep => {
            sleep(Duration::from_millis(2)).await;
            Ok(())
        }
        Mode::Fail => {
            sleep(Duration::from_micros(1)).await;
            Err("boom".into())
        }
        Mode::Panic => {
            sleep(Duration::from_micros(1)).await;
            panic!("kaboom")
        }
    }
}

#[derive(Default)]
struct Probe;

#[cfg_attr(feature = "async-trait", ractor::async_trait)]
impl Actor for Probe {
    type Msg = Msg;
    type State = Cfg;
    type Arguments = Cfg;

    async fn pre_start(
        &self,
        _myself: ActorRef<Msg>,
        cfg: Cfg,
    ) -> Result<Cfg, ActorProcessingErr> {
        let span = Span::enter(&cfg.log, Cb::PreStart);
        let r = act(cfg.pre).await;
        span.ret(r.is_ok());
        r.map(|_| cfg)
    }

    async fn post_start(
        &self,
        myself: ActorRef<Msg>,
        cfg: &mut Cfg,
    ) -> Result<(), ActorProcessingErr> {
        let span = Span::enter(&cfg.log, Cb::PostStart);
        for m in cfg.script.clone() {
            let _ = myself.send_message(m);
        }
        let r = act(cfg.post_start).await;
        span.ret(r.is_ok());
        r
    }

    async fn post_stop(
        &self,
        _myself: ActorRef<Msg>,
        cfg: &mut Cfg,
    ) -> Result<(), ActorProcessingErr> {
        let span = Span::enter(&cfg.log, Cb::PostStop);
        let r = act(cfg.post_stop).await;
        span.ret(r.is_ok());
        r
    }

    async fn handle(
        &self,
        myself: ActorRef<Msg>,
        msg: Msg,
        cfg: &mut Cfg,
    ) -> Result<(), ActorProcessingErr> {
        let span = Span::enter(&cfg.log, Cb::Handle);
        let r = match msg {
            Msg::Do(mode) => act(mode).await,
            Msg::SelfSend => {
                let _ = myself.send_message(Msg::Do(Mode::Yield));
                act(Mode::Yield).await
            }
            Msg::SelfStop => {
                myself.stop(None);
                cfg.log.push(Ev::StopIssued);
                act(Mode::Yield).await
            }
            Msg::SelfKill => {
                // NOTE: marker is pushed *before* so it precedes any later Enter
                myself.kill();
                cfg.log.push(Ev::KillIssued);
                // return without awaiting so that we are not cancelled
                Ok(())
            }
            Msg::SelfDrain => {
                let _ = myself.drain();
                cfg.log.push(Ev::DrainIssued);
                act(Mode::Yield).await
            }
            Msg::SpawnChild(script) => {
                let log = Arc::new(Log::default());
                cfg.all_logs.lock().unwrap().push(log.clone());
                let child_cfg = Cfg {
                    log,
                    all_logs: cfg.all_logs.clone(),
                    pre: Mode::Yield,
                    post_start: Mode::Ok,
                    post_stop: Mode::Yield,
                    sup: SupMode::Default,
                    script,
                    local_spawner: cfg.local_spawner.clone(),
                };
                if let Some(sp) = cfg.local_spawner.clone() {
                    let _ = <Probe as ThreadLocalActor>::spawn_linked(
                        None,
                        child_cfg,
                        myself.get_cell(),
                        sp,
                    )
                    .await;
                } else {
                    let _ =
                        <Probe as Actor>::spawn_linked(None, Probe, child_cfg, myself.get_cell())
                            .await;
                }
                Ok(())
            }
            Msg::SpawnTaskThatSends => {
                let who = myself.clone();
                ractor::concurrency::spawn(async move {
                    for _ in 0..3 {
                        let _ = who.send_message(Msg::Do(Mode::Ok));
                        sleep(Duration::from_micros(50)).await;
                    }
                });
                Ok(())
            }
        };
        span.ret(r.is_ok());
        r
    }

    async fn handle_supervisor_evt(
        &self,
        myself: ActorRef<Msg>,
        message: SupervisionEvent,
        cfg: &mut Cfg,
    ) -> Result<(), ActorProcessingErr> {
        let span = Span::enter(&cfg.log, Cb::Sup);
        let is_exit = matches!(
            message,
            SupervisionEvent::ActorTerminated(..) | SupervisionEvent::ActorFailed(..)
        );
        let r = match cfg.sup {
            SupMode::Default => {
                if is_exit {
                    myself.stop(None);
                    cfg.log.push(Ev::StopIssued);
                }
                Ok(())
            }
            SupMode::Ignore => Ok(()),
            SupMode::Sleep => act(Mode::Sleep).await,
            SupMode::Fail => {
                if is_exit {
                    act(Mode::Fail).await
                } else {
                    Ok(())
                }
            }
            SupMode::Panic => {
                if is_exit {
                    act(Mode::Panic).await
                } else {
                    Ok(())
                }
            }
        };
        span.ret(r.is_ok());
        r
    }
}

// ------------------------------------------------------------------ //

struct Rng(u64);
impl Rng {
    fn next(&mut self) -> u64 {
        let mut x = self.0;
        x ^= x << 13;
        x ^= x >> 7;
        x ^= x << 17;
        self.0 = x;
        x
    }
    fn below(&mut self, n: u64) -> u64 {
        self.next() % n
    }
    fn pick<T: Copy>(&mut self, xs: &[T]) -> T {
        xs[self.below(xs.len() as u64) as usize]
    }
}

fn validate(seed: u64, which: &str, log: &Log) -> Result<(), String> {
    let evs = log.evs.lock().unwrap().clone();
    let fail = |why: &str| -> Result<(), String> {
        Err(format!("seed {seed} [{which}] {why}\n  log = {evs:?}"))
    };
    if log.overlap.load(Ordering::SeqCst) {
        return fail("OVERLAP of callbacks");
    }
    if log.inflight.load(Ordering::SeqCst) != 0 {
        return fail("callback still in flight after exit");
    }
    // strip markers for the grammar
    let cbs: Vec<&Ev> = evs
        .iter()
        .filter(|e| matches!(e, Ev::Enter(_) | Ev::Return(..) | Ev::Dropped(..)))
        .collect();
    if cbs.len() % 2 != 0 {
        return fail("odd number of enter/exit events");
    }
    let mut post_start_ok = false;
    let mut pre_ok = false;
    let mut seen_pre = 0;
    let mut seen_post_start = 0;
    let mut seen_post_stop = 0;
    let mut all_ok_so_far = true;
    for (i, pair) in cbs.chunks(2).enumerate() {
        let (cb, ok) = match (pair[0], pair[1]) {
            (Ev::Enter(a), Ev::Return(b, ok)) if a == b => (*a, *ok),
            (Ev::Enter(a), Ev::Dropped(b, _)) if a == b => (*a, false),
            _ => return fail("enter/exit do not pair up"),
        };
        if seen_post_stop > 0 {
            return fail("callback after post_stop");
        }
        match cb {
            Cb::PreStart => {
                seen_pre += 1;
                if i != 0 || seen_pre > 1 {
                    return fail("pre_start not first/once");
                }
                pre_ok = ok;
            }
            Cb::PostStart => {
                seen_post_start += 1;
                if i != 1 || seen_post_start > 1 || !pre_ok {
                    return fail("post_start misplaced");
                }
                post_start_ok = ok;
            }
            Cb::Handle | Cb::Sup => {
                if !post_start_ok {
                    return fail("handler before post_start Ok");
                }
                if !all_ok_so_far {
                    return fail("handler after a failed/cancelled callback");
                }
            }
            Cb::PostStop => {
                seen_post_stop += 1;
                if !post_start_ok {
                    return fail("post_stop without post_start Ok");
                }
                if !all_ok_so_far {
                    return fail("post_stop after handler error / panic / cancel");
                }
            }
        }
        all_ok_so_far &= ok;
    }
    // kill marker followed by >= 2 callback entries is a violation (1 is a benign race)
    if let Some(pos) = evs.iter().position(|e| *e == Ev::KillIssued) {
        let later_enters = evs[pos..]
            .iter()
            .filter(|e| matches!(e, Ev::Enter(_)))
            .count();
        if later_enters >= 2 {
            return fail("two or more callbacks began after a kill was issued");
        }
        let post_stop_after = evs[pos..].iter().any(|e| *e == Ev::Enter(Cb::PostStop));
        if post_stop_after {
            // report softly
            eprintln!(
                "NOTE seed {seed} [{which}] post_stop entered after kill marker: {evs:?}"
            );
        }
    }
    Ok(())
}

static COUNTER: AtomicU64 = AtomicU64::new(0);

async fn one_round(seed: u64, local: Option<ThreadLocalActorSpawner>) -> Result<(), String> {
    let mut rng = Rng(seed.wrapping_mul(0x9E3779B97F4A7C15) | 1);
    let modes = [Mode::Ok, Mode::Yield, Mode::Sleep, Mode::Fail, Mode::Panic];
    let mostly_ok = [
        Mode::Ok,
        Mode::Ok,
        Mode::Yield,
        Mode::Yield,
        Mode::Sleep,
        Mode::Fail,
        Mode::Panic,
    ];
    let sups = [
        SupMode::Default,
        SupMode::Ignore,
        SupMode::Sleep,
        SupMode::Fail,
        SupMode::Panic,
    ];
    let all_logs = Arc::new(Mutex::new(Vec::new()));
    let log = Arc::new(Log::default());
    all_logs.lock().unwrap().push(log.clone());

    let gen_msg = move |rng: &mut Rng| -> Msg {
        match rng.below(14) {
            0..=3 => Msg::Do(rng.pick(&[Mode::Ok, Mode::Yield, Mode::Sleep])),
            4 => Msg::Do(rng.pick(&modes)),
            5 => Msg::SelfSend,
            6 => Msg::SelfStop,
            7 => Msg::SelfKill,
            8 => Msg::SelfDrain,
            9..=11 => {
                let child_script = match rng.below(6) {
                    0 => vec![Msg::Do(Mode::Panic)],
                    1 => vec![Msg::Do(Mode::Fail)],
                    2 => vec![Msg::SelfStop],
                    3 => vec![Msg::SelfKill],
                    4 => vec![Msg::Do(Mode::Sleep), Msg::SelfDrain],
                    _ => vec![Msg::Do(Mode::Sleep)],
                };
                Msg::SpawnChild(child_script)
            }
            12 => Msg::SpawnTaskThatSends,
            _ => Msg::Do(Mode::Ok),
        }
    };

    let mut script = vec![];
    for _ in 0..rng.below(4) {
        script.push(gen_msg(&mut rng));
    }
    let cfg = Cfg {
        log: log.clone(),
        all_logs: all_logs.clone(),
        pre: rng.pick(&mostly_ok),
        post_start: rng.pick(&mostly_ok),
        post_stop: rng.pick(&mostly_ok),
        sup: rng.pick(&sups),
        script,
        local_spawner: local.clone(),
    };

    // spawn (instant or not)
    let n = COUNTER.fetch_add(1, Ordering::Relaxed);
    let _ = n;
    let instant = rng.below(2) == 0;
    let (actor, waiter): (ActorRef<Msg>, ractor::concurrency::JoinHandle<()>) = if instant {
        let (a, h) = if let Some(sp) = local.clone() {
            <Probe as ThreadLocalActor>::spawn_instant(None, cfg, sp).map_err(|e| e.to_string())?
        } else {
            ractor::ActorRuntime::<Probe>::spawn_instant(None, Probe, cfg)
                .map_err(|e| e.to_string())?
        };
        let w = ractor::concurrency::spawn(async move {
            if let Ok(Ok(inner)) = h.await {
                let _ = inner.await;
            }
        });
        (a, w)
    } else {
        let r = if let Some(sp) = local.clone() {
            <Probe as ThreadLocalActor>::spawn(None, cfg, sp).await
        } else {
            <Probe as Actor>::spawn(None, Probe, cfg).await
        };
        match r {
            Ok((a, h)) => {
                let w = ractor::concurrency::spawn(async move {
                    let _ = h.await;
                });
                (a, w)
            }
            Err(_) => {
                // failed startup: validate what we have
                sleep(Duration::from_millis(1)).await;
                for l in all_logs.lock().unwrap().iter() {
                    validate(seed, "startup-failed", l)?;
                }
                return Ok(());
            }
        }
    };

    // concurrent drivers
    let mut drivers = vec![];
    let n_drivers = 1 + rng.below(3);
    for d in 0..n_drivers {
        let mut r = Rng(rng.next() | 1);
        let actor = actor.clone();
        let log = log.clone();
        let gen = gen_msg;
        drivers.push(ractor::concurrency::spawn(async move {
            let steps = 2 + r.below(8);
            for _ in 0..steps {
                match r.below(20) {
                    0 => {
                        actor.stop(None);
                        log.push(Ev::StopIssued);
                    }
                    1 => {
                        actor.kill();
                        log.push(Ev::KillIssued);
                    }
                    2 => {
                        let _ = actor.drain();
                        log.push(Ev::DrainIssued);
                    }
                    _ => {
                        let _ = actor.send_message(gen(&mut r));
                    }
                }
                match r.below(4) {
                    0 => {}
                    1 => sleep(Duration::from_micros(r.below(200))).await,
                    2 => sleep(Duration::from_micros(1)).await,
                    _ => sleep(Duration::from_millis(r.below(3))).await,
                }
            }
            let _ = d;
        }));
    }
    for d in drivers {
        let _ = d.await;
    }
    // finisher
    match rng.below(3) {
        0 => {
            actor.stop(None);
            log.push(Ev::StopIssued);
        }
        1 => {
            let _ = actor.drain();
            log.push(Ev::DrainIssued);
        }
        _ => {
            actor.kill();
            log.push(Ev::KillIssued);
        }
    }
    if ractor::concurrency::timeout(Duration::from_millis(3000), actor.wait(None))
        .await
        .is_err()
    {
        actor.kill();
        log.push(Ev::KillIssued);
        let _ = ractor::concurrency::timeout(Duration::from_millis(3000), actor.wait(None)).await;
    }
    let _ = ractor::concurrency::timeout(Duration::from_millis(3000), waiter).await;
    // give children a moment to be torn down
    sleep(Duration::from_millis(5)).await;

    let logs = all_logs.lock().unwrap().clone();
    for (i, l) in logs.iter().enumerate() {
        // children may still be alive if the supervisor ignored/was unlinked; wait
        let mut tries = 0;
        while l.inflight.load(Ordering::SeqCst) != 0 && tries < 200 {
            sleep(Duration::from_millis(5)).await;
            tries += 1;
        }
        validate(seed, if i == 0 { "root" } else { "child" }, l)?;
    }
    Ok(())
}

fn rounds() -> u64 {
    std::env::var("C01_ROUNDS")
        .ok()
        .and_then(|s| s.parse().ok())
        .unwrap_or(300)
}

#[cfg_attr(
    not(feature = "async-std"),
    tokio::test(flavor = "multi_thread", worker_threads = 4)
)]
#[cfg_attr(feature = "async-std", async_std::test)]
async fn c01_probe_send_runtime() {
    let base: u64 = std::env::var("C01_SEED")
        .ok()
        .and_then(|s| s.parse().ok())
        .unwrap_or(1);
    let mut failures = vec![];
    for seed in base..base + rounds() {
        if let Err(e) = one_round(seed, None).await {
            failures.push(e);
            if failures.len() > 5 {
                break;
            }
        }
    }
    assert!(failures.is_empty(), "{}", failures.join("\n\n"));
}

#[cfg_attr(
    not(feature = "async-std"),
    tokio::test(flavor = "multi_thread", worker_threads = 4)
)]
#[cfg_attr(feature = "async-std", async_std::test)]
async fn c01_probe_thread_local_runtime() {
    let base: u64 = std::env::var("C01_SEED")
        .ok()
        .and_then(|s| s.parse().ok())
        .unwrap_or(1);
    let spawner = ThreadLocalActorSpawner::new();
    let mut failures = vec![];
    for seed in base..base + rounds() {
        if let Err(e) = one_round(seed, Some(spawner.clone())).await {
            failures.push(e);
            if failures.len() > 5 {
                break;
            }
        }
    }
    assert!(failures.is_empty(), "{}", failures.join("\n\n"));
}

#[allow(dead_code)]
fn _unused(_: ActorCell) {}

// ------------------------------------------------------------------ //
// Targeted deterministic scenarios

fn base_cfg(local: Option<ThreadLocalActorSpawner>) -> (Cfg, Arc<Log>) {
    let log = Arc::new(Log::default());
    (
        Cfg {
            log: log.clone(),
            all_logs: Arc::new(Mutex::new(vec![log.clone()])),
            pre: Mode::Ok,
            post_start: Mode::Ok,
            post_stop: Mode::Yield,
            sup: SupMode::Ignore,
            script: vec![],
            local_spawner: local,
        },
        log,
    )
}

async fn settle(log: &Log) {
    for _ in 0..400 {
        if log.inflight.load(Ordering::SeqCst) == 0 {
            break;
        }
        sleep(Duration::from_millis(5)).await;
    }
    sleep(Duration::from_millis(20)).await;
}

fn entered(log: &Log, cb: Cb) -> usize {
    log.evs
        .lock()
        .unwrap()
        .iter()
        .filter(|e| **e == Ev::Enter(cb))
        .count()
}

async fn scenarios(local: Option<ThreadLocalActorSpawner>) {
    // A: stop and kill both pending before the loop starts -> no post_stop
    {
        let (mut cfg, log) = base_cfg(local.clone());
        cfg.pre = Mode::Sleep;
        let (a, _h) = if let Some(sp) = local.clone() {
            <Probe as ThreadLocalActor>::spawn_instant(None, cfg, sp).unwrap()
        } else {
            ractor::ActorRuntime::<Probe>::spawn_instant(None, Probe, cfg).unwrap()
        };
        let _ = a.send_message(Msg::Do(Mode::Ok));
        a.stop(None);
        a.kill();
        log.push(Ev::KillIssued);
        a.wait(None).await.unwrap();
        settle(&log).await;
        validate(0, "A", &log).unwrap();
        assert_eq!(entered(&log, Cb::PostStop), 0, "A: {:?}", log.evs.lock().unwrap());
        assert_eq!(entered(&log, Cb::Handle), 0, "A: {:?}", log.evs.lock().unwrap());
    }
    // H: kill self from post_start (no await): no handler may run afterwards, no post_stop
    {
        let (mut cfg, log) = base_cfg(local.clone());
        cfg.script = vec![Msg::Do(Mode::Ok), Msg::SelfStop];
        // piggy back: post_start sends script then we kill from outside while it sleeps
        cfg.post_start = Mode::Sleep;
        let (a, _h) = if let Some(sp) = local.clone() {
            <Probe as ThreadLocalActor>::spawn_instant(None, cfg, sp).unwrap()
        } else {
            ractor::ActorRuntime::<Probe>::spawn_instant(None, Probe, cfg).unwrap()
        };
        while entered(&log, Cb::PostStart) == 0 {
            sleep(Duration::from_micros(100)).await;
        }
        a.kill();
        log.push(Ev::KillIssued);
        a.wait(None).await.unwrap();
        settle(&log).await;
        // (timing dependent whether the kill lands inside post_start; the grammar check is what matters)
        validate(0, "H", &log).unwrap();
    }
    // G: kill before start: no callbacks at all (or at most a cancelled pre_start)
    {
        let (cfg, log) = base_cfg(local.clone());
        let (a, h) = if let Some(sp) = local.clone() {
            <Probe as ThreadLocalActor>::spawn_instant(None, cfg, sp).unwrap()
        } else {
            ractor::ActorRuntime::<Probe>::spawn_instant(None, Probe, cfg).unwrap()
        };
        a.kill();
        let _ = h.await;
        a.wait(None).await.unwrap();
        settle(&log).await;
        // (the spawned start task races with the kill on a multi-thread executor)
        validate(0, "G", &log).unwrap();
        assert_eq!(entered(&log, Cb::PostStop), 0);
    }
    // L: supervisor killed while child is mid-handler and has queued stop: child no post_stop
    {
        let (sup_cfg, sup_log) = base_cfg(local.clone());
        let (sup, _sh) = if let Some(sp) = local.clone() {
            <Probe as ThreadLocalActor>::spawn(None, sup_cfg, sp).await.unwrap()
        } else {
            <Probe as Actor>::spawn(None, Probe, sup_cfg).await.unwrap()
        };
        let (mut cfg, log) = base_cfg(local.clone());
        cfg.script = vec![Msg::Do(Mode::Sleep), Msg::Do(Mode::Sleep)];
        let (child, _ch) = if let Some(sp) = local.clone() {
            <Probe as ThreadLocalActor>::spawn_linked(None, cfg, sup.get_cell(), sp)
                .await
                .unwrap()
        } else {
            <Probe as Actor>::spawn_linked(None, Probe, cfg, sup.get_cell())
                .await
                .unwrap()
        };
        while entered(&log, Cb::Handle) == 0 {
            sleep(Duration::from_micros(100)).await;
        }
        child.stop(None);
        sup.kill();
        child.wait(None).await.unwrap();
        sup.wait(None).await.unwrap();
        settle(&log).await;
        // NOTE: the kill of the supervisor propagates asynchronously. If the child finishes its
        // handler and picks up its own stop before the supervisor task has processed the signal,
        // the child is already `Stopping`, terminate() skips it and its post_stop runs (graceful
        // exit of the child: not a C01 violation). Only the grammar is asserted.
        validate(0, "L-child", &log).unwrap();
        validate(0, "L-sup", &sup_log).unwrap();
    }
    // C: abort the join handle mid handler
    {
        let (mut cfg, log) = base_cfg(local.clone());
        cfg.script = vec![Msg::Do(Mode::Sleep), Msg::Do(Mode::Sleep), Msg::SelfStop];
        #[allow(unused_mut)]
        let (a, mut h) = if let Some(sp) = local.clone() {
            <Probe as ThreadLocalActor>::spawn(None, cfg, sp).await.unwrap()
        } else {
            <Probe as Actor>::spawn(None, Probe, cfg).await.unwrap()
        };
        while entered(&log, Cb::Handle) == 0 {
            sleep(Duration::from_micros(100)).await;
        }
        h.abort();
        let _ = ractor::concurrency::timeout(Duration::from_millis(2000), a.wait(None)).await;
        settle(&log).await;
        validate(0, "C", &log).unwrap();
        assert_eq!(entered(&log, Cb::PostStop), 0, "C: {:?}", log.evs.lock().unwrap());
    }
    // E: spawn future abandoned mid pre_start
    {
        let (mut cfg, log) = base_cfg(local.clone());
        cfg.pre = Mode::Sleep;
        cfg.script = vec![Msg::Do(Mode::Ok)];
        let l2 = local.clone();
        let fut = async move {
            if let Some(sp) = l2 {
                let _ = <Probe as ThreadLocalActor>::spawn(None, cfg, sp).await;
            } else {
                let _ = <Probe as Actor>::spawn(None, Probe, cfg).await;
            }
        };
        let _ = ractor::concurrency::timeout(Duration::from_micros(700), fut).await;
        settle(&log).await;
        sleep(Duration::from_millis(30)).await;
        validate(0, "E", &log).unwrap();
        eprintln!("E log: {:?}", log.evs.lock().unwrap());
    }
    // F: supervisor dies during child's pre_start
    {
        let (sup_cfg, _sup_log) = base_cfg(local.clone());
        let (sup, _sh) = if let Some(sp) = local.clone() {
            <Probe as ThreadLocalActor>::spawn(None, sup_cfg, sp).await.unwrap()
        } else {
            <Probe as Actor>::spawn(None, Probe, sup_cfg).await.unwrap()
        };
        let (mut cfg, log) = base_cfg(local.clone());
        cfg.pre = Mode::Sleep;
        let sup2 = sup.clone();
        let l2 = local.clone();
        let jh = ractor::concurrency::spawn(async move {
            if let Some(sp) = l2 {
                <Probe as ThreadLocalActor>::spawn_linked(None, cfg, sup2.get_cell(), sp)
                    .await
                    .is_ok()
            } else {
                <Probe as Actor>::spawn_linked(None, Probe, cfg, sup2.get_cell())
                    .await
                    .is_ok()
            }
        });
        while entered(&log, Cb::PreStart) == 0 {
            sleep(Duration::from_micros(50)).await;
        }
        sup.stop(None);
        sup.wait(None).await.unwrap();
        let ok = jh.await;
        settle(&log).await;
        sleep(Duration::from_millis(50)).await;
        validate(0, "F", &log).unwrap();
        eprintln!("F spawn ok = {ok:?} log: {:?}", log.evs.lock().unwrap());
    }
}

#[cfg_attr(
    not(feature = "async-std"),
    tokio::test(flavor = "multi_thread", worker_threads = 4)
)]
#[cfg_attr(feature = "async-std", async_std::test)]
async fn c01_scenarios_send() {
    scenarios(None).await;
}

#[cfg_attr(
    not(feature = "async-std"),
    tokio::test(flavor = "multi_thread", worker_threads = 4)
)]
#[cfg_attr(feature = "async-std", async_std::test)]
async fn c01_scenarios_thread_local() {
    scenarios(Some(ThreadLocalActorSpawner::new())).await;
}

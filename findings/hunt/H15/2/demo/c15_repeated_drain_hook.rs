// Demonstration for property C15 (factory capacity controls: draining / lifecycle hooks).
//
// Clause under test:
//   "after DrainRequests new jobs are refused, all previously accepted jobs finish, the
//    factory then stops, and the lifecycle hooks run in the order started, draining, stopped"
//   MUST HOLD for "... every moment at which draining is requested".
//
// History: a factory with one busy worker is asked to drain; while it is still draining
// (the accepted job has not finished yet) draining is requested a second time (e.g. by a
// second shutdown path of the application). Then the job finishes and the factory stops.
//
// Expected hook sequence: started, draining, stopped
// Actual               : started, draining, draining, stopped
//
// `FactoryState::drain_requests` unconditionally sets `drain_state = Draining` and calls
// `on_factory_draining` again, whatever the current drain state is (it would even move a
// `Drained` factory back to `Draining`).

use std::sync::{Arc, Mutex};
use std::time::Duration;

use ractor::factory::*;
use ractor::{Actor, ActorProcessingErr, ActorRef};
use tokio::sync::{mpsc, Notify};

#[derive(Debug)]
struct Gated(Arc<Notify>);
#[cfg(feature = "cluster")]
impl ractor::Message for Gated {}

struct GateWorker {
    started: mpsc::UnboundedSender<u64>,
}

#[cfg_attr(feature = "async-trait", ractor::async_trait)]
impl Worker for GateWorker {
    type Key = u64;
    type Message = Gated;
    type State = ();
    type Arguments = ();

    async fn pre_start(
        &self,
        _wid: WorkerId,
        _factory: &ActorRef<FactoryMessage<u64, Gated>>,
        _: (),
    ) -> Result<(), ActorProcessingErr> {
        Ok(())
    }

    async fn handle(
        &self,
        _wid: WorkerId,
        _factory: &ActorRef<FactoryMessage<u64, Gated>>,
        Job { key, msg, .. }: Job<u64, Gated>,
        _state: &mut (),
    ) -> Result<u64, ActorProcessingErr> {
        let _ = self.started.send(key);
        msg.0.notified().await;
        Ok(key)
    }
}

struct Hooks(Arc<Mutex<Vec<&'static str>>>);

#[cfg_attr(feature = "async-trait", ractor::async_trait)]
impl FactoryLifecycleHooks<u64, Gated> for Hooks {
    #[cfg(feature = "async-trait")]
    async fn on_factory_started(
        &self,
        _f: ActorRef<FactoryMessage<u64, Gated>>,
    ) -> Result<(), ActorProcessingErr> {
        self.0.lock().unwrap().push("started");
        Ok(())
    }
    #[cfg(feature = "async-trait")]
    async fn on_factory_stopped(&self) -> Result<(), ActorProcessingErr> {
        self.0.lock().unwrap().push("stopped");
        Ok(())
    }
    #[cfg(feature = "async-trait")]
    async fn on_factory_draining(
        &self,
        _f: ActorRef<FactoryMessage<u64, Gated>>,
    ) -> Result<(), ActorProcessingErr> {
        self.0.lock().unwrap().push("draining");
        Ok(())
    }

    #[cfg(not(feature = "async-trait"))]
    fn on_factory_started(
        &self,
        _f: ActorRef<FactoryMessage<u64, Gated>>,
    ) -> futures::future::BoxFuture<'_, Result<(), ActorProcessingErr>> {
        self.0.lock().unwrap().push("started");
        Box::pin(async { Ok(()) })
    }
    #[cfg(not(feature = "async-trait"))]
    fn on_factory_stopped(&self) -> futures::future::BoxFuture<'_, Result<(), ActorProcessingErr>> {
        self.0.lock().unwrap().push("stopped");
        Box::pin(async { Ok(()) })
    }
    #[cfg(not(feature = "async-trait"))]
    fn on_factory_draining(
        &self,
        _f: ActorRef<FactoryMessage<u64, Gated>>,
    ) -> futures::future::BoxFuture<'_, Result<(), ActorProcessingErr>> {
        self.0.lock().unwrap().push("draining");
        Box::pin(async { Ok(()) })
    }
}

type TestFactory =
    Factory<u64, Gated, (), GateWorker, routing::QueuerRouting<u64, Gated>, queues::DefaultQueue<u64, Gated>>;

#[tokio::test(flavor = "multi_thread", worker_threads = 2)]
async fn draining_hook_runs_once_when_draining_is_requested_again_while_draining() {
    let (tx, mut started) = mpsc::unbounded_channel();
    let log = Arc::new(Mutex::new(Vec::new()));
    let args = FactoryArguments::builder()
        .worker_builder(Box::new(worker_builder(move |_wid| {
            (GateWorker { started: tx.clone() }, ())
        })))
        .num_initial_workers(1)
        .router(routing::QueuerRouting::default())
        .queue(queues::DefaultQueue::default())
        .lifecycle_hooks(Box::new(Hooks(log.clone())) as Box<dyn FactoryLifecycleHooks<u64, Gated>>)
        .build();
    let (factory, handle) = Actor::spawn(None, TestFactory::default(), args)
        .await
        .expect("factory failed to start");

    // one accepted job keeps the factory in the draining state
    let gate = Arc::new(Notify::new());
    factory
        .cast(FactoryMessage::Dispatch(Job::new(1, Gated(gate.clone()))))
        .unwrap();
    let key = tokio::time::timeout(Duration::from_secs(5), started.recv())
        .await
        .expect("job never started")
        .unwrap();
    assert_eq!(key, 1);

    // draining is requested, and requested again while still draining
    factory.cast(FactoryMessage::DrainRequests).unwrap();
    factory.cast(FactoryMessage::DrainRequests).unwrap();
    // both requests are processed (sync point), the factory is still alive and draining
    let depth = factory
        .call(FactoryMessage::GetQueueDepth, Some(Duration::from_secs(5)))
        .await
        .unwrap()
        .unwrap();
    assert_eq!(depth, 0);

    // the accepted job finishes => the factory stops
    gate.notify_one();
    tokio::time::timeout(Duration::from_secs(5), handle)
        .await
        .expect("factory did not stop after draining")
        .unwrap();

    let hooks = log.lock().unwrap().clone();
    assert_eq!(
        hooks,
        vec!["started", "draining", "stopped"],
        "lifecycle hooks must run in the order started, draining, stopped"
    );
}

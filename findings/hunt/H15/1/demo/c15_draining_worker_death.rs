// Demonstration for property C15 (factory capacity controls: pool size).
//
// Clause under test:
//   "After any sequence of resize requests the set of live workers converges to the
//    last requested non-zero size with dead workers replaced"
//   MUST HOLD for "... resize sequence interleaved with busy workers and worker deaths".
//
// History:
//   1. factory with 2 workers (wid 0 and wid 1), both made busy with a gated job
//   2. AdjustWorkerPool(1)   -> wid 1 is busy, so it is only *marked* draining
//   3. the job on wid 1 fails -> the worker actor of wid 1 dies
//   4. the job on wid 0 completes normally
//
// Expected: the factory converges to exactly 1 live worker (wid 0).
// Actual  : `Factory::handle_supervisor_evt` re-spawns the dead wid 1 although it is outside
//           of the requested pool, keeps it in the pool marked `is_draining`, and nothing
//           ever removes it again (a draining worker is only dropped from
//           `worker_finished_job`, i.e. after it *finishes* a job). The factory keeps 2 live
//           workers forever, and with the queueing routers the resurrected worker is even
//           advertised as available so it takes new jobs => concurrency 2 with pool size 1.

use std::sync::atomic::{AtomicUsize, Ordering};
use std::sync::Arc;
use std::time::Duration;

use ractor::factory::*;
use ractor::{Actor, ActorProcessingErr, ActorRef};
use tokio::sync::{mpsc, Notify};

#[derive(Debug)]
struct Gated {
    /// released by the test when the job may complete
    gate: Arc<Notify>,
    /// complete with an error (kills the worker actor) instead of Ok
    fail: bool,
}
#[cfg(feature = "cluster")]
impl ractor::Message for Gated {}

#[derive(Debug, Clone, Copy, PartialEq, Eq)]
enum Ev {
    Started(WorkerId, u64),
    Done(WorkerId, u64),
}

struct GateWorker {
    events: mpsc::UnboundedSender<Ev>,
}

#[cfg_attr(feature = "async-trait", ractor::async_trait)]
impl Worker for GateWorker {
    type Key = u64;
    type Message = Gated;
    type State = ();
    type Arguments = ();

    async fn pre_start(
        &self,
        _wid: WorkerId,
        _factory: &ActorRef<FactoryMessage<u64, Gated>>,
        _: (),
    ) -> Result<(), ActorProcessingErr> {
        Ok(())
    }

    async fn handle(
        &self,
        wid: WorkerId,
        _factory: &ActorRef<FactoryMessage<u64, Gated>>,
        Job { key, msg, .. }: Job<u64, Gated>,
        _state: &mut (),
    ) -> Result<u64, ActorProcessingErr> {
        let _ = self.events.send(Ev::Started(wid, key));
        msg.gate.notified().await;
        if msg.fail {
            return Err(From::from("job failed, worker dies"));
        }
        let _ = self.events.send(Ev::Done(wid, key));
        Ok(key)
    }
}

type TestFactory =
    Factory<u64, Gated, (), GateWorker, routing::QueuerRouting<u64, Gated>, queues::DefaultQueue<u64, Gated>>;

async fn next(rx: &mut mpsc::UnboundedReceiver<Ev>) -> Ev {
    tokio::time::timeout(Duration::from_secs(5), rx.recv())
        .await
        .expect("timed out waiting for a worker event")
        .expect("event channel closed")
}

/// Sync point: once this returns the factory has processed everything sent to it before.
async fn barrier(factory: &ActorRef<FactoryMessage<u64, Gated>>) {
    let _ = factory
        .call(FactoryMessage::GetQueueDepth, Some(Duration::from_secs(5)))
        .await
        .expect("factory call failed");
}

struct Setup {
    factory: ActorRef<FactoryMessage<u64, Gated>>,
    handle: ractor::concurrency::JoinHandle<()>,
    events: mpsc::UnboundedReceiver<Ev>,
    builds: Arc<AtomicUsize>,
}

/// Runs steps 1-4 of the history and returns once the factory has (a) processed the death of the
/// draining worker wid 1 and (b) seen wid 0 finish its job.
async fn shrink_then_kill_the_draining_worker() -> Setup {
    let (tx, mut rx) = mpsc::unbounded_channel();
    let builds = Arc::new(AtomicUsize::new(0));
    let b = builds.clone();
    let args = FactoryArguments::builder()
        .worker_builder(Box::new(worker_builder(move |_wid| {
            b.fetch_add(1, Ordering::SeqCst);
            (GateWorker { events: tx.clone() }, ())
        })))
        .num_initial_workers(2)
        .router(routing::QueuerRouting::default())
        .queue(queues::DefaultQueue::default())
        .build();
    let (factory, handle) = Actor::spawn(None, TestFactory::default(), args)
        .await
        .expect("factory failed to start");
    assert_eq!(factory.get_children().len(), 2);

    // 1. make both workers busy
    let gates = [Arc::new(Notify::new()), Arc::new(Notify::new())];
    let mut wid_of_job = [usize::MAX; 2];
    for (k, _) in gates.iter().enumerate() {
        // we do not know yet which job lands on wid 1, so `fail` is decided through
        // which gate/job we release later: job k fails iff it sits on wid 1. To do so
        // dispatch first, look at where it landed, and only the job on wid 1 is built failing.
        // (QueuerRouting hands out workers in FIFO order: job 0 -> wid 0, job 1 -> wid 1.)
        factory
            .cast(FactoryMessage::Dispatch(Job::new(
                k as u64,
                Gated {
                    gate: gates[k].clone(),
                    fail: k == 1,
                },
            )))
            .unwrap();
        match next(&mut rx).await {
            Ev::Started(wid, key) => {
                assert_eq!(key, k as u64);
                wid_of_job[k] = wid;
            }
            other => panic!("unexpected {other:?}"),
        }
    }
    assert_eq!(wid_of_job, [0, 1], "FIFO worker hand-out of QueuerRouting");

    // 2. shrink to 1 while wid 1 is busy
    factory.cast(FactoryMessage::AdjustWorkerPool(1)).unwrap();
    barrier(&factory).await;
    assert_eq!(builds.load(Ordering::SeqCst), 2);

    // 3. the (draining) wid 1 dies in its job
    gates[1].notify_one();
    // wait until the factory handled the death (it (wrongly) builds a replacement; with a
    // repaired factory no replacement is built, so also accept "wid 1 is gone").
    let deadline = tokio::time::Instant::now() + Duration::from_secs(5);
    loop {
        barrier(&factory).await;
        let replaced = builds.load(Ordering::SeqCst) > 2;
        let gone = factory.get_children().len() < 2;
        if replaced || gone {
            break;
        }
        assert!(tokio::time::Instant::now() < deadline, "worker death never observed");
        tokio::time::sleep(Duration::from_millis(10)).await;
    }

    // 4. wid 0 finishes normally
    gates[0].notify_one();
    assert_eq!(next(&mut rx).await, Ev::Done(0, 0));
    barrier(&factory).await;

    Setup {
        factory,
        handle,
        events: rx,
        builds,
    }
}

#[tokio::test(flavor = "multi_thread", worker_threads = 2)]
async fn live_workers_converge_to_requested_size_when_a_draining_worker_dies() {
    let Setup {
        factory,
        handle,
        builds,
        ..
    } = shrink_then_kill_the_draining_worker().await;

    // Nothing is in flight any more: no queued job, no busy worker, no pending resize.
    // Give the factory plenty of time (several Calculate / DoPings rounds) to converge.
    let mut live = usize::MAX;
    for _ in 0..60 {
        barrier(&factory).await;
        live = factory.get_children().len();
        if live == 1 {
            break;
        }
        tokio::time::sleep(Duration::from_millis(50)).await;
    }
    let built = builds.load(Ordering::SeqCst);

    factory.stop(None);
    handle.await.unwrap();

    assert_eq!(
        live, 1,
        "last requested pool size is 1, but the factory still supervises {live} live workers \
         ({built} workers were built in total: the draining worker that died was resurrected \
         and is never removed)"
    );
}

#[tokio::test(flavor = "multi_thread", worker_threads = 2)]
async fn resurrected_draining_worker_does_not_add_capacity_beyond_the_requested_size() {
    let Setup {
        factory,
        handle,
        mut events,
        ..
    } = shrink_then_kill_the_draining_worker().await;

    // Pool size is 1: two concurrently submitted gated jobs must not run at the same time.
    let g = [Arc::new(Notify::new()), Arc::new(Notify::new())];
    for (i, gate) in g.iter().enumerate() {
        factory
            .cast(FactoryMessage::Dispatch(Job::new(
                10 + i as u64,
                Gated {
                    gate: gate.clone(),
                    fail: false,
                },
            )))
            .unwrap();
    }
    barrier(&factory).await;
    let first = next(&mut events).await;
    // with 1 worker the second job has to wait in the queue until we open the first gate
    let second = tokio::time::timeout(Duration::from_millis(500), events.recv()).await;
    let queue_depth = factory
        .call(FactoryMessage::GetQueueDepth, Some(Duration::from_secs(5)))
        .await
        .unwrap()
        .unwrap();
    let active = factory
        .call(FactoryMessage::GetNumActiveWorkers, Some(Duration::from_secs(5)))
        .await
        .unwrap()
        .unwrap();

    g[0].notify_one();
    g[1].notify_one();
    factory.stop(None);
    handle.await.unwrap();

    assert!(
        matches!(first, Ev::Started(_, 10)) && second.is_err() && active == 1 && queue_depth == 1,
        "pool size 1 but {active} workers are processing jobs concurrently \
         (first event = {first:?}, second event = {second:?}, queue depth = {queue_depth})"
    );
}

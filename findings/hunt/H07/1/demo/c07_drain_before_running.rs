// Demonstration for property C07 ("Drain processes everything accepted and admits
// nothing afterwards").
//
// A drain() that is issued BEFORE the actor's processing loop is up (status
// Unstarted or Starting) must behave like any other drain: the messages whose
// send returned Ok are handled, later sends are refused, and the actor stops by
// itself with reason "Drained".
//
// On the unmodified tree:
//   * D1/D2: drain() on an Unstarted actor (handed out by `spawn_instant`) makes
//     `start()` bail out with `SpawnErr::ActorAlreadyStarted`; the accepted message
//     is thrown away and the actor never runs (no "Drained" exit).
//   * D3: drain() while a *linked* actor of the Send runtime is in `pre_start`
//     makes `start()` bail out with StartupFailed("Supervisor is shutting down"),
//     because `SupervisionTree::link` refuses a child whose status is Draining.
//     The thread-local twin (C1) links before `pre_start` and is not affected.
//
// Copy to ractor/tests/ and run:
//   cargo test -p ractor --offline -j4 --test c07_drain_before_running -- --test-threads 4

use std::sync::atomic::{AtomicBool, Ordering};
use std::sync::{Arc, Mutex};
use std::time::Duration;

use ractor::thread_local::{ThreadLocalActor, ThreadLocalActorSpawner};
use ractor::{Actor, ActorRuntime, ActorProcessingErr, ActorRef, ActorStatus, MessagingErr, SupervisionEvent};
use tokio::sync::Notify;

const WAIT: Duration = Duration::from_secs(5);

#[derive(Default, Clone)]
struct Probe {
    handled: Arc<Mutex<Vec<u32>>>,
    post_stop: Arc<AtomicBool>,
    /// pre_start announces itself here ...
    entered: Arc<Notify>,
    /// ... and waits here (only when `gate` is set)
    release: Arc<Notify>,
    gate: bool,
}

// ---------------------------------------------------------------- Send runtime

struct Worker;

#[cfg_attr(feature = "async-trait", ractor::async_trait)]
impl Actor for Worker {
    type Msg = u32;
    type State = Probe;
    type Arguments = Probe;

    async fn pre_start(
        &self,
        _: ActorRef<Self::Msg>,
        probe: Probe,
    ) -> Result<Self::State, ActorProcessingErr> {
        if probe.gate {
            probe.entered.notify_one();
            probe.release.notified().await;
        }
        Ok(probe)
    }

    async fn handle(
        &self,
        _: ActorRef<Self::Msg>,
        msg: u32,
        state: &mut Probe,
    ) -> Result<(), ActorProcessingErr> {
        state.handled.lock().unwrap().push(msg);
        Ok(())
    }

    async fn post_stop(
        &self,
        _: ActorRef<Self::Msg>,
        state: &mut Probe,
    ) -> Result<(), ActorProcessingErr> {
        state.post_stop.store(true, Ordering::SeqCst);
        Ok(())
    }
}

// ------------------------------------------------------- thread-local runtime

#[derive(Default)]
struct LocalWorker;

impl ThreadLocalActor for LocalWorker {
    type Msg = u32;
    type State = Probe;
    type Arguments = Probe;

    async fn pre_start(
        &self,
        _: ActorRef<Self::Msg>,
        probe: Probe,
    ) -> Result<Self::State, ActorProcessingErr> {
        if probe.gate {
            probe.entered.notify_one();
            probe.release.notified().await;
        }
        Ok(probe)
    }

    async fn handle(
        &self,
        _: ActorRef<Self::Msg>,
        msg: u32,
        state: &mut Probe,
    ) -> Result<(), ActorProcessingErr> {
        state.handled.lock().unwrap().push(msg);
        Ok(())
    }

    async fn post_stop(
        &self,
        _: ActorRef<Self::Msg>,
        state: &mut Probe,
    ) -> Result<(), ActorProcessingErr> {
        state.post_stop.store(true, Ordering::SeqCst);
        Ok(())
    }
}

// ------------------------------------------------------------------ supervisor

/// Records the exit reasons of its children
struct Supervisor;

#[cfg_attr(feature = "async-trait", ractor::async_trait)]
impl Actor for Supervisor {
    type Msg = ();
    type State = Arc<Mutex<Vec<String>>>;
    type Arguments = Arc<Mutex<Vec<String>>>;

    async fn pre_start(
        &self,
        _: ActorRef<Self::Msg>,
        log: Self::Arguments,
    ) -> Result<Self::State, ActorProcessingErr> {
        Ok(log)
    }

    async fn handle_supervisor_evt(
        &self,
        _: ActorRef<Self::Msg>,
        evt: SupervisionEvent,
        log: &mut Self::State,
    ) -> Result<(), ActorProcessingErr> {
        match evt {
            SupervisionEvent::ActorTerminated(_, _, reason) => log
                .lock()
                .unwrap()
                .push(format!("terminated:{}", reason.unwrap_or_default())),
            SupervisionEvent::ActorFailed(_, err) => {
                log.lock().unwrap().push(format!("failed:{err}"))
            }
            _ => {}
        }
        Ok(())
    }
}

// --------------------------------------------------------------------- helpers

/// what every drain promises the caller, whatever the status of the actor was
fn assert_admission_closed(actor: &ActorRef<u32>) {
    match actor.send_message(99) {
        Err(MessagingErr::SendErr(99)) => {}
        other => panic!("a send after drain() returned must hand the message back, got {other:?}"),
    }
}

async fn settle(actor: &ActorRef<u32>) {
    tokio::time::timeout(WAIT, actor.wait(None))
        .await
        .expect("a drain must never leave the actor alive forever")
        .unwrap();
    assert_eq!(ActorStatus::Stopped, actor.get_status());
}

// ----------------------------------------------------------------------- D1/D2

/// D1: Send runtime, drain while Unstarted
#[tokio::test]
async fn d1_send_runtime_drain_while_unstarted() {
    let probe = Probe::default();
    // current-thread runtime: the startup task cannot run before the first await below
    let (actor, startup) =
        ActorRuntime::<Worker>::spawn_instant(None, Worker, probe.clone()).expect("failed to create the actor");
    assert_eq!(ActorStatus::Unstarted, actor.get_status());

    actor.send_message(1).expect("the send is accepted (Ok)");
    actor.drain().expect("drain is accepted (Ok)");
    assert_admission_closed(&actor);

    let started = tokio::time::timeout(WAIT, startup)
        .await
        .expect("startup hangs")
        .expect("startup task panicked");
    settle(&actor).await;

    assert_eq!(
        vec![1u32],
        *probe.handled.lock().unwrap(),
        "the message whose send returned Ok before drain() was never handled (startup result: {:?})",
        started.as_ref().map(|_| ())
    );
    assert!(
        probe.post_stop.load(Ordering::SeqCst),
        "the actor did not go through a regular (Drained) stop"
    );
    assert!(started.is_ok(), "drain() made the startup fail: {started:?}");
}

/// D2: thread-local twin of D1
#[tokio::test]
async fn d2_thread_local_drain_while_unstarted() {
    let probe = Probe::default();
    let (actor, startup) =
        LocalWorker::spawn_instant(None, probe.clone(), ThreadLocalActorSpawner::new())
            .expect("failed to create the actor");
    assert_eq!(ActorStatus::Unstarted, actor.get_status());

    actor.send_message(1).expect("the send is accepted (Ok)");
    actor.drain().expect("drain is accepted (Ok)");
    assert_admission_closed(&actor);

    let started = tokio::time::timeout(WAIT, startup)
        .await
        .expect("startup hangs")
        .expect("startup task panicked");
    settle(&actor).await;

    assert_eq!(
        vec![1u32],
        *probe.handled.lock().unwrap(),
        "the message whose send returned Ok before drain() was never handled (startup result: {:?})",
        started.as_ref().map(|_| ())
    );
    assert!(
        probe.post_stop.load(Ordering::SeqCst),
        "the actor did not go through a regular (Drained) stop"
    );
    assert!(started.is_ok(), "drain() made the startup fail: {started:?}");
}

// -------------------------------------------------------------------------- D3

/// D3: Send runtime, linked spawn, drain while the actor is inside pre_start (Starting)
#[tokio::test]
async fn d3_send_runtime_linked_drain_during_pre_start() {
    let log = Arc::new(Mutex::new(Vec::new()));
    let (sup, sup_handle) = Actor::spawn(None, Supervisor, log.clone())
        .await
        .expect("supervisor failed to start");

    let probe = Probe {
        gate: true,
        ..Default::default()
    };
    let (actor, startup) =
        ActorRuntime::<Worker>::spawn_linked_instant(None, Worker, probe.clone(), sup.get_cell())
            .expect("failed to create the actor");

    tokio::time::timeout(WAIT, probe.entered.notified())
        .await
        .expect("pre_start never ran");
    assert_eq!(ActorStatus::Starting, actor.get_status());

    actor.send_message(1).expect("the send is accepted (Ok)");
    actor.drain().expect("drain is accepted (Ok)");
    assert_admission_closed(&actor);
    probe.release.notify_one();

    let started = tokio::time::timeout(WAIT, startup)
        .await
        .expect("startup hangs")
        .expect("startup task panicked");
    settle(&actor).await;
    // let the supervisor work off its supervision port
    tokio::time::sleep(Duration::from_millis(100)).await;

    let reasons = log.lock().unwrap().clone();
    sup.stop(None);
    sup_handle.await.unwrap();

    assert_eq!(
        vec![1u32],
        *probe.handled.lock().unwrap(),
        "the message whose send returned Ok before drain() was never handled (startup result: {:?})",
        started.as_ref().map(|_| ())
    );
    assert_eq!(
        vec!["terminated:Drained".to_string()],
        reasons,
        "the actor must stop exactly once with reason \"Drained\""
    );
    assert!(started.is_ok(), "drain() made the startup fail: {started:?}");
}

// -------------------------------------------------------------------- controls

/// C1: thread-local twin of D3 -- passes on the unmodified tree, the thread-local
/// runtime links to the supervisor before it runs pre_start
#[tokio::test]
async fn c1_thread_local_linked_drain_during_pre_start() {
    let log = Arc::new(Mutex::new(Vec::new()));
    let (sup, sup_handle) = Actor::spawn(None, Supervisor, log.clone())
        .await
        .expect("supervisor failed to start");

    let probe = Probe {
        gate: true,
        ..Default::default()
    };
    let (actor, startup) = LocalWorker::spawn_linked_instant(
        None,
        probe.clone(),
        sup.get_cell(),
        ThreadLocalActorSpawner::new(),
    )
    .expect("failed to create the actor");

    tokio::time::timeout(WAIT, probe.entered.notified())
        .await
        .expect("pre_start never ran");
    assert_eq!(ActorStatus::Starting, actor.get_status());

    actor.send_message(1).expect("the send is accepted (Ok)");
    actor.drain().expect("drain is accepted (Ok)");
    assert_admission_closed(&actor);
    probe.release.notify_one();

    let started = tokio::time::timeout(WAIT, startup)
        .await
        .expect("startup hangs")
        .expect("startup task panicked");
    settle(&actor).await;
    tokio::time::sleep(Duration::from_millis(100)).await;

    let reasons = log.lock().unwrap().clone();
    sup.stop(None);
    sup_handle.await.unwrap();

    assert_eq!(vec![1u32], *probe.handled.lock().unwrap());
    assert_eq!(vec!["terminated:Drained".to_string()], reasons);
    assert!(started.is_ok());
}

/// C2: Send runtime, NOT linked, drain during pre_start -- passes on the unmodified tree
#[tokio::test]
async fn c2_send_runtime_unlinked_drain_during_pre_start() {
    let probe = Probe {
        gate: true,
        ..Default::default()
    };
    let (actor, startup) =
        ActorRuntime::<Worker>::spawn_instant(None, Worker, probe.clone()).expect("failed to create the actor");

    tokio::time::timeout(WAIT, probe.entered.notified())
        .await
        .expect("pre_start never ran");
    assert_eq!(ActorStatus::Starting, actor.get_status());

    actor.send_message(1).expect("the send is accepted (Ok)");
    actor.drain().expect("drain is accepted (Ok)");
    assert_admission_closed(&actor);
    probe.release.notify_one();

    let started = tokio::time::timeout(WAIT, startup)
        .await
        .expect("startup hangs")
        .expect("startup task panicked");
    settle(&actor).await;

    assert_eq!(vec![1u32], *probe.handled.lock().unwrap());
    assert!(probe.post_stop.load(Ordering::SeqCst));
    assert!(started.is_ok());
}

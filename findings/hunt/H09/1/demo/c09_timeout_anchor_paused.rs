//! C09 demonstration (virtual clock): the timeout of `call_and_forward` and `multi_call`
//! is not measured from the request.
//!
//! `call` arms its timer in the same poll that sends the request, so a caller that asked
//! for a timeout T has its answer at T. `call_and_forward` and `multi_call` (tokio
//! primitives) hand the reply receiver to a freshly spawned task and only arm the timer
//! when that task is polled for the first time; whatever time passes between the request
//! and that first poll is added on top of T.
//!
//! Needs tokio's paused clock:
//!   cargo test -p ractor --offline -j4 -F tokio/test-util --test c09_timeout_anchor_paused -- --test-threads 4

use std::time::Duration;

use ractor::rpc::CallResult;
use ractor::{Actor, ActorProcessingErr, ActorRef, RpcReplyPort};

/// A callee which keeps every reply port and never answers ("twice-never")
struct Silent;

enum Msg {
    Never(RpcReplyPort<u64>),
}
#[cfg(feature = "cluster")]
impl ractor::Message for Msg {}

#[cfg_attr(feature = "async-trait", ractor::async_trait)]
impl Actor for Silent {
    type Msg = Msg;
    type State = Vec<RpcReplyPort<u64>>;
    type Arguments = ();
    async fn pre_start(&self, _: ActorRef<Msg>, _: ()) -> Result<Self::State, ActorProcessingErr> {
        Ok(vec![])
    }
    async fn handle(
        &self,
        _: ActorRef<Msg>,
        m: Msg,
        s: &mut Self::State,
    ) -> Result<(), ActorProcessingErr> {
        match m {
            Msg::Never(r) => s.push(r),
        }
        Ok(())
    }
}

struct Sink;
#[cfg_attr(feature = "async-trait", ractor::async_trait)]
impl Actor for Sink {
    type Msg = u64;
    type State = ();
    type Arguments = ();
    async fn pre_start(&self, _: ActorRef<u64>, _: ()) -> Result<(), ActorProcessingErr> {
        Ok(())
    }
}

const T: Duration = Duration::from_millis(100);
const LATER: Duration = Duration::from_millis(150);

async fn settle() {
    for _ in 0..20 {
        tokio::task::yield_now().await;
    }
}

/// Control: `call` does give its answer by T. PASSES on the unmodified tree.
#[tokio::test(start_paused = true)]
async fn control_call_answers_by_t() {
    let (a, h) = Actor::spawn(None, Silent, ()).await.unwrap();
    let a2 = a.clone();
    let mut fut = Box::pin(async move { a2.call(Msg::Never, Some(T)).await });
    // the request is issued at virtual time t0
    assert!(futures::poll!(&mut fut).is_pending());
    tokio::time::advance(LATER).await;
    settle().await;
    match futures::poll!(&mut fut) {
        std::task::Poll::Ready(Ok(CallResult::Timeout)) => {}
        other => panic!("expected Timeout at t0+150ms for a 100ms call, got {other:?}"),
    }
    a.stop(None);
    h.await.unwrap();
}

/// FAILS on the unmodified tree: 150ms after a request with a 100ms timeout the
/// forwarding task still has not produced its `Timeout`.
#[tokio::test(start_paused = true)]
async fn call_and_forward_answers_by_t() {
    let (a, h) = Actor::spawn(None, Silent, ()).await.unwrap();
    let (s, sh) = Actor::spawn(None, Sink, ()).await.unwrap();

    // the request is issued (message queued) right here, at virtual time t0
    let jh = a
        .call_and_forward(Msg::Never, &s, |v: u64| v, Some(T))
        .unwrap();
    tokio::time::advance(LATER).await;
    settle().await;

    let finished = jh.is_finished();
    a.stop(None);
    s.stop(None);
    h.await.unwrap();
    sh.await.unwrap();
    assert!(
        finished,
        "call_and_forward(timeout = 100ms) has no answer 150ms after the request"
    );
    assert!(matches!(jh.await.unwrap(), CallResult::Timeout));
}

/// FAILS on the unmodified tree: same for `multi_call`.
#[tokio::test(start_paused = true)]
async fn multi_call_answers_by_t() {
    let (a, h) = Actor::spawn(None, Silent, ()).await.unwrap();
    let actors = [a.clone()];
    let mut fut = Box::pin(ractor::rpc::multi_call(&actors, Msg::Never, Some(T)));
    // first poll: the requests are sent at virtual time t0
    assert!(futures::poll!(&mut fut).is_pending());
    tokio::time::advance(LATER).await;
    settle().await;

    let polled = futures::poll!(&mut fut);
    let ready = polled.is_ready();
    drop(fut);
    a.stop(None);
    h.await.unwrap();
    assert!(
        ready,
        "multi_call(timeout = 100ms) has no answer 150ms after the request"
    );
}

//! C09 demonstration (real clock, no extra cargo feature): the timeout of
//! `call_and_forward` and `multi_call` starts when the spawned waiting task is first
//! polled, not when the request is made. If the executor is busy between the two
//! (here: the only runtime thread is held for 300ms right after the request), the
//! caller of a 200ms-timeout request has no answer after 300ms; the answer only comes at
//! busy-time + 200ms. `call` in the same situation answers `Timeout` immediately.
//!
//!   cargo test -p ractor --offline -j4 --test c09_timeout_anchor_realtime -- --test-threads 4

use std::time::Duration;
use std::time::Instant;

use ractor::rpc::CallResult;
use ractor::{Actor, ActorProcessingErr, ActorRef, RpcReplyPort};

struct Silent;

enum Msg {
    Never(RpcReplyPort<u64>),
}
#[cfg(feature = "cluster")]
impl ractor::Message for Msg {}

#[cfg_attr(feature = "async-trait", ractor::async_trait)]
impl Actor for Silent {
    type Msg = Msg;
    type State = Vec<RpcReplyPort<u64>>;
    type Arguments = ();
    async fn pre_start(&self, _: ActorRef<Msg>, _: ()) -> Result<Self::State, ActorProcessingErr> {
        Ok(vec![])
    }
    async fn handle(
        &self,
        _: ActorRef<Msg>,
        m: Msg,
        s: &mut Self::State,
    ) -> Result<(), ActorProcessingErr> {
        match m {
            Msg::Never(r) => s.push(r),
        }
        Ok(())
    }
}

struct Sink;
#[cfg_attr(feature = "async-trait", ractor::async_trait)]
impl Actor for Sink {
    type Msg = u64;
    type State = ();
    type Arguments = ();
    async fn pre_start(&self, _: ActorRef<u64>, _: ()) -> Result<(), ActorProcessingErr> {
        Ok(())
    }
}

const T: Duration = Duration::from_millis(200);
const BUSY: Duration = Duration::from_millis(300);
/// generous allowance for a loaded machine
const SLACK: Duration = Duration::from_millis(100);

/// Control: PASSES on the unmodified tree.
#[tokio::test(flavor = "current_thread")]
async fn control_call_answers_by_t() {
    let (a, h) = Actor::spawn(None, Silent, ()).await.unwrap();
    let a2 = a.clone();
    let start = Instant::now();
    let mut fut = Box::pin(async move { a2.call(Msg::Never, Some(T)).await });
    assert!(futures::poll!(&mut fut).is_pending());
    std::thread::sleep(BUSY); // the executor is busy
    let r = fut.await.unwrap();
    let elapsed = start.elapsed();
    assert!(matches!(r, CallResult::Timeout));
    assert!(
        elapsed < BUSY + SLACK,
        "call(timeout=200ms) answered after {elapsed:?}"
    );
    a.stop(None);
    h.await.unwrap();
}

/// FAILS on the unmodified tree (answer comes ~500ms after the request).
#[tokio::test(flavor = "current_thread")]
async fn call_and_forward_answers_by_t() {
    let (a, h) = Actor::spawn(None, Silent, ()).await.unwrap();
    let (s, sh) = Actor::spawn(None, Sink, ()).await.unwrap();
    let start = Instant::now();
    let jh = a
        .call_and_forward(Msg::Never, &s, |v: u64| v, Some(T))
        .unwrap();
    std::thread::sleep(BUSY); // the executor is busy
    let r = jh.await.unwrap();
    let elapsed = start.elapsed();
    assert!(matches!(r, CallResult::Timeout));
    a.stop(None);
    s.stop(None);
    h.await.unwrap();
    sh.await.unwrap();
    assert!(
        elapsed < BUSY + SLACK,
        "call_and_forward(timeout=200ms) answered only after {elapsed:?}"
    );
}

/// FAILS on the unmodified tree (answer comes ~500ms after the request).
#[tokio::test(flavor = "current_thread")]
async fn multi_call_answers_by_t() {
    let (a, h) = Actor::spawn(None, Silent, ()).await.unwrap();
    let actors = [a.clone()];
    let start = Instant::now();
    let mut fut = Box::pin(ractor::rpc::multi_call(&actors, Msg::Never, Some(T)));
    assert!(futures::poll!(&mut fut).is_pending());
    std::thread::sleep(BUSY); // the executor is busy
    let r = fut.await.unwrap();
    let elapsed = start.elapsed();
    assert!(matches!(r[0], CallResult::Timeout));
    a.stop(None);
    h.await.unwrap();
    assert!(
        elapsed < BUSY + SLACK,
        "multi_call(timeout=200ms) answered only after {elapsed:?}"
    );
}

use std::sync::atomic::{AtomicUsize, Ordering};
use std::sync::Arc;
use std::time::Duration;

use ractor::rpc::CallResult;
use ractor::{Actor, ActorProcessingErr, ActorRef, RpcReplyPort};

#[derive(Default)]
struct Echo;

enum Msg {
    Echo(u64, RpcReplyPort<u64>),
    Fail,
    Panic,
}
#[cfg(feature = "cluster")]
impl ractor::Message for Msg {}

#[cfg_attr(feature = "async-trait", ractor::async_trait)]
impl Actor for Echo {
    type Msg = Msg;
    type State = u64;
    type Arguments = ();
    async fn pre_start(&self, _: ActorRef<Msg>, _: ()) -> Result<u64, ActorProcessingErr> {
        Ok(0)
    }
    async fn handle(
        &self,
        _: ActorRef<Msg>,
        m: Msg,
        s: &mut u64,
    ) -> Result<(), ActorProcessingErr> {
        match m {
            Msg::Echo(v, r) => {
                *s += 1;
                if *s % 3 == 0 {
                    tokio::task::yield_now().await;
                }
                let _ = r.send(v);
                Ok(())
            }
            Msg::Fail => Err("boom".into()),
            Msg::Panic => panic!("boom"),
        }
    }
}

#[tokio::test(flavor = "multi_thread", worker_threads = 4)]
async fn probe_exit_races() {
    let hangs = Arc::new(AtomicUsize::new(0));
    for iter in 0..3000u64 {
        let (actor, handle) = Actor::spawn(None, Echo, ()).await.unwrap();
        let mut callers = Vec::new();
        for c in 0..6u64 {
            let a = actor.clone();
            callers.push(tokio::spawn(async move {
                let mut n = 0u64;
                loop {
                    let v = c * 1_000_000 + n;
                    let to = if n % 2 == 0 { None } else { Some(Duration::from_secs(30)) };
                    match a.call(|p| Msg::Echo(v, p), to).await {
                        Ok(CallResult::Success(got)) => assert_eq!(got, v, "cross-wired"),
                        Ok(CallResult::SenderError) => break,
                        Ok(CallResult::Timeout) => panic!("timeout"),
                        Err(_) => break,
                    }
                    n += 1;
                }
                n
            }));
        }
        for _ in 0..(iter % 17) {
            tokio::task::yield_now().await;
        }
        match iter % 5 {
            0 => actor.stop(None),
            1 => actor.kill(),
            2 => {
                let _ = actor.drain();
            }
            3 => {
                let _ = actor.cast(Msg::Fail);
            }
            _ => {
                let _ = actor.cast(Msg::Panic);
            }
        }
        for (i, c) in callers.into_iter().enumerate() {
            match tokio::time::timeout(Duration::from_secs(10), c).await {
                Ok(r) => {
                    r.unwrap();
                }
                Err(_) => {
                    eprintln!("HANG iter={iter} mode={} caller={i}", iter % 5);
                    hangs.fetch_add(1, Ordering::SeqCst);
                }
            }
        }
        let _ = handle.await;
    }
    assert_eq!(hangs.load(Ordering::SeqCst), 0);
}

#[tokio::test(flavor = "multi_thread", worker_threads = 4)]
async fn probe_exit_races_local() {
    let hangs = Arc::new(AtomicUsize::new(0));
    let spawner = ractor::thread_local::ThreadLocalActorSpawner::new();
    for iter in 0..3000u64 {
        let (actor, handle) = ractor::spawn_local::<Echo>((), spawner.clone()).await.unwrap();
        let mut callers = Vec::new();
        for c in 0..6u64 {
            let a = actor.clone();
            callers.push(tokio::spawn(async move {
                let mut n = 0u64;
                loop {
                    let v = c * 1_000_000 + n;
                    let to = if n % 2 == 0 { None } else { Some(Duration::from_secs(30)) };
                    match a.call(|p| Msg::Echo(v, p), to).await {
                        Ok(CallResult::Success(got)) => assert_eq!(got, v, "cross-wired"),
                        Ok(CallResult::SenderError) => break,
                        Ok(CallResult::Timeout) => panic!("timeout"),
                        Err(_) => break,
                    }
                    n += 1;
                }
                n
            }));
        }
        for _ in 0..(iter % 17) {
            tokio::task::yield_now().await;
        }
        match iter % 5 {
            0 => actor.stop(None),
            1 => actor.kill(),
            2 => {
                let _ = actor.drain();
            }
            3 => {
                let _ = actor.cast(Msg::Fail);
            }
            _ => {
                let _ = actor.cast(Msg::Panic);
            }
        }
        for (i, c) in callers.into_iter().enumerate() {
            match tokio::time::timeout(Duration::from_secs(10), c).await {
                Ok(r) => {
                    r.unwrap();
                }
                Err(_) => {
                    eprintln!("HANG iter={iter} mode={} caller={i}", iter % 5);
                    hangs.fetch_add(1, Ordering::SeqCst);
                }
            }
        }
        let _ = handle.await;
    }
    assert_eq!(hangs.load(Ordering::SeqCst), 0);
}

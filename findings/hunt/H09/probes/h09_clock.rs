use std::time::Duration;

use ractor::rpc::CallResult;
use ractor::{Actor, ActorProcessingErr, ActorRef, RpcReplyPort};

struct Slow;

enum Msg {
    /// reply with `v` after `d`, from a spawned task (does not block the actor)
    Later(Duration, u64, RpcReplyPort<u64>),
    /// keep the port forever
    Never(RpcReplyPort<u64>),
}
#[cfg(feature = "cluster")]
impl ractor::Message for Msg {}

#[cfg_attr(feature = "async-trait", ractor::async_trait)]
impl Actor for Slow {
    type Msg = Msg;
    type State = Vec<RpcReplyPort<u64>>;
    type Arguments = ();
    async fn pre_start(&self, _: ActorRef<Msg>, _: ()) -> Result<Self::State, ActorProcessingErr> {
        Ok(vec![])
    }
    async fn handle(
        &self,
        _: ActorRef<Msg>,
        m: Msg,
        s: &mut Self::State,
    ) -> Result<(), ActorProcessingErr> {
        match m {
            Msg::Later(d, v, r) => {
                tokio::spawn(async move {
                    tokio::time::sleep(d).await;
                    let _ = r.send(v);
                });
            }
            Msg::Never(r) => s.push(r),
        }
        Ok(())
    }
}

struct Sink;
#[cfg_attr(feature = "async-trait", ractor::async_trait)]
impl Actor for Sink {
    type Msg = u64;
    type State = ();
    type Arguments = ();
    async fn pre_start(&self, _: ActorRef<u64>, _: ()) -> Result<(), ActorProcessingErr> {
        Ok(())
    }
}

#[tokio::test(start_paused = true)]
async fn grid_call() {
    let (a, h) = Actor::spawn(None, Slow, ()).await.unwrap();
    for d in [0u64, 1, 50, 99, 100, 101, 500] {
        for t in [0u64, 1, 50, 99, 100, 101, 500] {
            let start = tokio::time::Instant::now();
            let r = a
                .call(
                    |p| Msg::Later(Duration::from_millis(d), d * 1000 + t, p),
                    Some(Duration::from_millis(t)),
                )
                .await
                .unwrap();
            let el = start.elapsed();
            assert!(el <= Duration::from_millis(t), "d={d} t={t} el={el:?}");
            match r {
                CallResult::Success(v) => {
                    assert_eq!(v, d * 1000 + t);
                    assert!(d <= t, "d={d} t={t}");
                }
                CallResult::Timeout => assert!(d >= t, "d={d} t={t}"),
                CallResult::SenderError => panic!("sender error d={d} t={t}"),
            }
        }
    }
    a.stop(None);
    h.await.unwrap();
}

#[tokio::test(start_paused = true)]
async fn anchor_call_and_forward() {
    let (a, h) = Actor::spawn(None, Slow, ()).await.unwrap();
    let (s, sh) = Actor::spawn(None, Sink, ()).await.unwrap();
    let t = Duration::from_millis(100);
    let jh = a
        .call_and_forward(Msg::Never, &s, |v: u64| v, Some(t))
        .unwrap();
    tokio::time::advance(Duration::from_millis(150)).await;
    for _ in 0..10 {
        tokio::task::yield_now().await;
    }
    assert!(jh.is_finished(), "call_and_forward still pending 150ms after a 100ms-timeout call");
    a.stop(None);
    s.stop(None);
    h.await.unwrap();
    sh.await.unwrap();
}

#[tokio::test(start_paused = true)]
async fn anchor_call() {
    let (a, h) = Actor::spawn(None, Slow, ()).await.unwrap();
    let t = Duration::from_millis(100);
    let a2 = a.clone();
    let fut = async move { a2.call(Msg::Never, Some(t)).await };
    let mut fut = Box::pin(fut);
    // poll once
    assert!(futures::poll!(&mut fut).is_pending());
    tokio::time::advance(Duration::from_millis(150)).await;
    assert!(futures::poll!(&mut fut).is_ready());
    a.stop(None);
    h.await.unwrap();
}

#[tokio::test(start_paused = true)]
async fn anchor_multi_call() {
    let (a, h) = Actor::spawn(None, Slow, ()).await.unwrap();
    let t = Duration::from_millis(100);
    let actors = [a.clone()];
    let fut = ractor::rpc::multi_call(&actors, Msg::Never, Some(t));
    let mut fut = Box::pin(fut);
    assert!(futures::poll!(&mut fut).is_pending());
    tokio::time::advance(Duration::from_millis(150)).await;
    for _ in 0..10 {
        tokio::task::yield_now().await;
    }
    assert!(futures::poll!(&mut fut).is_ready(), "multi_call still pending 150ms after a 100ms-timeout call");
    drop(fut);
    a.stop(None);
    h.await.unwrap();
}

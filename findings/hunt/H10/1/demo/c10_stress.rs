// scratch stress test for property C10 (hunt H10)

use std::collections::HashSet;
use std::sync::atomic::{AtomicBool, AtomicU64, AtomicUsize, Ordering};
use std::sync::{Arc, Mutex};
use std::time::Duration;

use ractor::thread_local::{ThreadLocalActor, ThreadLocalActorSpawner};
use ractor::{registry, Actor, ActorId, ActorProcessingErr, ActorRef, SpawnErr};

#[derive(Clone, Copy, Debug)]
enum Start {
    Ok,
    Err,
    Panic,
    SlowOk,
}

enum Msg {
    Panic,
    Err,
    Nop,
}
#[cfg(feature = "cluster")]
impl ractor::Message for Msg {}

#[derive(Default)]
struct A;

#[cfg_attr(feature = "async-trait", ractor::async_trait)]
impl Actor for A {
    type Msg = Msg;
    type Arguments = Start;
    type State = ();
    async fn pre_start(&self, _m: ActorRef<Msg>, s: Start) -> Result<(), ActorProcessingErr> {
        match s {
            Start::Ok => Ok(()),
            Start::Err => Err("boom".into()),
            Start::Panic => panic!("pre_start panic"),
            Start::SlowOk => {
                ractor::concurrency::sleep(Duration::from_micros(200)).await;
                Ok(())
            }
        }
    }
    async fn handle(&self, _m: ActorRef<Msg>, msg: Msg, _s: &mut ()) -> Result<(), ActorProcessingErr> {
        match msg {
            Msg::Panic => panic!("handler panic"),
            Msg::Err => Err("handler err".into()),
            Msg::Nop => Ok(()),
        }
    }
}

struct Rng(u64);
impl Rng {
    fn next(&mut self) -> u64 {
        self.0 ^= self.0 << 13;
        self.0 ^= self.0 >> 7;
        self.0 ^= self.0 << 17;
        self.0
    }
}

fn pid(id: ActorId) -> u64 {
    id.pid()
}

#[test]
fn chaos() {
    std::panic::set_hook(Box::new(|_| {}));
    let rt = tokio::runtime::Builder::new_multi_thread()
        .worker_threads(4)
        .enable_all()
        .build()
        .unwrap();
    let name = "c10_chaos".to_string();
    let dead: Arc<Mutex<HashSet<u64>>> = Arc::new(Mutex::new(HashSet::new()));
    let violations = Arc::new(Mutex::new(Vec::<String>::new()));
    let stop = Arc::new(AtomicBool::new(false));
    let wins = Arc::new(AtomicUsize::new(0));
    let live_owner = Arc::new(AtomicU64::new(0));

    // observers on plain threads
    let mut obs = vec![];
    for _ in 0..2 {
        let dead = dead.clone();
        let violations = violations.clone();
        let stop = stop.clone();
        let name = name.clone();
        obs.push(std::thread::spawn(move || {
            while !stop.load(Ordering::SeqCst) {
                let snapshot: HashSet<u64> = dead.lock().unwrap().clone();
                if let Some(cell) = registry::where_is(&name) {
                    if snapshot.contains(&pid(cell.get_id())) {
                        violations
                            .lock()
                            .unwrap()
                            .push(format!("where_is returned dead actor {}", cell.get_id()));
                    }
                    #[cfg(feature = "cluster")]
                    {
                        let _ = registry::where_is_pid(cell.get_id());
                    }
                }
                #[cfg(feature = "cluster")]
                {
                    for d in snapshot.iter().take(50) {
                        if registry::where_is_pid(ActorId::Local(*d)).is_some() {
                            violations
                                .lock()
                                .unwrap()
                                .push(format!("where_is_pid returned dead actor {d}"));
                        }
                    }
                }
            }
        }));
    }

    let spawners = vec![ThreadLocalActorSpawner::new(), ThreadLocalActorSpawner::new()];
    rt.block_on(async {
        let mut tasks = vec![];
        for t in 0..6u64 {
            let dead = dead.clone();
            let violations = violations.clone();
            let name = name.clone();
            let wins = wins.clone();
            let live_owner = live_owner.clone();
            let spawners = spawners.clone();
            tasks.push(tokio::spawn(async move {
                let mut rng = Rng(0x9E3779B97F4A7C15 ^ (t + 1).wrapping_mul(0xABCDEF12345));
                for _ in 0..3000 {
                    let start = match rng.next() % 8 {
                        0 => Start::Err,
                        1 => Start::Panic,
                        2 => Start::SlowOk,
                        _ => Start::Ok,
                    };
                    let kind = rng.next() % 6;
                    let use_instant = kind == 1 || kind == 3;
                    let spawner = spawners[(rng.next() % 2) as usize].clone();
                    let res = if use_instant {
                        let inst = if kind == 1 {
                            ractor::ActorRuntime::<A>::spawn_instant(Some(name.clone()), A, start)
                        } else {
                            <A as ThreadLocalActor>::spawn_instant(Some(name.clone()), start, spawner)
                        };
                        match inst {
                            Ok((actor, jh)) => {
                                // may kill/stop before start
                                match rng.next() % 4 {
                                    0 => actor.kill(),
                                    1 => actor.stop(None),
                                    2 => {
                                        let _ = actor.drain();
                                    }
                                    _ => {}
                                }
                                match jh.await.unwrap() {
                                    Ok(h) => Ok((actor, h)),
                                    Err(e) => {
                                        // startup failed -> wait must return promptly
                                        if tokio::time::timeout(Duration::from_secs(5), actor.wait(None))
                                            .await
                                            .is_err()
                                        {
                                            violations.lock().unwrap().push(format!(
                                                "wait() hangs after failed instant start {e:?}"
                                            ));
                                        }
                                        dead.lock().unwrap().insert(pid(actor.get_id()));
                                        Err(e)
                                    }
                                }
                            }
                            Err(e) => Err(e),
                        }
                    } else if kind == 2 {
                        <A as ThreadLocalActor>::spawn(Some(name.clone()), start, spawner).await
                    } else {
                        <A as Actor>::spawn(Some(name.clone()), A, start).await
                    };
                    match res {
                        Ok((actor, handle)) => {
                            wins.fetch_add(1, Ordering::SeqCst);
                            let me = pid(actor.get_id());
                            let prev = live_owner.swap(me, Ordering::SeqCst);
                            // previous owner must have completed its wait... not necessarily recorded yet; skip
                            let _ = prev;
                            // I'm alive and not stopping (unless I asked for stop above in instant mode)
                            if !use_instant {
                                match registry::where_is(&name) {
                                    Some(c) if pid(c.get_id()) == me => {}
                                    other => violations.lock().unwrap().push(format!(
                                        "where_is of live owner {me} returned {:?}",
                                        other.map(|c| c.get_id())
                                    )),
                                }
                                #[cfg(feature = "cluster")]
                                if registry::where_is_pid(actor.get_id()).is_none() {
                                    violations
                                        .lock()
                                        .unwrap()
                                        .push(format!("where_is_pid of live owner {me} returned None"));
                                }
                            }
                            match rng.next() % 7 {
                                0 => actor.stop(None),
                                1 => actor.kill(),
                                2 => {
                                    let _ = actor.drain();
                                }
                                3 => {
                                    let _ = actor.cast(Msg::Panic);
                                }
                                4 => {
                                    let _ = actor.cast(Msg::Err);
                                }
                                5 => {
                                    #[allow(unused_mut)]
                                    let mut handle = handle;
                                    handle.abort()
                                }
                                _ => {
                                    let _ = actor.cast(Msg::Nop);
                                    actor.stop(Some("x".into()));
                                }
                            }
                            if tokio::time::timeout(Duration::from_secs(5), actor.wait(None))
                                .await
                                .is_err()
                            {
                                violations.lock().unwrap().push("wait() hangs".to_string());
                            }
                            dead.lock().unwrap().insert(me);
                            // where_is must never return me now
                            if let Some(c) = registry::where_is(&name) {
                                if pid(c.get_id()) == me {
                                    violations
                                        .lock()
                                        .unwrap()
                                        .push(format!("where_is returned me {me} after my wait()"));
                                }
                            }
                            #[cfg(feature = "cluster")]
                            if registry::where_is_pid(actor.get_id()).is_some() {
                                violations
                                    .lock()
                                    .unwrap()
                                    .push(format!("where_is_pid returned me {me} after my wait()"));
                            }
                        }
                        Err(SpawnErr::ActorAlreadyRegistered(_)) => {}
                        Err(SpawnErr::StartupFailed(_)) => {}
                        Err(e) => {
                            // instant + drain before start gives ActorAlreadyStarted
                            if !use_instant {
                                violations.lock().unwrap().push(format!("unexpected spawn err {e:?}"));
                            }
                        }
                    }
                    if rng.next() % 3 == 0 {
                        tokio::task::yield_now().await;
                    }
                }
            }));
        }
        for t in tasks {
            t.await.unwrap();
        }
        // quiesced: the name must be free
        assert!(registry::where_is(&name).is_none(), "name leaked at the end");
        let (a, h) = <A as Actor>::spawn(Some(name.clone()), A, Start::Ok).await.expect("respawn at end");
        a.stop(None);
        h.await.unwrap();
    });
    stop.store(true, Ordering::SeqCst);
    for o in obs {
        o.join().unwrap();
    }
    let v = violations.lock().unwrap();
    println!("wins = {}", wins.load(Ordering::SeqCst));
    assert!(v.is_empty(), "violations ({}): {:#?}", v.len(), &v[..v.len().min(10)]);
}

#[test]
fn rounds_exactly_one() {
    std::panic::set_hook(Box::new(|_| {}));
    let rt = tokio::runtime::Builder::new_multi_thread()
        .worker_threads(4)
        .enable_all()
        .build()
        .unwrap();
    rt.block_on(async {
        let name = "c10_rounds".to_string();
        for round in 0..1500u64 {
            let barrier = Arc::new(tokio::sync::Barrier::new(6));
            let mut tasks = vec![];
            for i in 0..6u64 {
                let barrier = barrier.clone();
                let name = name.clone();
                tasks.push(tokio::spawn(async move {
                    barrier.wait().await;
                    if (round + i) % 2 == 0 {
                        <A as Actor>::spawn(Some(name), A, Start::Ok).await
                    } else {
                        match ractor::ActorRuntime::<A>::spawn_instant(Some(name), A, Start::Ok) {
                            Ok((_a, jh)) => jh.await.unwrap().map(|h| (_a, h)),
                            Err(e) => Err(e),
                        }
                    }
                }));
            }
            let mut winners = vec![];
            for t in tasks {
                match t.await.unwrap() {
                    Ok(w) => winners.push(w),
                    Err(SpawnErr::ActorAlreadyRegistered(n)) => assert_eq!(n, name),
                    Err(e) => panic!("unexpected {e:?}"),
                }
            }
            assert_eq!(winners.len(), 1, "round {round}");
            let (a, h) = winners.pop().unwrap();
            assert_eq!(registry::where_is(&name).unwrap().get_id(), a.get_id());
            match round % 4 {
                0 => a.stop(None),
                1 => a.kill(),
                2 => {
                    let _ = a.drain();
                }
                _ => {
                    let _ = a.cast(Msg::Panic);
                }
            }
            a.wait(None).await.unwrap();
            assert!(registry::where_is(&name).is_none(), "round {round}");
            let _ = h;
        }
    });
}

use std::time::Duration;
use ractor::thread_local::{ThreadLocalActor, ThreadLocalActorSpawner};
use ractor::{registry, Actor, ActorProcessingErr, ActorRef};

#[derive(Default)]
struct A;
struct M;
#[cfg(feature = "cluster")]
impl ractor::Message for M {}
#[cfg_attr(feature = "async-trait", ractor::async_trait)]
impl Actor for A {
    type Msg = M;
    type Arguments = ();
    type State = ();
    async fn pre_start(&self, _m: ActorRef<M>, _: ()) -> Result<(), ActorProcessingErr> { Ok(()) }
}

#[test]
fn spawner_dropped() {
    let rt = tokio::runtime::Builder::new_multi_thread().worker_threads(2).enable_all().build().unwrap();
    rt.block_on(async {
        let name = "c10_tl_spawner_drop".to_string();
        let (a, _h) = <A as ThreadLocalActor>::spawn(Some(name.clone()), (), ThreadLocalActorSpawner::new()).await.unwrap();
        tokio::time::sleep(Duration::from_millis(300)).await;
        println!("status after spawner drop: {:?}, where_is: {:?}", a.get_status(), registry::where_is(&name).map(|c| c.get_id()));
        let sent = a.cast(M);
        println!("cast: {:?}", sent.is_ok());
        a.stop(None);
        let w = tokio::time::timeout(Duration::from_secs(2), a.wait(None)).await;
        println!("wait after stop: {:?}; status {:?}; where_is {:?}", w.is_ok(), a.get_status(), registry::where_is(&name).map(|c| c.get_id()));
        let again = <A as Actor>::spawn(Some(name.clone()), A, ()).await;
        println!("respawn: {:?}", again.as_ref().map(|_| ()).map_err(|e| format!("{e:?}")));
    });
}

use std::sync::atomic::{AtomicBool, Ordering};
use std::sync::Arc;
use std::time::Duration;

use ractor::thread_local::{ThreadLocalActor, ThreadLocalActorSpawner};
use ractor::{registry, Actor, ActorProcessingErr, ActorRef, SpawnErr};

struct M;
#[cfg(feature = "cluster")]
impl ractor::Message for M {}

#[derive(Default)]
struct Gate;
type Args = (Option<tokio::sync::oneshot::Sender<ActorRef<M>>>, Option<tokio::sync::oneshot::Receiver<()>>);
#[cfg_attr(feature = "async-trait", ractor::async_trait)]
impl Actor for Gate {
    type Msg = M;
    type Arguments = Args;
    type State = ();
    async fn pre_start(&self, m: ActorRef<M>, a: Args) -> Result<(), ActorProcessingErr> {
        if let Some(tx) = a.0 { let _ = tx.send(m); }
        if let Some(rx) = a.1 { let _ = rx.await; }
        Ok(())
    }
}

static PANIC_DEFAULT: AtomicBool = AtomicBool::new(false);
struct PD;
impl Default for PD { fn default() -> Self { if PANIC_DEFAULT.load(Ordering::SeqCst) { panic!("default panics") } PD } }
#[cfg_attr(feature = "async-trait", ractor::async_trait)]
impl Actor for PD {
    type Msg = M; type Arguments = (); type State = ();
    async fn pre_start(&self, _m: ActorRef<M>, _: ()) -> Result<(), ActorProcessingErr> { Ok(()) }
}

fn rt() -> tokio::runtime::Runtime {
    tokio::runtime::Builder::new_multi_thread().worker_threads(2).enable_all().build().unwrap()
}

async fn eventually(f: impl Fn() -> bool) -> bool {
    for _ in 0..500 { if f() { return true; } tokio::time::sleep(Duration::from_millis(10)).await; }
    false
}

#[test]
fn send_spawn_cancelled_in_pre_start() {
    rt().block_on(async {
        let name = "c10_e1".to_string();
        let (tx, rx) = tokio::sync::oneshot::channel();
        let (_gtx, grx) = tokio::sync::oneshot::channel::<()>();
        let n2 = name.clone();
        let t = tokio::spawn(async move { <Gate as Actor>::spawn(Some(n2), Gate, (Some(tx), Some(grx))).await.map(|_| ()) });
        let me = rx.await.unwrap();
        assert_eq!(registry::where_is(&name).unwrap().get_id(), me.get_id());
        t.abort();
        let _ = t.await;
        assert!(tokio::time::timeout(Duration::from_secs(2), me.wait(None)).await.is_ok(), "wait hangs");
        assert!(registry::where_is(&name).is_none());
        #[cfg(feature = "cluster")]
        assert!(registry::where_is_pid(me.get_id()).is_none());
        let (a, h) = <Gate as Actor>::spawn(Some(name.clone()), Gate, (None, None)).await.expect("respawn");
        a.stop(None); h.await.unwrap();
    });
}

#[test]
fn tl_spawn_cancelled_in_pre_start() {
    rt().block_on(async {
        let name = "c10_e2".to_string();
        let sp = ThreadLocalActorSpawner::new();
        let (tx, rx) = tokio::sync::oneshot::channel();
        let (_gtx, grx) = tokio::sync::oneshot::channel::<()>();
        let n2 = name.clone();
        let sp2 = sp.clone();
        let t = tokio::spawn(async move { <Gate as ThreadLocalActor>::spawn(Some(n2), (Some(tx), Some(grx)), sp2).await.map(|_| ()) });
        let me = rx.await.unwrap();
        assert_eq!(registry::where_is(&name).unwrap().get_id(), me.get_id());
        t.abort();
        let _ = t.await;
        assert!(tokio::time::timeout(Duration::from_secs(2), me.wait(None)).await.is_ok(), "wait hangs");
        assert!(registry::where_is(&name).is_none());
        let (a, h) = <Gate as ThreadLocalActor>::spawn(Some(name.clone()), (None, None), sp).await.expect("respawn");
        a.stop(None); h.await.unwrap();
    });
}

#[test]
fn runtime_dropped() {
    let name = "c10_e3".to_string();
    let r = rt();
    let (a, _h) = r.block_on(<Gate as Actor>::spawn(Some(name.clone()), Gate, (None, None))).unwrap();
    drop(r);
    #[cfg(not(feature = "async-std"))]
    {
        assert_eq!(a.get_status(), ractor::ActorStatus::Stopped);
        assert!(registry::where_is(&name).is_none());
    }
    let _ = a;
}

#[test]
fn kill_during_startup_and_supervisor_stopping() {
    rt().block_on(async {
        let name = "c10_e4".to_string();
        let (tx, rx) = tokio::sync::oneshot::channel();
        let (_gtx, grx) = tokio::sync::oneshot::channel::<()>();
        let n2 = name.clone();
        let t = tokio::spawn(async move { <Gate as Actor>::spawn(Some(n2), Gate, (Some(tx), Some(grx))).await.map(|_| ()) });
        let me = rx.await.unwrap();
        me.kill();
        let r = t.await.unwrap();
        assert!(matches!(r, Err(SpawnErr::StartupFailed(_))));
        assert_eq!(me.get_status(), ractor::ActorStatus::Stopped);
        assert!(registry::where_is(&name).is_none());

        // supervisor goes away while child is in pre_start
        let (sup, sh) = <Gate as Actor>::spawn(None, Gate, (None, None)).await.unwrap();
        let (tx, rx) = tokio::sync::oneshot::channel();
        let (gtx, grx) = tokio::sync::oneshot::channel::<()>();
        let n2 = name.clone();
        let supc = sup.get_cell();
        let t = tokio::spawn(async move { <Gate as Actor>::spawn_linked(Some(n2), Gate, (Some(tx), Some(grx)), supc).await.map(|_| ()) });
        let me = rx.await.unwrap();
        sup.stop(None); sh.await.unwrap();
        gtx.send(()).unwrap();
        let r = t.await.unwrap();
        assert!(matches!(r, Err(SpawnErr::StartupFailed(_))), "{r:?}");
        assert_eq!(me.get_status(), ractor::ActorStatus::Stopped);
        assert!(registry::where_is(&name).is_none());
    });
}

#[test]
fn tl_dead_spawner() {
    std::panic::set_hook(Box::new(|_| {}));
    rt().block_on(async {
        let name = "c10_e5".to_string();
        let sp = ThreadLocalActorSpawner::new();
        PANIC_DEFAULT.store(true, Ordering::SeqCst);
        let r = <PD as ThreadLocalActor>::spawn(Some(name.clone()), (), sp.clone()).await;
        assert!(matches!(r, Err(SpawnErr::StartupFailed(_))));
        assert!(registry::where_is(&name).is_none(), "leak 1");
        PANIC_DEFAULT.store(false, Ordering::SeqCst);
        assert!(eventually(|| true).await);
        let r = <PD as ThreadLocalActor>::spawn(Some(name.clone()), (), sp.clone()).await;
        println!("second spawn on dead spawner: {:?}", r.as_ref().map(|_| ()).map_err(|e| format!("{e:?}")));
        if r.is_err() { assert!(registry::where_is(&name).is_none(), "leak 2"); }
        let r = <PD as ThreadLocalActor>::spawn_instant(Some(name.clone()), (), sp.clone());
        if let Ok((a, jh)) = r {
            let inner = jh.await.unwrap();
            if inner.is_err() {
                assert!(tokio::time::timeout(Duration::from_secs(2), a.wait(None)).await.is_ok());
                assert!(registry::where_is(&name).is_none(), "leak 3");
            }
        }
        let _ = Arc::new(());
    });
}

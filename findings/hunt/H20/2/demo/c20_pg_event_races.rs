//! C20 demonstration 2: group changes and exits which are raised by different threads reach the
//! node session in an order which differs from the order in which they happened, and the session
//! forwards them blindly. Two consequences, one test each:
//!
//! * `no_proxy_survives_its_original`: a `pg::join` racing with the exit of the actor makes the
//!   peer (re)create a proxy for the dead actor *after* it was told that the actor terminated.
//!   The proxy stays for the rest of the session; sends to it succeed (and vanish).
//! * `proxy_membership_follows_the_original`: a `pg::join` racing with a `pg::leave` leaves the
//!   proxy in (or out of) the group for good while the original is out of (or in) it.
//!
//! Both need a race between two OS threads, so they hammer. On the unmodified tree (4 worker
//! threads, shared box) the first failed in 20 of 20 runs (1-6 zombies out of 150 actors); the
//! second failed in 9 of 10 runs with 6000 groups (2-19 diverged groups) and in 10 of 10 runs
//! with the 15000 groups used here.
//!
//! copy to ractor_cluster/tests/c20_pg_event_races.rs and run
//!   cargo nextest run --offline -p ractor_cluster --test c20_pg_event_races --test-threads 4

use std::sync::atomic::AtomicBool;
use std::sync::atomic::AtomicUsize;
use std::sync::atomic::Ordering;
use std::sync::Arc;
use std::time::Duration;

use harness::*;
use ractor::Actor;
use ractor::ActorProcessingErr;
use ractor::ActorRef;
use ractor_cluster::RactorClusterMessage;

#[derive(RactorClusterMessage)]
enum M {
    Note(u64),
}

struct T;
#[cfg_attr(feature = "async-trait", ractor::async_trait)]
impl Actor for T {
    type Msg = M;
    type State = ();
    type Arguments = ();
    async fn pre_start(&self, _: ActorRef<M>, _: ()) -> Result<(), ActorProcessingErr> {
        Ok(())
    }
}

#[tokio::test(flavor = "multi_thread", worker_threads = 4)]
async fn no_proxy_survives_its_original() {
    const ACTORS: u64 = 150;
    let c = cluster("jre", 64 * 1024).await;
    let mut pids = vec![];
    for i in 0..ACTORS {
        let (t, th) = Actor::spawn(None, T, ()).await.unwrap();
        pids.push(t.get_id().pid());
        let _ = wait_proxy(&c.sb, t.get_id().pid()).await;
        // somebody (a coordinator, a pool, ...) keeps enrolling the actor in groups ...
        let done = Arc::new(AtomicBool::new(false));
        let joiner = {
            let cell = t.get_cell();
            let done = done.clone();
            std::thread::spawn(move || {
                let mut k = 0u64;
                while !done.load(Ordering::Relaxed) {
                    ractor::pg::join(format!("jre_{i}_{k}"), vec![cell.clone()]);
                    k += 1;
                }
            })
        };
        tokio::time::sleep(Duration::from_millis(3)).await;
        // ... while the actor exits
        t.stop(None);
        th.await.unwrap();
        done.store(true, Ordering::Relaxed);
        joiner.join().unwrap();
    }

    // let everything drain, then look at what node B believes
    tokio::time::sleep(Duration::from_millis(2000)).await;
    let mut zombies = vec![];
    for pid in pids {
        assert!(ractor::registry::where_is_pid(ractor::ActorId::Local(pid)).is_none());
        if let Some(z) = proxy(&c.sb, pid) {
            let as_ref: ActorRef<M> = z.clone().into();
            zombies.push((pid, z.get_status(), as_ref.cast(M::Note(1)).is_ok()));
        }
    }
    c.shutdown().await;
    assert!(
        zombies.is_empty(),
        "{} of {ACTORS} originals stopped (and are unregistered), but node B still has a live remote \
         reference for them; (pid, proxy status, cast accepted): {:?}",
        zombies.len(),
        &zombies[..zombies.len().min(4)]
    );
}

#[tokio::test(flavor = "multi_thread", worker_threads = 4)]
async fn proxy_membership_follows_the_original() {
    const GROUPS: usize = 15000;
    let c = cluster("jrl", 64 * 1024).await;
    let (t, th) = Actor::spawn(None, T, ()).await.unwrap();
    let px = wait_proxy(&c.sb, t.get_id().pid()).await;
    for k in 0..GROUPS {
        ractor::pg::join(format!("jrl_{k}"), vec![t.get_cell()]);
    }
    // for every group: one thread leaves it while the other (re)joins it
    let turn = Arc::new(AtomicUsize::new(0));
    let mk = |is_join: bool| {
        let cell = t.get_cell();
        let turn = turn.clone();
        std::thread::spawn(move || {
            for k in 0..GROUPS {
                turn.fetch_add(1, Ordering::SeqCst);
                while turn.load(Ordering::SeqCst) < 2 * (k + 1) {
                    std::hint::spin_loop();
                }
                if is_join {
                    ractor::pg::join(format!("jrl_{k}"), vec![cell.clone()]);
                } else {
                    ractor::pg::leave(format!("jrl_{k}"), vec![cell.clone()]);
                }
            }
        })
    };
    let (j, l) = (mk(true), mk(false));
    j.join().unwrap();
    l.join().unwrap();

    // wait until node B's view does not change any more
    let diverged = || {
        (0..GROUPS)
            .filter_map(|k| {
                let m = ractor::pg::get_members(&format!("jrl_{k}"));
                let original = m.iter().any(|m| m.get_id() == t.get_id());
                let remote = m.iter().any(|m| m.get_id() == px.get_id());
                (original != remote).then_some((k, original, remote))
            })
            .collect::<Vec<_>>()
    };
    tokio::time::sleep(Duration::from_millis(2000)).await;
    let mut last = diverged();
    loop {
        tokio::time::sleep(Duration::from_millis(1000)).await;
        let now = diverged();
        if now == last {
            break;
        }
        last = now;
    }
    t.stop(None);
    th.await.unwrap();
    c.shutdown().await;
    assert!(
        last.is_empty(),
        "in {} of {GROUPS} groups the remote reference and its original ended up with different \
         memberships; (group, original is member, remote reference is member): {:?}",
        last.len(),
        &last[..last.len().min(4)]
    );
}

// ---------------------------------------------------------------------------------------------
// Harness: two NodeServers in ONE process joined by an in-memory pipe (public API only).
// Both "nodes" share the process-wide pid registry / pg tables, so every remotable actor of the
// process is advertised in both directions; `proxy(&session, pid)` picks the proxy (RemoteActor)
// which one given session holds for the actor with that pid. Run every test in its own process
// (cargo nextest does) or with --test-threads 1: two clusters alive at the same time in one
// process would hand out the same node ids.
// ---------------------------------------------------------------------------------------------
#[allow(dead_code)]
mod harness {
    use std::time::Duration;

    use ractor::Actor;
    use ractor::ActorCell;
    use ractor::ActorId;
    use ractor::ActorRef;
    use ractor_cluster::node::NodeConnectionMode;
    use ractor_cluster::node::NodeServerSessionInformation;
    use ractor_cluster::BoxRead;
    use ractor_cluster::BoxWrite;
    use ractor_cluster::ClusterBidiStream;
    use ractor_cluster::NodeServer;
    use ractor_cluster::NodeServerMessage;
    use ractor_cluster::NodeSessionMessage;

    pub struct Duplex(pub tokio::io::DuplexStream, pub &'static str, pub &'static str);

    impl ClusterBidiStream for Duplex {
        fn split(self: Box<Self>) -> (BoxRead, BoxWrite) {
            let (r, w) = tokio::io::split(self.0);
            (Box::new(r), Box::new(w))
        }
        fn peer_label(&self) -> Option<String> {
            Some(self.1.to_string())
        }
        fn local_label(&self) -> Option<String> {
            Some(self.2.to_string())
        }
    }

    pub struct Cluster {
        pub a: ActorRef<NodeServerMessage>,
        pub b: ActorRef<NodeServerMessage>,
        pub ha: ractor::concurrency::JoinHandle<()>,
        pub hb: ractor::concurrency::JoinHandle<()>,
        /// the (ready) session of node A towards B
        pub sa: NodeServerSessionInformation,
        /// the (ready) session of node B towards A
        pub sb: NodeServerSessionInformation,
    }

    pub async fn wait_ready(node: &ActorRef<NodeServerMessage>) -> NodeServerSessionInformation {
        let deadline = std::time::Instant::now() + Duration::from_secs(10);
        loop {
            assert!(std::time::Instant::now() < deadline, "session never got ready");
            if let Ok(sessions) = ractor::call_t!(*node, NodeServerMessage::GetSessions, 500) {
                for info in sessions.into_values() {
                    if let Ok(true) =
                        ractor::call_t!(info.actor, NodeSessionMessage::GetReadyState, 500)
                    {
                        return info;
                    }
                }
            }
            tokio::time::sleep(Duration::from_millis(20)).await;
        }
    }

    /// `tag` keeps the node names unique, `buf` is the size of the pipe in bytes
    pub async fn cluster(tag: &str, buf: usize) -> Cluster {
        let mk = |n: &str| {
            NodeServer::new(
                0,
                "cookie".to_string(),
                format!("{tag}_{n}"),
                format!("host_{tag}_{n}"),
                None,
                Some(NodeConnectionMode::Isolated),
            )
        };
        let (a, ha) = Actor::spawn(None, mk("a"), ()).await.unwrap();
        let (b, hb) = Actor::spawn(None, mk("b"), ()).await.unwrap();

        // burn node id 0 on B, so that the proxies of the two sessions never share an ActorId
        {
            let (x, y) = tokio::io::duplex(64);
            drop(y);
            b.cast(NodeServerMessage::ConnectionOpenedExternal {
                stream: Box::new(Duplex(x, "nobody", "b")),
                is_server: true,
            })
            .unwrap();
            tokio::time::sleep(Duration::from_millis(100)).await;
        }

        let (ea, eb) = tokio::io::duplex(buf);
        a.cast(NodeServerMessage::ConnectionOpenedExternal {
            stream: Box::new(Duplex(ea, "b", "a")),
            is_server: true,
        })
        .unwrap();
        b.cast(NodeServerMessage::ConnectionOpenedExternal {
            stream: Box::new(Duplex(eb, "a", "b")),
            is_server: false,
        })
        .unwrap();
        let sa = wait_ready(&a).await;
        let sb = wait_ready(&b).await;
        assert_ne!(sa.node_id, sb.node_id);
        Cluster {
            a,
            b,
            ha,
            hb,
            sa,
            sb,
        }
    }

    /// The proxy which `session` holds for the actor with local pid `pid` on its peer
    pub fn proxy(session: &NodeServerSessionInformation, pid: u64) -> Option<ActorCell> {
        let want = ActorId::Remote {
            node_id: session.node_id,
            pid,
        };
        session
            .actor
            .get_children()
            .into_iter()
            .find(|c| c.get_id() == want)
    }

    pub async fn wait_proxy(session: &NodeServerSessionInformation, pid: u64) -> ActorCell {
        let deadline = std::time::Instant::now() + Duration::from_secs(5);
        loop {
            if let Some(c) = proxy(session, pid) {
                return c;
            }
            assert!(
                std::time::Instant::now() < deadline,
                "proxy for {pid} never appeared"
            );
            tokio::time::sleep(Duration::from_millis(5)).await;
        }
    }

    impl Cluster {
        pub async fn shutdown(self) {
            self.a.stop(None);
            self.b.stop(None);
            let _ = self.ha.await;
            let _ = self.hb.await;
        }
    }
}

//! C20 demonstration 1: a reply which the real actor gave *before* it exited never reaches the
//! remote caller.
//!
//! The callee answers a call and then stops itself ("last words", a very common pattern:
//! `reply.send(x); myself.stop(None)`). A caller holding the *local* reference always gets the
//! reply (it is sitting in the caller's oneshot before the actor even looks at the stop).
//! A caller holding the *remote* reference of the same actor gets
//! `Err(Messaging failed because channel is closed)` instead: the call WAS delivered, the reply
//! WAS given, but it does not come back to the caller.
//!
//! copy to ractor_cluster/tests/c20_reply_then_exit.rs and run
//!   cargo nextest run --offline -p ractor_cluster --test c20_reply_then_exit --test-threads 4

use std::time::Duration;

use harness::*;
use ractor::Actor;
use ractor::ActorProcessingErr;
use ractor::ActorRef;
use ractor::RpcReplyPort;
use ractor_cluster::RactorClusterMessage;

#[derive(RactorClusterMessage)]
enum M {
    /// answer with the number, then exit
    #[rpc]
    LastWords(u64, RpcReplyPort<u64>),
}

struct T;
#[cfg_attr(feature = "async-trait", ractor::async_trait)]
impl Actor for T {
    type Msg = M;
    type State = ();
    type Arguments = ();
    async fn pre_start(&self, _: ActorRef<M>, _: ()) -> Result<(), ActorProcessingErr> {
        Ok(())
    }
    async fn handle(&self, me: ActorRef<M>, m: M, _: &mut ()) -> Result<(), ActorProcessingErr> {
        match m {
            M::LastWords(n, reply) => {
                let _ = reply.send(n);
                me.stop(None);
            }
        }
        Ok(())
    }
}

const ROUNDS: u64 = 40;

async fn scenario(tag: &str) {
    // reference behaviour, no cluster involved: the local caller always gets the reply
    for i in 0..ROUNDS {
        let (t, th) = Actor::spawn(None, T, ()).await.unwrap();
        assert_eq!(ractor::call_t!(t, M::LastWords, 2000, i).unwrap(), i);
        th.await.unwrap();
    }

    let c = cluster(tag, 64 * 1024).await;
    let mut lost = vec![];
    for i in 0..ROUNDS {
        let (t, th) = Actor::spawn(None, T, ()).await.unwrap();
        // the remote reference which node B holds for `t`
        let remote: ActorRef<M> = wait_proxy(&c.sb, t.get_id().pid()).await.into();
        match ractor::call_t!(remote, M::LastWords, 2000, i) {
            Ok(v) => assert_eq!(v, i, "a reply must be the reply to this call"),
            Err(e) => lost.push((i, e.to_string())),
        }
        th.await.unwrap();
    }
    tokio::time::sleep(Duration::from_millis(100)).await;
    c.shutdown().await;
    assert!(
        lost.is_empty(),
        "{} of {ROUNDS} replies, each given by the real actor before it exited, never came back \
         to the remote caller; first: call #{} -> Err({})",
        lost.len(),
        lost[0].0,
        lost[0].1
    );
}

/// single threaded scheduler: loses every reply
#[tokio::test]
async fn last_words_reach_the_remote_caller_current_thread() {
    scenario("lw_ct").await;
}

/// multi threaded scheduler: loses most replies
#[tokio::test(flavor = "multi_thread", worker_threads = 4)]
async fn last_words_reach_the_remote_caller_multi_thread() {
    scenario("lw_mt").await;
}

// ---------------------------------------------------------------------------------------------
// Harness: two NodeServers in ONE process joined by an in-memory pipe (public API only).
// Both "nodes" share the process-wide pid registry / pg tables, so every remotable actor of the
// process is advertised in both directions; `proxy(&session, pid)` picks the proxy (RemoteActor)
// which one given session holds for the actor with that pid. Run every test in its own process
// (cargo nextest does) or with --test-threads 1: two clusters alive at the same time in one
// process would hand out the same node ids.
// ---------------------------------------------------------------------------------------------
#[allow(dead_code)]
mod harness {
    use std::time::Duration;

    use ractor::Actor;
    use ractor::ActorCell;
    use ractor::ActorId;
    use ractor::ActorRef;
    use ractor_cluster::node::NodeConnectionMode;
    use ractor_cluster::node::NodeServerSessionInformation;
    use ractor_cluster::BoxRead;
    use ractor_cluster::BoxWrite;
    use ractor_cluster::ClusterBidiStream;
    use ractor_cluster::NodeServer;
    use ractor_cluster::NodeServerMessage;
    use ractor_cluster::NodeSessionMessage;

    pub struct Duplex(pub tokio::io::DuplexStream, pub &'static str, pub &'static str);

    impl ClusterBidiStream for Duplex {
        fn split(self: Box<Self>) -> (BoxRead, BoxWrite) {
            let (r, w) = tokio::io::split(self.0);
            (Box::new(r), Box::new(w))
        }
        fn peer_label(&self) -> Option<String> {
            Some(self.1.to_string())
        }
        fn local_label(&self) -> Option<String> {
            Some(self.2.to_string())
        }
    }

    pub struct Cluster {
        pub a: ActorRef<NodeServerMessage>,
        pub b: ActorRef<NodeServerMessage>,
        pub ha: ractor::concurrency::JoinHandle<()>,
        pub hb: ractor::concurrency::JoinHandle<()>,
        /// the (ready) session of node A towards B
        pub sa: NodeServerSessionInformation,
        /// the (ready) session of node B towards A
        pub sb: NodeServerSessionInformation,
    }

    pub async fn wait_ready(node: &ActorRef<NodeServerMessage>) -> NodeServerSessionInformation {
        let deadline = std::time::Instant::now() + Duration::from_secs(10);
        loop {
            assert!(std::time::Instant::now() < deadline, "session never got ready");
            if let Ok(sessions) = ractor::call_t!(*node, NodeServerMessage::GetSessions, 500) {
                for info in sessions.into_values() {
                    if let Ok(true) =
                        ractor::call_t!(info.actor, NodeSessionMessage::GetReadyState, 500)
                    {
                        return info;
                    }
                }
            }
            tokio::time::sleep(Duration::from_millis(20)).await;
        }
    }

    /// `tag` keeps the node names unique, `buf` is the size of the pipe in bytes
    pub async fn cluster(tag: &str, buf: usize) -> Cluster {
        let mk = |n: &str| {
            NodeServer::new(
                0,
                "cookie".to_string(),
                format!("{tag}_{n}"),
                format!("host_{tag}_{n}"),
                None,
                Some(NodeConnectionMode::Isolated),
            )
        };
        let (a, ha) = Actor::spawn(None, mk("a"), ()).await.unwrap();
        let (b, hb) = Actor::spawn(None, mk("b"), ()).await.unwrap();

        // burn node id 0 on B, so that the proxies of the two sessions never share an ActorId
        {
            let (x, y) = tokio::io::duplex(64);
            drop(y);
            b.cast(NodeServerMessage::ConnectionOpenedExternal {
                stream: Box::new(Duplex(x, "nobody", "b")),
                is_server: true,
            })
            .unwrap();
            tokio::time::sleep(Duration::from_millis(100)).await;
        }

        let (ea, eb) = tokio::io::duplex(buf);
        a.cast(NodeServerMessage::ConnectionOpenedExternal {
            stream: Box::new(Duplex(ea, "b", "a")),
            is_server: true,
        })
        .unwrap();
        b.cast(NodeServerMessage::ConnectionOpenedExternal {
            stream: Box::new(Duplex(eb, "a", "b")),
            is_server: false,
        })
        .unwrap();
        let sa = wait_ready(&a).await;
        let sb = wait_ready(&b).await;
        assert_ne!(sa.node_id, sb.node_id);
        Cluster {
            a,
            b,
            ha,
            hb,
            sa,
            sb,
        }
    }

    /// The proxy which `session` holds for the actor with local pid `pid` on its peer
    pub fn proxy(session: &NodeServerSessionInformation, pid: u64) -> Option<ActorCell> {
        let want = ActorId::Remote {
            node_id: session.node_id,
            pid,
        };
        session
            .actor
            .get_children()
            .into_iter()
            .find(|c| c.get_id() == want)
    }

    pub async fn wait_proxy(session: &NodeServerSessionInformation, pid: u64) -> ActorCell {
        let deadline = std::time::Instant::now() + Duration::from_secs(5);
        loop {
            if let Some(c) = proxy(session, pid) {
                return c;
            }
            assert!(
                std::time::Instant::now() < deadline,
                "proxy for {pid} never appeared"
            );
            tokio::time::sleep(Duration::from_millis(5)).await;
        }
    }

    impl Cluster {
        pub async fn shutdown(self) {
            self.a.stop(None);
            self.b.stop(None);
            let _ = self.ha.await;
            let _ = self.hb.await;
        }
    }
}

//! Demonstration for property C03: once `stop()` has returned, no further message
//! handler starts (the stop request outranks every pending user message each time the
//! actor picks its next piece of work).
//!
//! Everything runs on ONE executor thread (current-thread runtime), so the interleaving
//! of the actor task and the task calling `stop()` is fully determined by the points at
//! which the two tasks suspend. Picking a message and starting its handler has to be one
//! uninterrupted step: if the actor task can be descheduled between the two, a `stop()`
//! issued in that window is overtaken by a handler which starts after `stop()` returned.

use std::sync::atomic::AtomicBool;
use std::sync::atomic::AtomicU32;
use std::sync::atomic::Ordering;
use std::sync::Arc;
use std::time::Duration;

use ractor::Actor;
use ractor::ActorProcessingErr;
use ractor::ActorRef;
use ractor::ActorStatus;

struct Work;
#[cfg(feature = "cluster")]
impl ractor::Message for Work {}

#[derive(Clone, Default)]
struct Probe {
    /// set by the requester right after `stop()` returned
    stop_returned: Arc<AtomicBool>,
    /// handlers which started although `stop()` had already returned
    late_starts: Arc<AtomicU32>,
    handled: Arc<AtomicU32>,
    post_stop_ran: Arc<AtomicBool>,
}

struct Worker;

impl Actor for Worker {
    type Msg = Work;
    type State = Probe;
    type Arguments = Probe;

    async fn pre_start(
        &self,
        _myself: ActorRef<Self::Msg>,
        probe: Self::Arguments,
    ) -> Result<Self::State, ActorProcessingErr> {
        Ok(probe)
    }

    async fn handle(
        &self,
        _myself: ActorRef<Self::Msg>,
        _message: Self::Msg,
        probe: &mut Self::State,
    ) -> Result<(), ActorProcessingErr> {
        // first statement of the handler == "the handler starts"
        if probe.stop_returned.load(Ordering::SeqCst) {
            probe.late_starts.fetch_add(1, Ordering::SeqCst);
        }
        probe.handled.fetch_add(1, Ordering::SeqCst);
        Ok(())
    }

    async fn post_stop(
        &self,
        _myself: ActorRef<Self::Msg>,
        probe: &mut Self::State,
    ) -> Result<(), ActorProcessingErr> {
        probe.post_stop_ran.store(true, Ordering::SeqCst);
        Ok(())
    }
}

/// Go to the back of the executor's run queue exactly once
async fn reschedule() {
    let mut yielded = false;
    std::future::poll_fn(|cx| {
        if std::mem::replace(&mut yielded, true) {
            std::task::Poll::Ready(())
        } else {
            cx.waker().wake_by_ref();
            std::task::Poll::Pending
        }
    })
    .await
}

/// One round: flood the mailbox, let the actor task run `turns` times, then stop the actor.
/// Returns (handlers started after stop() returned, handled messages)
async fn round(turns: usize) -> (u32, u32) {
    let probe = Probe::default();
    let (actor, handle) = Actor::spawn(None, Worker, probe.clone())
        .await
        .expect("actor should start");
    // the actor is idle in its message loop
    while actor.get_status() != ActorStatus::Running {
        tokio::time::sleep(Duration::from_millis(1)).await;
    }
    tokio::time::sleep(Duration::from_millis(5)).await;

    // NOTE: MORE than 128 messages: on the UNMODIFIED tree tokio's cooperative budget
    // (128 operations per task poll) suspends the actor task inside run_with_signal, after the pick.
    for _ in 0..300 {
        actor.send_message(Work).expect("send should work");
    }
    // hand the executor thread to the actor task a few times
    for _ in 0..turns {
        reschedule().await;
    }

    actor.stop(Some("enough".to_string()));
    probe.stop_returned.store(true, Ordering::SeqCst);

    handle.await.expect("actor task should finish");
    assert_eq!(ActorStatus::Stopped, actor.get_status());
    assert!(
        probe.post_stop_ran.load(Ordering::SeqCst),
        "a graceful stop runs post_stop"
    );
    (
        probe.late_starts.load(Ordering::SeqCst),
        probe.handled.load(Ordering::SeqCst),
    )
}

#[tokio::test(flavor = "current_thread")]
async fn no_message_handler_starts_after_stop_returned() {
    // run the scenario as a spawned task, i.e. as a peer of the actor task in the run queue
    tokio::spawn(async {
        for trial in 0..40usize {
            let turns = trial % 8;
            let (late, handled) = round(turns).await;
            assert_eq!(
                0, late,
                "trial {trial} ({turns} turns, {handled} messages handled): {late} message \
                 handler(s) started after stop() had returned"
            );
        }
    })
    .await
    .expect("scenario should not panic");
}

//! C16 stress: output ports fan out in order, no duplicates
#![allow(clippy::type_complexity)]

use std::sync::atomic::{AtomicU64, Ordering};
use std::sync::{Arc, Mutex};
use std::time::Duration;

use ractor::{Actor, ActorProcessingErr, ActorRef, OutputPort};

#[derive(Clone, Debug)]
struct Pub {
    producer: u8,
    seq: u64,
}
#[cfg(feature = "cluster")]
impl ractor::Message for Pub {}

struct Sub;
struct SubMsg(Pub);
#[cfg(feature = "cluster")]
impl ractor::Message for SubMsg {}

struct SubState {
    log: Arc<Mutex<Vec<Pub>>>,
    stop_after: Option<usize>,
    slow_every: Option<usize>,
}

#[cfg_attr(feature = "async-trait", ractor::async_trait)]
impl Actor for Sub {
    type Msg = SubMsg;
    type State = SubState;
    type Arguments = SubState;
    async fn pre_start(
        &self,
        _: ActorRef<Self::Msg>,
        a: SubState,
    ) -> Result<Self::State, ActorProcessingErr> {
        Ok(a)
    }
    async fn handle(
        &self,
        myself: ActorRef<Self::Msg>,
        m: SubMsg,
        s: &mut SubState,
    ) -> Result<(), ActorProcessingErr> {
        let n = {
            let mut l = s.log.lock().unwrap();
            l.push(m.0);
            l.len()
        };
        if let Some(k) = s.slow_every {
            if n % k == 0 {
                tokio::time::sleep(Duration::from_millis(1)).await;
            }
        }
        if let Some(k) = s.stop_after {
            if n >= k {
                myself.stop(None);
            }
        }
        Ok(())
    }
}

struct SubInfo {
    idx: usize,
    log: Arc<Mutex<Vec<Pub>>>,
    // per producer: first seq that is guaranteed to be seen (published after subscription)
    sub_point: [u64; 2],
    // per producer: seq values < this MAY have been seen (race between subscribe and other producer)
    stops: bool,
    actor: ActorRef<SubMsg>,
    modulus: u64,
}

fn keep(modulus: u64, p: &Pub) -> bool {
    (p.seq + p.producer as u64) % modulus != 0
}

async fn run(round: u64, per_producer: u64, pace: bool) {
    let port = Arc::new(OutputPort::<Pub>::default());
    let next: Arc<[AtomicU64; 2]> = Arc::new([AtomicU64::new(0), AtomicU64::new(0)]);
    let n_subs = 24usize;

    let subs: Arc<Mutex<Vec<SubInfo>>> = Arc::new(Mutex::new(vec![]));

    // producers
    let mut producers = vec![];
    for p in 0..2u8 {
        let port = port.clone();
        let next = next.clone();
        producers.push(tokio::spawn(async move {
            for s in 0..per_producer {
                // "published" marker is bumped BEFORE send so that sub_point is conservative:
                // any seq >= value read after subscribe() returned is published after subscription.
                next[p as usize].store(s + 1, Ordering::SeqCst);
                port.send(Pub {
                    producer: p,
                    seq: s,
                });
                if pace {
                    if s % 4 == 0 {
                        tokio::time::sleep(Duration::from_micros(300)).await;
                    }
                } else if s % 64 == 0 {
                    tokio::task::yield_now().await;
                }
            }
        }));
    }

    // subscriber manager: subscribes at arbitrary points
    let mut handles = vec![];
    for i in 0..n_subs {
        let log = Arc::new(Mutex::new(vec![]));
        let stops = i % 3 == 0;
        let st = SubState {
            log: log.clone(),
            stop_after: if stops {
                Some(5 + (i * 37 + round as usize * 11) % 200)
            } else {
                None
            },
            slow_every: if i % 5 == 1 { Some(50) } else { None },
        };
        let (actor, h) = Actor::spawn(None, Sub, st).await.unwrap();
        handles.push(h);
        let modulus = 2 + (i as u64 % 5);
        port.subscribe(actor.clone(), move |p: Pub| {
            if keep(modulus, &p) {
                Some(SubMsg(p))
            } else {
                None
            }
        });
        // everything with seq >= this value is published strictly after subscribe() returned
        let sub_point = [
            next[0].load(Ordering::SeqCst),
            next[1].load(Ordering::SeqCst),
        ];
        subs.lock().unwrap().push(SubInfo {
            idx: i,
            log,
            sub_point,
            stops,
            actor,
            modulus,
        });
        if i % 2 == 0 {
            tokio::time::sleep(Duration::from_micros(200 + (i as u64 * 53) % 700)).await;
        } else {
            tokio::task::yield_now().await;
        }
    }

    for p in producers {
        p.await.unwrap();
    }
    // let forwarders catch up, then publish one final marker per producer
    tokio::time::sleep(Duration::from_millis(150)).await;
    for p in 0..2u8 {
        port.send(Pub {
            producer: p,
            seq: 1_000_000_007 + p as u64 * 2, // kept by every modulus? checked below
        });
    }
    tokio::time::sleep(Duration::from_millis(150)).await;
    // wait for quiescence of the subscriber mailboxes (slow subscribers)
    let mut last_total = usize::MAX;
    for _ in 0..200 {
        let total: usize = subs
            .lock()
            .unwrap()
            .iter()
            .map(|s| s.log.lock().unwrap().len())
            .sum();
        if total == last_total {
            break;
        }
        last_total = total;
        tokio::time::sleep(Duration::from_millis(100)).await;
    }

    let subs = subs.lock().unwrap();
    for s in subs.iter() {
        let log = s.log.lock().unwrap().clone();
        for p in 0..2u8 {
            let got: Vec<u64> = log
                .iter()
                .filter(|m| m.producer == p)
                .map(|m| m.seq)
                .collect();
            // strictly increasing => ordered and never twice
            for w in got.windows(2) {
                assert!(
                    w[0] < w[1],
                    "round {round} sub {} producer {p}: out of order / duplicate {:?}",
                    s.idx,
                    w
                );
            }
            // converter None are skipped
            for g in &got {
                assert!(
                    keep(s.modulus, &Pub { producer: p, seq: *g }),
                    "round {round} sub {}: got filtered msg {g}",
                    s.idx
                );
            }
            let marker = 1_000_000_007 + p as u64 * 2;
            let expected: Vec<u64> = (s.sub_point[p as usize]..per_producer)
                .chain(std::iter::once(marker))
                .filter(|q| keep(s.modulus, &Pub { producer: p, seq: *q }))
                .collect();
            // restrict to the guaranteed region
            let got_g: Vec<u64> = got
                .iter()
                .copied()
                .filter(|g| *g >= s.sub_point[p as usize])
                .collect();
            if !s.stops {
                if cfg!(feature = "output-port-v2") || pace {
                    assert_eq!(
                        got_g.len(),
                        expected.len(),
                        "round {round} sub {} producer {p} sub_point {:?}: missing messages; first diff {:?}",
                        s.idx,
                        s.sub_point,
                        expected
                            .iter()
                            .zip(got_g.iter())
                            .find(|(a, b)| a != b)
                    );
                    assert_eq!(got_g, expected);
                } else {
                    // v1 may lag, but must keep receiving later ones: the final marker
                    if keep(s.modulus, &Pub { producer: p, seq: marker }) {
                        assert_eq!(
                            got.last().copied(),
                            Some(marker),
                            "round {round} sub {} producer {p}: did not keep receiving after lag",
                            s.idx
                        );
                    }
                }
            } else if cfg!(feature = "output-port-v2") || pace {
                // stopped subscriber: what it handled in the guaranteed region is a prefix of expected
                assert!(
                    got_g.len() <= expected.len() && got_g[..] == expected[..got_g.len()],
                    "round {round} sub {} (stopping) producer {p}: not a prefix",
                    s.idx
                );
            }
        }
    }
    for s in subs.iter() {
        s.actor.stop(None);
    }
    drop(subs);
    for h in handles {
        let _ = h.await;
    }
}

#[tokio::test(flavor = "multi_thread", worker_threads = 4)]
async fn c16_stress_paced() {
    for round in 0..15 {
        run(round, 1500, true).await;
    }
}

#[tokio::test(flavor = "multi_thread", worker_threads = 4)]
async fn c16_stress_burst() {
    for round in 0..15 {
        run(round, 6000, false).await;
    }
}

#[tokio::test(flavor = "current_thread")]
async fn c16_stress_burst_current_thread() {
    for round in 0..6 {
        run(round, 4000, false).await;
    }
}

//! C16 demonstration (borderline scope, see report.md):
//! with the `output-port-v2` port a panic inside ONE subscriber's converter kills the
//! single fan-out task, so every OTHER (healthy, running) subscriber silently stops
//! receiving all later publications, and later subscriptions are ignored as well.
//! The default (v1) port isolates the failure to the one subscription (this test passes there).
//!
//! Run (fails on the unmodified tree):
//!   cargo test -j4 --offline -p ractor --features output-port-v2 --test c16_converter_panic_isolation -- --test-threads 4
//! Control (passes on the unmodified tree, default port):
//!   cargo test -j4 --offline -p ractor --test c16_converter_panic_isolation -- --test-threads 4

use std::sync::{Arc, Mutex};
use std::time::Duration;

use ractor::{Actor, ActorProcessingErr, ActorRef, OutputPort};

struct Recorder;
struct Rec(u32);
#[cfg(feature = "cluster")]
impl ractor::Message for Rec {}

#[cfg_attr(feature = "async-trait", ractor::async_trait)]
impl Actor for Recorder {
    type Msg = Rec;
    type State = Arc<Mutex<Vec<u32>>>;
    type Arguments = Arc<Mutex<Vec<u32>>>;
    async fn pre_start(
        &self,
        _: ActorRef<Self::Msg>,
        log: Self::Arguments,
    ) -> Result<Self::State, ActorProcessingErr> {
        Ok(log)
    }
    async fn handle(
        &self,
        _: ActorRef<Self::Msg>,
        m: Rec,
        log: &mut Self::State,
    ) -> Result<(), ActorProcessingErr> {
        log.lock().unwrap().push(m.0);
        Ok(())
    }
}

async fn wait_for(log: &Arc<Mutex<Vec<u32>>>, expected: &[u32]) -> Vec<u32> {
    for _ in 0..200 {
        if log.lock().unwrap().as_slice() == expected {
            break;
        }
        tokio::time::sleep(Duration::from_millis(10)).await;
    }
    log.lock().unwrap().clone()
}

#[tokio::test(flavor = "multi_thread", worker_threads = 2)]
async fn healthy_subscribers_keep_receiving_when_another_subscribers_converter_panics() {
    let log_bad = Arc::new(Mutex::new(vec![]));
    let log_good = Arc::new(Mutex::new(vec![]));
    let log_late = Arc::new(Mutex::new(vec![]));
    let (bad, h_bad) = Actor::spawn(None, Recorder, log_bad.clone()).await.unwrap();
    let (good, h_good) = Actor::spawn(None, Recorder, log_good.clone()).await.unwrap();
    let (late, h_late) = Actor::spawn(None, Recorder, log_late.clone()).await.unwrap();

    let port = OutputPort::<u32>::default();
    port.subscribe(bad.clone(), |v| {
        if v == 3 {
            panic!("converter of the faulty subscriber panics on 3");
        }
        Some(Rec(v))
    });
    port.subscribe(good.clone(), |v| Some(Rec(v)));

    // publish one at a time, letting the port settle, so neither buffer size nor batching matters
    for v in 1..=5u32 {
        port.send(v);
        tokio::time::sleep(Duration::from_millis(20)).await;
    }

    // the healthy subscriber is alive and must have received everything, in order
    assert_eq!(ractor::ActorStatus::Running, good.get_status());
    let got = wait_for(&log_good, &[1, 2, 3, 4, 5]).await;
    assert_eq!(
        vec![1, 2, 3, 4, 5],
        got,
        "healthy subscriber missed publications after another subscriber's converter panicked"
    );

    // a subscriber added afterwards receives what is published after its subscription
    port.subscribe(late.clone(), |v| Some(Rec(v)));
    port.send(6);
    port.send(7);
    let got_late = wait_for(&log_late, &[6, 7]).await;
    assert_eq!(vec![6, 7], got_late, "late subscriber got nothing");
    let got = wait_for(&log_good, &[1, 2, 3, 4, 5, 6, 7]).await;
    assert_eq!(vec![1, 2, 3, 4, 5, 6, 7], got);

    for a in [bad, good, late] {
        a.stop(None);
    }
    for h in [h_bad, h_good, h_late] {
        h.await.unwrap();
    }
}

// C17 demonstration: a peer that does NOT know the cookie completes the challenge
// handshake on a server-side AND a client-side session of the same node by
// reflecting the node's own challenge back to it (the node answers, as a client,
// a challenge value chosen by the unauthenticated "server"; the digest is the very
// one its own server-side session is waiting for, and vice versa for the ack).
//
// The adversary below never touches the cookie, it only copies bytes between the
// two sessions. Afterwards it is listed as an authenticated session, is sent the
// node's actor inventory, and its casts are delivered to a local actor.

mod c17_common;

use std::sync::atomic::AtomicUsize;
use std::sync::atomic::Ordering;
use std::sync::Arc;
use std::time::Duration;

use c17_common::*;
use ractor::Actor;
use ractor_cluster::NodeServer;
use ractor_cluster::NodeServerMessage;

const WAIT: Duration = Duration::from_secs(5);

#[tokio::test(flavor = "multi_thread", worker_threads = 2)]
async fn peer_without_cookie_authenticates_by_reflecting_the_nodes_own_challenge() {
    reflect("mallory@evil", "mallory2@evil").await;
}

/// Same reflection, but the adversary presents the victim's own name on both sessions (the
/// only way left once the digests are bound to the endpoint names). The self-connection
/// check has to end both sessions. Passes on the unmodified tree as well.
#[tokio::test(flavor = "multi_thread", worker_threads = 2)]
async fn reflection_under_the_nodes_own_name_is_refused() {
    reflect("victim@host", "victim@host").await;
}

#[allow(non_snake_case)]
async fn reflect(ADVERSARY_CLIENT_NAME: &str, ADVERSARY_SERVER_NAME: &str) {
    // ---- the victim node, with a secret cookie the adversary never sees
    let (victim, victim_handle) = Actor::spawn(
        None,
        NodeServer::new(
            0,
            "the-real-secret-cookie".to_string(),
            "victim".to_string(),
            "host".to_string(),
            None,
            Some(ractor_cluster::node::NodeConnectionMode::Isolated),
        ),
        (),
    )
    .await
    .expect("victim node starts");
    // mailbox barrier: listener port registered
    ractor::call_t!(victim, NodeServerMessage::GetSessions, 1000).expect("barrier");

    // a local actor which supports remote messaging
    let received = Arc::new(AtomicUsize::new(0));
    let (target, target_handle) = Actor::spawn(
        None,
        RemotableCounter {
            received: received.clone(),
        },
        (),
    )
    .await
    .expect("target starts");
    let target_pid = target.get_id().pid();

    // ---- connection 1: the adversary dials the victim (victim side = server session)
    let (srv_victim_end, mut srv) = RawPeer::pair("adversary-inbound");
    victim
        .cast(NodeServerMessage::ConnectionOpenedExternal {
            stream: Box::new(srv_victim_end),
            is_server: true,
        })
        .expect("enqueue");
    // ---- connection 2: the victim dials an address the adversary answers on
    //      (victim side = client session)
    let (cli_victim_end, mut cli) = RawPeer::pair("adversary-outbound");
    ractor_cluster::client_connect_external(&victim, Box::new(cli_victim_end))
        .await
        .expect("enqueue");

    // The reflection itself. Every step which the node refuses ends the attempt (None).
    let attempt = async {
        // (1) on the server-side session: announce a name, obtain the victim's challenge
        srv.send(auth_name(ADVERSARY_CLIENT_NAME, "evil:1", 7)).await;
        let Frame::Auth(2, _) = srv.recv(WAIT).await? else {
            return None;
        };
        let Frame::Auth(4, challenge_fields) = srv.recv(WAIT).await? else {
            return None;
        };
        let victim_server_challenge = get_varint(&challenge_fields, 3).unwrap_or(0) as u32;

        // (2) on the client-side session: the victim announced itself; play "server" and
        //     hand the victim ITS OWN challenge value
        let Frame::Auth(1, _) = cli.recv(WAIT).await? else {
            return None;
        };
        cli.send(auth_server_status(0)).await;
        cli.send(auth_server_challenge(
            ADVERSARY_SERVER_NAME,
            "evil:2",
            victim_server_challenge,
        ))
        .await;
        let Frame::Auth(5, reply_fields) = cli.recv(WAIT).await? else {
            return None;
        };
        let digest_for_server = get_bytes(&reply_fields, 2)?;
        let victim_client_challenge = get_varint(&reply_fields, 1).unwrap_or(0) as u32;

        // (3) reflect digest + the victim's client challenge into the server-side session
        srv.send(auth_client_challenge(
            victim_client_challenge,
            &digest_for_server,
        ))
        .await;
        let Frame::Auth(6, ack_fields) = srv.recv(WAIT).await? else {
            return None;
        };
        let digest_for_client = get_bytes(&ack_fields, 1)?;

        // (4) reflect the ack into the client-side session
        cli.send(auth_server_ack(&digest_for_client)).await;
        Some(())
    };
    let handshakes_completed = attempt.await.is_some();

    // give both sessions time to run their post-authentication synchronisation
    let mut inventory = vec![];
    let deadline = tokio::time::Instant::now() + Duration::from_secs(2);
    while tokio::time::Instant::now() < deadline {
        if let Some(frame) = srv.recv(Duration::from_millis(200)).await {
            let done = matches!(frame, Frame::Control(9, _));
            inventory.push(frame);
            if done {
                break;
            }
        }
    }

    // the adversary now behaves like a cluster member: cast to the local actor
    srv.send(node_cast(target_pid)).await;
    cli.send(node_cast(target_pid)).await;
    tokio::time::sleep(Duration::from_millis(500)).await;

    let sessions = ractor::call_t!(victim, NodeServerMessage::GetSessions, 1000)
        .expect("sessions")
        .into_values()
        .map(|s| (s.peer_name.map(|n| n.name), s.is_server))
        .collect::<Vec<_>>();
    let delivered = received.load(Ordering::SeqCst);
    let got_inventory = inventory
        .iter()
        .any(|f| matches!(f, Frame::Control(1, _)));

    victim.stop(None);
    target.stop(None);
    let _ = victim_handle.await;
    let _ = target_handle.await;

    // PROPERTY C17: nobody proved knowledge of the cookie, so nothing may have taken effect
    assert!(
        sessions.is_empty() && delivered == 0 && !got_inventory,
        "a peer which never knew the cookie became authenticated \
         (both reflected handshakes accepted = {handshakes_completed}): \
         listed sessions = {sessions:?}, messages delivered to the local actor = {delivered}, \
         actor inventory (Spawn) sent to the peer = {got_inventory}"
    );
}

// C17 examination harness (these checks PASS on the unmodified tree): an adversarial peer
// holding a wrong cookie drives server-side and client-side sessions with scripted and
// pseudo-random sequences of well-formed, out-of-order and malformed frames. After every
// sequence: no message reached the local remotable actor, no remote-actor proxy was created,
// no process group changed, no session is listed, the node sent nothing but authentication
// frames, and a bad authentication message closed the connection.

mod c17_common;

use std::sync::atomic::AtomicUsize;
use std::sync::atomic::Ordering;
use std::sync::Arc;
use std::sync::Mutex;
use std::time::Duration;

use c17_common::*;
use ractor::Actor;
use ractor::ActorRef;
use ractor_cluster::node::NodeServerSessionInformation;
use ractor_cluster::NodeEventSubscription;
use ractor_cluster::NodeServer;
use ractor_cluster::NodeServerMessage;
use ractor_cluster::NodeSessionMessage;
use sha2::Digest;

const WAIT: Duration = Duration::from_secs(3);
const SCOPE: &str = "c17-scope";
const GROUP: &str = "c17-group";

fn wrong_digest(cookie: &str, challenge: u32) -> Vec<u8> {
    let mut data = challenge.to_be_bytes().to_vec();
    data.extend_from_slice(cookie.as_bytes());
    sha2::Sha256::digest(&data).to_vec()
}

struct Opened(Arc<Mutex<Vec<ActorRef<NodeSessionMessage>>>>);
impl NodeEventSubscription for Opened {
    fn node_session_opened(&self, ses: NodeServerSessionInformation) {
        self.0.lock().unwrap().push(ses.actor);
    }
    fn node_session_disconnected(&self, _ses: NodeServerSessionInformation) {}
    fn node_session_authenticated(&self, ses: NodeServerSessionInformation) {
        panic!("session {:?} reported authenticated", ses.peer_name);
    }
}

struct Victim {
    node: ActorRef<NodeServerMessage>,
    received: Arc<AtomicUsize>,
    target_pid: u64,
    opened: Arc<Mutex<Vec<ActorRef<NodeSessionMessage>>>>,
}

impl Victim {
    async fn start(name: &str) -> Self {
        let (node, _) = Actor::spawn(
            None,
            NodeServer::new(
                0,
                "the-real-secret-cookie".to_string(),
                name.to_string(),
                "host".to_string(),
                None,
                None,
            ),
            (),
        )
        .await
        .expect("victim node starts");
        let opened = Arc::new(Mutex::new(vec![]));
        node.cast(NodeServerMessage::SubscribeToEvents {
            id: "c17".to_string(),
            subscription: Box::new(Opened(opened.clone())),
        })
        .unwrap();
        ractor::call_t!(node, NodeServerMessage::GetSessions, 1000).expect("barrier");
        let received = Arc::new(AtomicUsize::new(0));
        let (target, _) = Actor::spawn(
            None,
            RemotableCounter {
                received: received.clone(),
            },
            (),
        )
        .await
        .expect("target starts");
        Self {
            node,
            received,
            target_pid: target.get_id().pid(),
            opened,
        }
    }

    /// Open a session on the victim; returns the adversary's end and the session actor
    async fn open(&self, is_server: bool) -> (RawPeer, ActorRef<NodeSessionMessage>) {
        let before = self.opened.lock().unwrap().len();
        let (victim_end, peer) = RawPeer::pair("adversary");
        self.node
            .cast(NodeServerMessage::ConnectionOpenedExternal {
                stream: Box::new(victim_end),
                is_server,
            })
            .unwrap();
        ractor::call_t!(self.node, NodeServerMessage::GetSessions, 1000).expect("barrier");
        let session = self.opened.lock().unwrap()[before].clone();
        (peer, session)
    }

    /// The frames an adversary uses to try to make something happen
    fn effect_frames(&self) -> Vec<Vec<u8>> {
        vec![
            node_cast(self.target_pid),
            node_call(self.target_pid, 1),
            control_spawn(4242, Some("c17-proxy")),
            control_pg_join(SCOPE, GROUP, 4243),
            control_enumerate("x@y", "y:1"),
            control_ready(),
            control_ping(),
        ]
    }

    /// Check that nothing took effect. `seen` are all frames the node sent on the connection.
    async fn check(
        &self,
        what: &str,
        peer: &mut RawPeer,
        session: &ActorRef<NodeSessionMessage>,
        mut seen: Vec<Frame>,
        expect_close: bool,
    ) {
        let closed = peer
            .closed_within(
                if expect_close {
                    WAIT
                } else {
                    Duration::from_millis(150)
                },
                &mut seen,
            )
            .await;
        if expect_close {
            assert!(closed, "[{what}] bad authentication message did not close the session");
        }
        assert_eq!(
            self.received.load(Ordering::SeqCst),
            0,
            "[{what}] message delivered to a local actor"
        );
        assert!(
            ractor::pg::get_scoped_members(&SCOPE.to_string(), &GROUP.to_string()).is_empty(),
            "[{what}] process group changed"
        );
        assert!(
            ractor::registry::where_is("c17-proxy".to_string()).is_none(),
            "[{what}] remote actor proxy created"
        );
        // the only child an unauthenticated session may have is its TCP session actor
        assert!(
            session.get_children().len() <= 1,
            "[{what}] remote actor proxy created: {:?}",
            session.get_children()
        );
        let listed = ractor::call_t!(self.node, NodeServerMessage::GetSessions, 1000).unwrap();
        assert!(listed.is_empty(), "[{what}] session listed");
        for frame in &seen {
            assert!(
                matches!(frame, Frame::Auth(_, _)),
                "[{what}] node sent a non-authentication frame to an unauthenticated peer: {frame:?}"
            );
        }
        if !closed {
            // whatever state it is in, it must not report itself authenticated
            if let Ok(auth) =
                ractor::call_t!(session, NodeSessionMessage::GetAuthenticationState, 1000)
            {
                assert!(!auth, "[{what}] session authenticated");
            }
            session.stop(None);
        }
    }
}

async fn send_all(peer: &mut RawPeer, frames: Vec<Vec<u8>>) {
    for f in frames {
        peer.send(f).await;
    }
}

/// Adversary acts as connecting client against the victim's server-side session
#[tokio::test(flavor = "multi_thread", worker_threads = 2)]
async fn server_side_session_scripted() {
    let v = Victim::start("victim-s").await;

    // effects before any authentication message: ignored, then a wrong-cookie handshake is closed
    let (mut p, s) = v.open(true).await;
    send_all(&mut p, v.effect_frames()).await;
    p.send(auth_name("mallory@evil", "evil:1", 9)).await;
    let mut seen = vec![];
    let status = p.recv(WAIT).await.expect("status");
    seen.push(status);
    let Some(Frame::Auth(4, ch)) = p.recv(WAIT).await else {
        panic!("challenge expected")
    };
    let c = get_varint(&ch, 3).unwrap_or(0) as u32;
    send_all(&mut p, v.effect_frames()).await;
    // wrong digest, immediately followed (pipelined) by more attempts
    p.send(auth_client_challenge(5, &wrong_digest("guess", c))).await;
    p.send(auth_client_challenge(5, &wrong_digest("guess2", c))).await;
    send_all(&mut p, v.effect_frames()).await;
    v.check("effects around a wrong-cookie handshake", &mut p, &s, seen, true)
        .await;

    // single out-of-order / malformed first authentication messages
    let firsts: Vec<(&str, Vec<u8>)> = vec![
        ("ClientChallenge first", auth_client_challenge(1, &[0u8; 32])),
        ("ClientStatus first", auth_client_status(true)),
        ("ServerStatus to a server", auth_server_status(0)),
        ("ServerChallenge to a server", auth_server_challenge("a@b", "b:1", 1)),
        ("ServerAck to a server", auth_server_ack(&[0u8; 32])),
        ("empty auth message", auth_empty()),
    ];
    for (what, first) in firsts {
        let (mut p, s) = v.open(true).await;
        p.send(first).await;
        // a "correct looking" continuation afterwards must not revive the session
        p.send(auth_name("mallory@evil", "evil:1", 9)).await;
        send_all(&mut p, v.effect_frames()).await;
        v.check(what, &mut p, &s, vec![], true).await;
    }

    // second-step violations after a valid Name
    let seconds: Vec<(&str, Vec<u8>)> = vec![
        ("Name twice", auth_name("mallory@evil", "evil:1", 9)),
        ("ClientStatus after OK", auth_client_status(true)),
        ("empty digest", auth_client_challenge(1, &[])),
        ("short digest", auth_client_challenge(1, &[0u8; 31])),
        ("empty auth after name", auth_empty()),
    ];
    for (what, second) in seconds {
        let (mut p, s) = v.open(true).await;
        p.send(auth_name("mallory@evil", "evil:1", 9)).await;
        p.send(second).await;
        send_all(&mut p, v.effect_frames()).await;
        v.check(what, &mut p, &s, vec![], true).await;
    }
}

/// Adversary acts as accepting server against the victim's client-side session
#[tokio::test(flavor = "multi_thread", worker_threads = 2)]
async fn client_side_session_scripted() {
    let v = Victim::start("victim-c").await;

    // full wrong-cookie handshake with effects interleaved
    for status in [0u64, 1, 4, 77] {
        let (mut p, s) = v.open(false).await;
        let mut seen = vec![p.recv(WAIT).await.expect("victim's Name")];
        send_all(&mut p, v.effect_frames()).await;
        p.send(auth_server_status(status)).await;
        if status == 4 {
            let st = p.recv(WAIT).await.expect("client status");
            assert!(matches!(st, Frame::Auth(3, _)));
            seen.push(st);
        }
        p.send(auth_server_challenge("mallory@evil", "evil:1", 1234)).await;
        let Some(Frame::Auth(5, reply)) = p.recv(WAIT).await else {
            panic!("client challenge expected")
        };
        let c = get_varint(&reply, 1).unwrap_or(0) as u32;
        send_all(&mut p, v.effect_frames()).await;
        p.send(auth_server_ack(&wrong_digest("guess", c))).await;
        p.send(auth_server_ack(&wrong_digest("guess2", c))).await;
        send_all(&mut p, v.effect_frames()).await;
        v.check(
            &format!("wrong-cookie server, status {status}"),
            &mut p,
            &s,
            seen,
            true,
        )
        .await;
    }

    let firsts: Vec<(&str, Vec<u8>)> = vec![
        ("ServerChallenge first", auth_server_challenge("a@b", "b:1", 1)),
        ("ServerAck first", auth_server_ack(&[0u8; 32])),
        ("Name to a client", auth_name("a@b", "b:1", 3)),
        ("ClientChallenge to a client", auth_client_challenge(1, &[0u8; 32])),
        ("ClientStatus to a client", auth_client_status(true)),
        ("status NOT_OK", auth_server_status(2)),
        ("status NOT_ALLOWED", auth_server_status(3)),
        ("empty auth message", auth_empty()),
    ];
    for (what, first) in firsts {
        let (mut p, s) = v.open(false).await;
        let seen = vec![p.recv(WAIT).await.expect("victim's Name")];
        p.send(first).await;
        p.send(auth_server_status(0)).await;
        p.send(auth_server_challenge("mallory@evil", "evil:1", 1)).await;
        send_all(&mut p, v.effect_frames()).await;
        v.check(what, &mut p, &s, seen, true).await;
    }

    let seconds: Vec<(&str, Vec<u8>)> = vec![
        ("ServerStatus twice", auth_server_status(0)),
        ("ServerAck before challenge", auth_server_ack(&[0u8; 32])),
        ("empty auth after status", auth_empty()),
    ];
    for (what, second) in seconds {
        let (mut p, s) = v.open(false).await;
        let seen = vec![p.recv(WAIT).await.expect("victim's Name")];
        p.send(auth_server_status(0)).await;
        p.send(second).await;
        send_all(&mut p, v.effect_frames()).await;
        v.check(what, &mut p, &s, seen, true).await;
    }
}

/// Pseudo-random frame sequences on both kinds of session
#[tokio::test(flavor = "multi_thread", worker_threads = 2)]
async fn random_sequences() {
    let v = Victim::start("victim-r").await;
    let mut seed: u64 = 0x9E3779B97F4A7C15;
    let mut rnd = move |n: u64| {
        seed = seed
            .wrapping_mul(6364136223846793005)
            .wrapping_add(1442695040888963407);
        (seed >> 33) % n
    };

    for round in 0..60 {
        let is_server = round % 2 == 0;
        let (mut p, s) = v.open(is_server).await;
        let mut menu = v.effect_frames();
        menu.extend(vec![
            auth_name("mallory@evil", "evil:1", 1 + rnd(5)),
            auth_server_status(rnd(6)),
            auth_client_status(rnd(2) == 0),
            auth_server_challenge("mallory@evil", "evil:1", rnd(1 << 32) as u32),
            auth_client_challenge(rnd(1 << 32) as u32, &wrong_digest("guess", rnd(1 << 32) as u32)),
            auth_server_ack(&wrong_digest("guess", rnd(1 << 32) as u32)),
            auth_empty(),
            vec![], // empty NetworkMessage
        ]);
        let len = 1 + rnd(10);
        let mut script = vec![];
        for _ in 0..len {
            let i = rnd(menu.len() as u64) as usize;
            script.push(i);
            p.send(menu[i].clone()).await;
        }
        // collect everything the node sends until it goes quiet
        let mut seen = vec![];
        let _ = p.closed_within(Duration::from_millis(300), &mut seen).await;
        v.check(
            &format!("random round {round} is_server={is_server} script={script:?}"),
            &mut p,
            &s,
            seen,
            false,
        )
        .await;
    }
}

// ------------------------------------------------------------------------------------------
// Last clause: on an AUTHENTICATED session (the peer knows the cookie) casts and calls reach
// only advertised local actors which support remote messaging.

struct LocalOnlyMessage;
impl ractor::Message for LocalOnlyMessage {}

struct LocalOnlyCounter {
    received: Arc<AtomicUsize>,
}

#[cfg_attr(feature = "async-trait", ractor::async_trait)]
impl Actor for LocalOnlyCounter {
    type Msg = LocalOnlyMessage;
    type State = ();
    type Arguments = ();
    async fn pre_start(
        &self,
        _myself: ActorRef<Self::Msg>,
        _: (),
    ) -> Result<Self::State, ractor::ActorProcessingErr> {
        Ok(())
    }
    async fn handle(
        &self,
        _myself: ActorRef<Self::Msg>,
        _message: Self::Msg,
        _state: &mut Self::State,
    ) -> Result<(), ractor::ActorProcessingErr> {
        self.received.fetch_add(1, Ordering::SeqCst);
        Ok(())
    }
}

#[tokio::test(flavor = "multi_thread", worker_threads = 2)]
async fn authenticated_peer_reaches_only_advertised_remotable_actors() {
    const COOKIE: &str = "shared-cookie";
    let (node, _) = Actor::spawn(
        None,
        NodeServer::new(
            0,
            COOKIE.to_string(),
            "victim-a".to_string(),
            "host".to_string(),
            None,
            None,
        ),
        (),
    )
    .await
    .unwrap();
    ractor::call_t!(node, NodeServerMessage::GetSessions, 1000).expect("barrier");
    let remotable = Arc::new(AtomicUsize::new(0));
    let (target, _) = Actor::spawn(
        None,
        RemotableCounter {
            received: remotable.clone(),
        },
        (),
    )
    .await
    .unwrap();
    let local_only = Arc::new(AtomicUsize::new(0));
    let (local, _) = Actor::spawn(
        None,
        LocalOnlyCounter {
            received: local_only.clone(),
        },
        (),
    )
    .await
    .unwrap();
    assert!(target.supports_remoting() && !local.supports_remoting());

    let (victim_end, mut p) = RawPeer::pair("member");
    node.cast(NodeServerMessage::ConnectionOpenedExternal {
        stream: Box::new(victim_end),
        is_server: true,
    })
    .unwrap();
    p.send(auth_name("member@host2", "host2:1", 11)).await;
    assert!(matches!(p.recv(WAIT).await, Some(Frame::Auth(2, _))));
    let Some(Frame::Auth(4, ch)) = p.recv(WAIT).await else {
        panic!("challenge expected")
    };
    let c = get_varint(&ch, 3).unwrap_or(0) as u32;
    p.send(auth_client_challenge(99, &wrong_digest(COOKIE, c))).await; // the RIGHT cookie here
    let Some(Frame::Auth(6, ack)) = p.recv(WAIT).await else {
        panic!("ack expected")
    };
    assert_eq!(get_bytes(&ack, 1).unwrap(), wrong_digest(COOKIE, 99));

    // read the inventory until Ready: the advertised pids
    let mut advertised = vec![];
    loop {
        match p.recv(WAIT).await.expect("sync frames") {
            Frame::Control(1, spawn) => {
                for (n, v) in spawn {
                    if let (1, Val::Bytes(actor)) = (n, v) {
                        advertised.push(get_varint(&decode(&actor), 1).unwrap_or(0));
                    }
                }
            }
            Frame::Control(9, _) => break,
            _ => {}
        }
    }
    assert!(advertised.contains(&target.get_id().pid()));
    assert!(!advertised.contains(&local.get_id().pid()));
    assert!(!advertised.contains(&node.get_id().pid()));

    // casts + calls to everything which was NOT advertised
    for pid in 0..(target.get_id().pid().max(local.get_id().pid()) + 50) {
        if !advertised.contains(&pid) {
            p.send(node_cast(pid)).await;
            p.send(node_call(pid, pid)).await;
        }
    }
    // and one to the advertised actor, which is processed after all of the above
    p.send(node_cast(target.get_id().pid())).await;
    let deadline = tokio::time::Instant::now() + WAIT;
    while remotable.load(Ordering::SeqCst) == 0 && tokio::time::Instant::now() < deadline {
        tokio::time::sleep(Duration::from_millis(20)).await;
    }
    tokio::time::sleep(Duration::from_millis(100)).await;
    assert_eq!(remotable.load(Ordering::SeqCst), 1);
    assert_eq!(local_only.load(Ordering::SeqCst), 0);
    for cell in [local.get_cell(), node.get_cell(), target.get_cell()] {
        assert_eq!(cell.get_status(), ractor::ActorStatus::Running);
    }
    // a new remotable actor becomes reachable only once it was advertised (Spawn frame)
    let late = Arc::new(AtomicUsize::new(0));
    let (late_actor, _) = Actor::spawn(
        None,
        RemotableCounter {
            received: late.clone(),
        },
        (),
    )
    .await
    .unwrap();
    let late_pid = late_actor.get_id().pid();
    loop {
        // (other tests of this binary spawn actors too: wait for OUR actor's advert)
        if let Frame::Control(1, spawn) = p.recv(WAIT).await.expect("spawn advert") {
            if spawn.iter().any(|(n, v)| matches!((n, v), (1, Val::Bytes(a)) if get_varint(&decode(a), 1) == Some(late_pid))) {
                break;
            }
        }
    }
    p.send(node_cast(late_actor.get_id().pid())).await;
    let deadline = tokio::time::Instant::now() + WAIT;
    while late.load(Ordering::SeqCst) == 0 && tokio::time::Instant::now() < deadline {
        tokio::time::sleep(Duration::from_millis(20)).await;
    }
    assert_eq!(late.load(Ordering::SeqCst), 1);
    // after its termination was announced it is no longer reachable
    late_actor.stop(None);
    loop {
        if let Frame::Control(2, term) = p.recv(WAIT).await.expect("terminate advert") {
            // `repeated uint64 ids = 1` is packed
            if term.iter().any(|(n, v)| match (n, v) {
                (1, Val::Varint(id)) => *id == late_pid,
                (1, Val::Bytes(packed)) => {
                    let mut rest = packed.as_slice();
                    let mut found = false;
                    while !rest.is_empty() {
                        let mut id = 0u64;
                        let mut shift = 0;
                        loop {
                            let b = rest[0];
                            rest = &rest[1..];
                            id |= ((b & 0x7f) as u64) << shift;
                            shift += 7;
                            if b & 0x80 == 0 {
                                break;
                            }
                        }
                        found |= id == late_pid;
                    }
                    found
                }
                _ => false,
            }) {
                break;
            }
        }
    }
    p.send(node_cast(late_actor.get_id().pid())).await;
    tokio::time::sleep(Duration::from_millis(100)).await;
    assert_eq!(late.load(Ordering::SeqCst), 1);
}

// Shared helpers for the C17 hunt tests: a hand-rolled protobuf codec for the
// (crate-private) cluster wire protocol, a raw adversarial peer that speaks the
// length-prefixed framing over an in-memory duplex stream, and a remotable
// counting actor used as the "victim" local actor.
#![allow(dead_code)]

use std::sync::atomic::AtomicUsize;
use std::sync::atomic::Ordering;
use std::sync::Arc;
use std::time::Duration;

use ractor::message::SerializedMessage;
use ractor::Actor;
use ractor::ActorProcessingErr;
use ractor::ActorRef;
use ractor_cluster::BoxRead;
use ractor_cluster::BoxWrite;
use ractor_cluster::ClusterBidiStream;
use tokio::io::AsyncReadExt;
use tokio::io::AsyncWriteExt;
use tokio::io::DuplexStream;

// ------------------------------------------------------------------ protobuf

pub fn varint(mut v: u64, out: &mut Vec<u8>) {
    loop {
        let b = (v & 0x7f) as u8;
        v >>= 7;
        if v == 0 {
            out.push(b);
            return;
        }
        out.push(b | 0x80);
    }
}

/// field with wire type 2 (length delimited)
pub fn f_bytes(num: u32, data: &[u8]) -> Vec<u8> {
    let mut out = vec![];
    varint(((num as u64) << 3) | 2, &mut out);
    varint(data.len() as u64, &mut out);
    out.extend_from_slice(data);
    out
}

/// field with wire type 0 (varint)
pub fn f_varint(num: u32, v: u64) -> Vec<u8> {
    let mut out = vec![];
    varint((num as u64) << 3, &mut out);
    varint(v, &mut out);
    out
}

pub fn cat(parts: &[Vec<u8>]) -> Vec<u8> {
    parts.iter().flat_map(|p| p.iter().copied()).collect()
}

#[derive(Debug, Clone)]
pub enum Val {
    Varint(u64),
    Bytes(Vec<u8>),
}

/// Decode one protobuf message level into (field number, value) pairs
pub fn decode(mut data: &[u8]) -> Vec<(u32, Val)> {
    fn rd_varint(data: &mut &[u8]) -> u64 {
        let mut v = 0u64;
        let mut shift = 0;
        loop {
            let b = data[0];
            *data = &data[1..];
            v |= ((b & 0x7f) as u64) << shift;
            if b & 0x80 == 0 {
                return v;
            }
            shift += 7;
        }
    }
    let mut out = vec![];
    while !data.is_empty() {
        let key = rd_varint(&mut data);
        let num = (key >> 3) as u32;
        match key & 7 {
            0 => out.push((num, Val::Varint(rd_varint(&mut data)))),
            2 => {
                let len = rd_varint(&mut data) as usize;
                out.push((num, Val::Bytes(data[..len].to_vec())));
                data = &data[len..];
            }
            1 => data = &data[8..],
            5 => data = &data[4..],
            other => panic!("unsupported wire type {other}"),
        }
    }
    out
}

pub fn get_bytes(fields: &[(u32, Val)], num: u32) -> Option<Vec<u8>> {
    fields.iter().find_map(|(n, v)| match v {
        Val::Bytes(b) if *n == num => Some(b.clone()),
        _ => None,
    })
}

pub fn get_varint(fields: &[(u32, Val)], num: u32) -> Option<u64> {
    fields.iter().find_map(|(n, v)| match v {
        Val::Varint(b) if *n == num => Some(*b),
        _ => None,
    })
}

// ------------------------------------------------------- wire message builders

// meta.NetworkMessage { auth = 1; node = 2; control = 3 }
pub fn net_auth(auth: Vec<u8>) -> Vec<u8> {
    f_bytes(1, &auth)
}
pub fn net_node(node: Vec<u8>) -> Vec<u8> {
    f_bytes(2, &node)
}
pub fn net_control(control: Vec<u8>) -> Vec<u8> {
    f_bytes(3, &control)
}

pub fn name_message(name: &str, connection_string: &str, connection_id: u64) -> Vec<u8> {
    cat(&[
        f_bytes(1, name.as_bytes()),
        f_bytes(2, &f_varint(1, 1)),
        f_bytes(3, connection_string.as_bytes()),
        f_varint(4, connection_id),
    ])
}

/// auth.AuthenticationMessage { name = 1 }
pub fn auth_name(name: &str, connection_string: &str, connection_id: u64) -> Vec<u8> {
    net_auth(f_bytes(
        1,
        &name_message(name, connection_string, connection_id),
    ))
}
/// auth.AuthenticationMessage { server_status = 2 }
pub fn auth_server_status(status: u64) -> Vec<u8> {
    let inner = if status == 0 {
        vec![]
    } else {
        f_varint(1, status)
    };
    net_auth(f_bytes(2, &inner))
}
/// auth.AuthenticationMessage { client_status = 3 }
pub fn auth_client_status(status: bool) -> Vec<u8> {
    let inner = if status { f_varint(1, 1) } else { vec![] };
    net_auth(f_bytes(3, &inner))
}
/// auth.AuthenticationMessage { server_challenge = 4 }
pub fn auth_server_challenge(name: &str, connection_string: &str, challenge: u32) -> Vec<u8> {
    net_auth(f_bytes(
        4,
        &cat(&[
            f_bytes(1, name.as_bytes()),
            f_bytes(2, &f_varint(1, 1)),
            f_varint(3, challenge as u64),
            f_bytes(4, connection_string.as_bytes()),
        ]),
    ))
}
/// auth.AuthenticationMessage { client_challenge = 5 }
pub fn auth_client_challenge(challenge: u32, digest: &[u8]) -> Vec<u8> {
    net_auth(f_bytes(
        5,
        &cat(&[f_varint(1, challenge as u64), f_bytes(2, digest)]),
    ))
}
/// auth.AuthenticationMessage { server_ack = 6 }
pub fn auth_server_ack(digest: &[u8]) -> Vec<u8> {
    net_auth(f_bytes(6, &f_bytes(1, digest)))
}
/// an AuthenticationMessage without any `msg`
pub fn auth_empty() -> Vec<u8> {
    net_auth(vec![])
}

pub fn control_actor(pid: u64, name: Option<&str>) -> Vec<u8> {
    let mut parts = vec![f_varint(1, pid)];
    if let Some(n) = name {
        parts.push(f_bytes(2, n.as_bytes()));
    }
    cat(&parts)
}
/// control.ControlMessage { spawn = 1 }
pub fn control_spawn(pid: u64, name: Option<&str>) -> Vec<u8> {
    net_control(f_bytes(1, &f_bytes(1, &control_actor(pid, name))))
}
/// control.ControlMessage { ping = 3 }
pub fn control_ping() -> Vec<u8> {
    net_control(f_bytes(3, &[]))
}
/// control.ControlMessage { pg_join = 5 }
pub fn control_pg_join(scope: &str, group: &str, pid: u64) -> Vec<u8> {
    net_control(f_bytes(
        5,
        &cat(&[
            f_bytes(1, group.as_bytes()),
            f_bytes(2, &control_actor(pid, None)),
            f_bytes(3, scope.as_bytes()),
        ]),
    ))
}
/// control.ControlMessage { enumerate_node_sessions = 7 }
pub fn control_enumerate(name: &str, connection_string: &str) -> Vec<u8> {
    net_control(f_bytes(7, &name_message(name, connection_string, 0)))
}
/// control.ControlMessage { ready = 9 }
pub fn control_ready() -> Vec<u8> {
    net_control(f_bytes(9, &[]))
}
/// node.NodeMessage { cast = 1 }
pub fn node_cast(to: u64) -> Vec<u8> {
    net_node(f_bytes(
        1,
        &cat(&[f_varint(1, to), f_bytes(2, b"x"), f_bytes(3, b"Cast")]),
    ))
}
/// node.NodeMessage { call = 2 }
pub fn node_call(to: u64, tag: u64) -> Vec<u8> {
    net_node(f_bytes(
        2,
        &cat(&[
            f_varint(1, to),
            f_bytes(2, b"x"),
            f_varint(3, tag),
            f_varint(4, 200),
            f_bytes(5, b"Call"),
        ]),
    ))
}

/// What a frame received from the victim node is
#[derive(Debug, Clone)]
pub enum Frame {
    Empty,
    /// (oneof field number of AuthenticationMessage, inner fields)
    Auth(u32, Vec<(u32, Val)>),
    /// (oneof field number of NodeMessage, inner fields)
    Node(u32, Vec<(u32, Val)>),
    /// (oneof field number of ControlMessage, inner fields)
    Control(u32, Vec<(u32, Val)>),
}

pub fn classify(payload: &[u8]) -> Frame {
    let top = decode(payload);
    let Some((kind, Val::Bytes(inner))) = top.into_iter().next() else {
        return Frame::Empty;
    };
    let fields = decode(&inner);
    let Some((which, Val::Bytes(body))) = fields.into_iter().next() else {
        return Frame::Empty;
    };
    let body = decode(&body);
    match kind {
        1 => Frame::Auth(which, body),
        2 => Frame::Node(which, body),
        3 => Frame::Control(which, body),
        _ => Frame::Empty,
    }
}

// ------------------------------------------------------------- raw peer

/// The victim's end of an in-memory connection
pub struct VictimEnd(pub DuplexStream, pub &'static str);

impl ClusterBidiStream for VictimEnd {
    fn split(self: Box<Self>) -> (BoxRead, BoxWrite) {
        let (r, w) = tokio::io::split(self.0);
        (Box::new(r), Box::new(w))
    }
    fn peer_label(&self) -> Option<String> {
        Some(self.1.to_string())
    }
    fn local_label(&self) -> Option<String> {
        Some("victim".to_string())
    }
}

/// The adversary's end of an in-memory connection: raw frames in and out
pub struct RawPeer(pub DuplexStream);

impl RawPeer {
    pub fn pair(label: &'static str) -> (VictimEnd, RawPeer) {
        let (a, b) = tokio::io::duplex(1 << 20);
        (VictimEnd(a, label), RawPeer(b))
    }

    pub async fn send(&mut self, payload: Vec<u8>) -> bool {
        let mut frame = (payload.len() as u64).to_be_bytes().to_vec();
        frame.extend_from_slice(&payload);
        self.0.write_all(&frame).await.is_ok() && self.0.flush().await.is_ok()
    }

    /// Next frame from the victim; None on EOF (session closed) or timeout
    pub async fn recv(&mut self, wait: Duration) -> Option<Frame> {
        let fut = async {
            let len = self.0.read_u64().await.ok()?;
            let mut buf = vec![0u8; len as usize];
            self.0.read_exact(&mut buf).await.ok()?;
            Some(classify(&buf))
        };
        tokio::time::timeout(wait, fut).await.ok().flatten()
    }

    /// true if the victim closed the connection (EOF) within `wait`,
    /// every frame still in flight is pushed to `seen`
    pub async fn closed_within(&mut self, wait: Duration, seen: &mut Vec<Frame>) -> bool {
        let deadline = tokio::time::Instant::now() + wait;
        loop {
            let left = deadline.saturating_duration_since(tokio::time::Instant::now());
            if left.is_zero() {
                return false;
            }
            let r = tokio::time::timeout(left, self.0.read_u64()).await;
            match r {
                Err(_) => return false,
                Ok(Err(_)) => return true,
                Ok(Ok(len)) => {
                    let mut buf = vec![0u8; len as usize];
                    if self.0.read_exact(&mut buf).await.is_err() {
                        return true;
                    }
                    seen.push(classify(&buf));
                }
            }
        }
    }
}

// ------------------------------------------------------ remotable local actor

pub struct RemotableMessage;

impl ractor::Message for RemotableMessage {
    fn serializable() -> bool {
        true
    }
    fn deserialize(message: SerializedMessage) -> Result<Self, ractor::message::BoxedDowncastErr> {
        match message {
            SerializedMessage::Cast { .. } | SerializedMessage::Call { .. } => Ok(Self),
            SerializedMessage::CallReply(_, _) => Err(ractor::message::BoxedDowncastErr),
        }
    }
}

/// Counts every message it is delivered
pub struct RemotableCounter {
    pub received: Arc<AtomicUsize>,
}

#[cfg_attr(feature = "async-trait", ractor::async_trait)]
impl Actor for RemotableCounter {
    type Msg = RemotableMessage;
    type State = ();
    type Arguments = ();

    async fn pre_start(
        &self,
        _myself: ActorRef<Self::Msg>,
        _: (),
    ) -> Result<Self::State, ActorProcessingErr> {
        Ok(())
    }

    async fn handle(
        &self,
        _myself: ActorRef<Self::Msg>,
        _message: Self::Msg,
        _state: &mut Self::State,
    ) -> Result<(), ActorProcessingErr> {
        self.received.fetch_add(1, Ordering::SeqCst);
        Ok(())
    }
}

// Randomised tree probe for property C05 (scratch)

use std::time::Duration;

use ractor::concurrency::JoinHandle;
use ractor::thread_local::{ThreadLocalActor, ThreadLocalActorSpawner};
use ractor::{Actor, ActorCell, ActorProcessingErr, ActorRef, ActorStatus, SupervisionEvent};

async fn wait_status(cell: &ActorCell, want: ActorStatus, ms: u64) -> bool {
    let deadline = tokio::time::Instant::now() + Duration::from_millis(ms);
    while tokio::time::Instant::now() < deadline {
        if cell.get_status() == want {
            return true;
        }
        tokio::time::sleep(Duration::from_millis(2)).await;
    }
    cell.get_status() == want
}

#[derive(Default)]
struct Node;

enum Msg {
    Panic,
    Fail,
    Hang,
}
#[cfg(feature = "cluster")]
impl ractor::Message for Msg {}

#[derive(Clone, Copy, Debug)]
struct Cfg {
    slow_pre: bool,
    slow_post_start: bool,
    fail_post_stop: bool,
}

#[cfg_attr(feature = "async-trait", ractor::async_trait)]
impl Actor for Node {
    type Msg = Msg;
    type State = Cfg;
    type Arguments = Cfg;
    async fn pre_start(&self, _: ActorRef<Msg>, a: Cfg) -> Result<Cfg, ActorProcessingErr> {
        if a.slow_pre {
            futures::future::pending::<()>().await;
        }
        Ok(a)
    }
    async fn post_start(&self, _: ActorRef<Msg>, a: &mut Cfg) -> Result<(), ActorProcessingErr> {
        if a.slow_post_start {
            futures::future::pending::<()>().await;
        }
        Ok(())
    }
    async fn post_stop(&self, _: ActorRef<Msg>, a: &mut Cfg) -> Result<(), ActorProcessingErr> {
        if a.fail_post_stop {
            return Err("post_stop failure".into());
        }
        Ok(())
    }
    async fn handle(&self, _: ActorRef<Msg>, m: Msg, _: &mut Cfg) -> Result<(), ActorProcessingErr> {
        match m {
            Msg::Panic => panic!("boom"),
            Msg::Fail => Err("fail".into()),
            Msg::Hang => {
                futures::future::pending::<()>().await;
                Ok(())
            }
        }
    }
    async fn handle_supervisor_evt(
        &self,
        _: ActorRef<Msg>,
        _: SupervisionEvent,
        _: &mut Cfg,
    ) -> Result<(), ActorProcessingErr> {
        Ok(())
    }
}

struct N {
    cell: ActorRef<Msg>,
    handle: Option<JoinHandle<()>>,
    parent: Option<usize>,
    tl: bool,
}

fn rnd(seed: &mut u64) -> u64 {
    *seed ^= *seed << 13;
    *seed ^= *seed >> 7;
    *seed ^= *seed << 17;
    *seed
}

const PLAIN: Cfg = Cfg {
    slow_pre: false,
    slow_post_start: false,
    fail_post_stop: false,
};

#[tokio::test(flavor = "multi_thread", worker_threads = 4)]
async fn probe_random_trees() {
    let spawner = ThreadLocalActorSpawner::new();
    let spawner2 = ThreadLocalActorSpawner::new();
    let mut seed = 0x9E3779B97F4A7C15u64;
    for round in 0..400 {
        let n_nodes = 2 + (rnd(&mut seed) % 12) as usize;
        let mut nodes: Vec<N> = vec![];
        for i in 0..n_nodes {
            let parent = if i == 0 {
                None
            } else {
                Some((rnd(&mut seed) % i as u64) as usize)
            };
            let tl = rnd(&mut seed) % 3 == 0;
            let cfg = Cfg {
                fail_post_stop: rnd(&mut seed) % 5 == 0,
                ..PLAIN
            };
            let sp = if rnd(&mut seed) % 2 == 0 {
                spawner.clone()
            } else {
                spawner2.clone()
            };
            let (cell, handle) = match (&parent, tl) {
                (None, false) => <Node as Actor>::spawn(None, Node, cfg).await.unwrap(),
                (None, true) => <Node as ThreadLocalActor>::spawn(None, cfg, sp)
                    .await
                    .unwrap(),
                (Some(p), false) => {
                    <Node as Actor>::spawn_linked(None, Node, cfg, nodes[*p].cell.get_cell())
                        .await
                        .unwrap()
                }
                (Some(p), true) => <Node as ThreadLocalActor>::spawn_linked(
                    None,
                    cfg,
                    nodes[*p].cell.get_cell(),
                    sp,
                )
                .await
                .unwrap(),
            };
            nodes.push(N {
                cell,
                handle: Some(handle),
                parent,
                tl,
            });
        }
        for n in &nodes {
            assert!(wait_status(&n.cell.get_cell(), ActorStatus::Running, 2000).await);
        }
        // some nodes become busy (hang in a handler), some are draining behind a hang
        for n in nodes.iter() {
            match rnd(&mut seed) % 6 {
                0 => {
                    let _ = n.cell.send_message(Msg::Hang);
                }
                1 => {
                    let _ = n.cell.send_message(Msg::Hang);
                    let _ = n.cell.drain();
                }
                _ => {}
            }
        }
        tokio::time::sleep(Duration::from_millis(1)).await;

        let victim = (rnd(&mut seed) % n_nodes as u64) as usize;
        let cause = rnd(&mut seed) % 7;
        let busy = nodes[victim].cell.get_status() == ActorStatus::Draining;
        match cause {
            0 => nodes[victim].cell.kill(),
            1 if !busy => nodes[victim].cell.stop(Some("x".into())),
            2 if !busy => {
                let _ = nodes[victim].cell.drain();
            }
            3 if !busy => {
                let _ = nodes[victim].cell.send_message(Msg::Panic);
            }
            4 if !busy => {
                let _ = nodes[victim].cell.send_message(Msg::Fail);
            }
            _ => {
                #[allow(unused_mut)]
                let mut h = nodes[victim].handle.take().unwrap();
                h.abort();
            }
        }
        // hanging victims never process stop/drain/messages; kill-or-abort only decides
        let v_cell = nodes[victim].cell.get_cell();
        if !wait_status(&v_cell, ActorStatus::Stopped, 300).await {
            // victim was hanging in a handler: fall back to kill
            v_cell.kill();
            assert!(
                wait_status(&v_cell, ActorStatus::Stopped, 3000).await,
                "round {round}: victim did not stop"
            );
        }

        let is_desc = |mut i: usize| -> bool {
            loop {
                if i == victim {
                    return true;
                }
                match nodes[i].parent {
                    Some(p) => i = p,
                    None => return false,
                }
            }
        };
        for (i, n) in nodes.iter().enumerate() {
            let c = n.cell.get_cell();
            if is_desc(i) {
                assert!(
                    wait_status(&c, ActorStatus::Stopped, 3000).await,
                    "round {round}: descendant {i} (tl={}) of victim {victim} cause {cause} is {:?}",
                    n.tl,
                    c.get_status()
                );
                assert!(c.try_get_supervisor().is_none(), "stopped actor has supervisor");
                assert!(c.get_children().is_empty(), "stopped actor has children");
            }
        }
        tokio::time::sleep(Duration::from_millis(2)).await;
        for (i, n) in nodes.iter().enumerate() {
            let c = n.cell.get_cell();
            if !is_desc(i) {
                assert!(
                    c.get_status() < ActorStatus::Stopping,
                    "round {round}: non-descendant {i} is {:?}",
                    c.get_status()
                );
                if let Some(p) = n.parent {
                    let sup = c.try_get_supervisor().expect("has supervisor");
                    assert_eq!(sup.get_id(), nodes[p].cell.get_id());
                    assert!(sup.get_children().iter().any(|x| x.get_id() == c.get_id()));
                }
                for ch in c.get_children() {
                    assert_eq!(ch.try_get_supervisor().unwrap().get_id(), c.get_id());
                    assert!(ch.get_status() < ActorStatus::Stopped);
                }
            }
        }
        // cleanup
        nodes[0].cell.kill();
        for n in &nodes {
            assert!(wait_status(&n.cell.get_cell(), ActorStatus::Stopped, 3000).await);
        }
    }
}

/// children that are still starting (pre_start / post_start pending) when the supervisor exits
#[tokio::test(flavor = "multi_thread", worker_threads = 4)]
async fn probe_starting_children() {
    let spawner = ThreadLocalActorSpawner::new();
    for cause in 0..4 {
        for kind in 0..4 {
            #[allow(unused_mut)] let (sup, mut sup_h) = <Node as Actor>::spawn(None, Node, PLAIN).await.unwrap();
            let cfg = Cfg {
                slow_pre: kind < 2,
                slow_post_start: kind >= 2,
                fail_post_stop: false,
            };
            let tl = kind % 2 == 1;
            let supc = sup.get_cell();
            let sp = spawner.clone();
            let (tx, rx) = tokio::sync::oneshot::channel();
            // spawn in background as pre_start never completes
            let (child_ref, _jh) = if tl {
                <Node as ThreadLocalActor>::spawn_linked_instant(None, cfg, supc, sp).unwrap()
            } else {
                ractor::ActorRuntime::<Node>::spawn_linked_instant(None, Node, cfg, supc).unwrap()
            };
            let _ = tx.send(());
            let _ = rx.await;
            tokio::time::sleep(Duration::from_millis(30)).await;
            let linked = child_ref.try_get_supervisor().is_some();
            println!(
                "cause {cause} kind {kind}: child status {:?} linked {linked}",
                child_ref.get_status()
            );
            match cause {
                0 => sup.kill(),
                1 => sup.stop(None),
                2 => {
                    let _ = sup.drain();
                }
                _ => sup_h.abort(),
            }
            assert!(wait_status(&sup.get_cell(), ActorStatus::Stopped, 2000).await);
            if linked {
                assert!(
                    wait_status(&child_ref.get_cell(), ActorStatus::Stopped, 2000).await,
                    "cause {cause} kind {kind}: linked starting child is {:?}",
                    child_ref.get_status()
                );
            } else {
                // not linked: must never become linked to the dead supervisor
                tokio::time::sleep(Duration::from_millis(20)).await;
                assert!(child_ref.try_get_supervisor().is_none());
                child_ref.kill();
                assert!(wait_status(&child_ref.get_cell(), ActorStatus::Stopped, 2000).await);
            }
            assert!(sup.get_children().is_empty());
        }
    }
}

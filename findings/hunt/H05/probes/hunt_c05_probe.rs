// Probes for property C05 (scratch)

use std::sync::atomic::{AtomicBool, AtomicUsize, Ordering};
use std::sync::Arc;
use std::time::Duration;

use ractor::{Actor, ActorCell, ActorProcessingErr, ActorRef, ActorStatus, SupervisionEvent};

async fn wait_status(cell: &ActorCell, want: ActorStatus, ms: u64) -> bool {
    let deadline = tokio::time::Instant::now() + Duration::from_millis(ms);
    while tokio::time::Instant::now() < deadline {
        if cell.get_status() == want {
            return true;
        }
        tokio::time::sleep(Duration::from_millis(5)).await;
    }
    cell.get_status() == want
}

/// A supervisor that never reacts to supervision events
struct Sup;
#[cfg_attr(feature = "async-trait", ractor::async_trait)]
impl Actor for Sup {
    type Msg = ();
    type State = ();
    type Arguments = ();
    async fn pre_start(&self, _: ActorRef<()>, _: ()) -> Result<(), ActorProcessingErr> {
        Ok(())
    }
    async fn handle_supervisor_evt(
        &self,
        _: ActorRef<()>,
        _: SupervisionEvent,
        _: &mut (),
    ) -> Result<(), ActorProcessingErr> {
        Ok(())
    }
}

/// A child whose post_stop blocks until released
struct SlowStop {
    in_post_stop: Arc<AtomicBool>,
}
#[cfg_attr(feature = "async-trait", ractor::async_trait)]
impl Actor for SlowStop {
    type Msg = ();
    type State = ();
    type Arguments = ();
    async fn pre_start(&self, _: ActorRef<()>, _: ()) -> Result<(), ActorProcessingErr> {
        Ok(())
    }
    async fn post_stop(&self, _: ActorRef<()>, _: &mut ()) -> Result<(), ActorProcessingErr> {
        self.in_post_stop.store(true, Ordering::SeqCst);
        futures::future::pending::<()>().await;
        Ok(())
    }
}

#[tokio::test(flavor = "multi_thread", worker_threads = 2)]
async fn stopping_child_goes_down_with_supervisor() {
    #[allow(unused_mut)] let (sup, mut sup_h) = Actor::spawn(None, Sup, ()).await.unwrap();
    let flag = Arc::new(AtomicBool::new(false));
    let (child, _child_h) = Actor::spawn_linked(
        None,
        SlowStop {
            in_post_stop: flag.clone(),
        },
        (),
        sup.get_cell(),
    )
    .await
    .unwrap();
    assert!(wait_status(&child.get_cell(), ActorStatus::Running, 1000).await);

    child.stop(None);
    assert!(wait_status(&child.get_cell(), ActorStatus::Stopping, 1000).await);
    while !flag.load(Ordering::SeqCst) {
        tokio::time::sleep(Duration::from_millis(5)).await;
    }
    // still linked beneath the supervisor
    assert_eq!(
        child.try_get_supervisor().map(|s| s.get_id()),
        Some(sup.get_id())
    );
    assert_eq!(sup.get_children().len(), 1);

    sup.kill();
    sup_h.await.unwrap();
    assert_eq!(sup.get_status(), ActorStatus::Stopped);

    let ok = wait_status(&child.get_cell(), ActorStatus::Stopped, 2000).await;
    assert!(
        ok,
        "child linked beneath the exited supervisor is still {:?} (supervisor={:?})",
        child.get_status(),
        child.try_get_supervisor()
    );
}

// ---------------- probes of races ---------------- //

struct Leaf;
#[cfg_attr(feature = "async-trait", ractor::async_trait)]
impl Actor for Leaf {
    type Msg = ();
    type State = ();
    type Arguments = ();
    async fn pre_start(&self, _: ActorRef<()>, _: ()) -> Result<(), ActorProcessingErr> {
        Ok(())
    }
}

#[tokio::test(flavor = "multi_thread", worker_threads = 4)]
async fn probe_spawn_linked_races_with_exit() {
    for round in 0..300 {
        #[allow(unused_mut)] let (sup, mut sup_h) = Actor::spawn(None, Sup, ()).await.unwrap();
        let spawned = Arc::new(std::sync::Mutex::new(Vec::<ActorCell>::new()));
        let stop = Arc::new(AtomicBool::new(false));
        let mut tasks = vec![];
        for _ in 0..3 {
            let sup = sup.clone();
            let spawned = spawned.clone();
            let stop = stop.clone();
            tasks.push(tokio::spawn(async move {
                while !stop.load(Ordering::Relaxed) {
                    if let Ok((c, _)) = Actor::spawn_linked(None, Leaf, (), sup.get_cell()).await {
                        spawned.lock().unwrap().push(c.get_cell());
                    }
                }
            }));
        }
        tokio::time::sleep(Duration::from_micros(200 + (round % 7) * 100)).await;
        match round % 4 {
            0 => sup.kill(),
            1 => sup.stop(None),
            2 => {
                let _ = sup.drain();
            }
            _ => sup_h.abort(),
        }
        let _ = sup_h.await;
        stop.store(true, Ordering::Relaxed);
        for t in tasks {
            t.await.unwrap();
        }
        assert!(wait_status(&sup.get_cell(), ActorStatus::Stopped, 2000).await);
        assert!(sup.get_children().is_empty());
        let cells = spawned.lock().unwrap().clone();
        for c in cells {
            assert!(
                wait_status(&c, ActorStatus::Stopped, 2000).await,
                "round {round}: child {:?} still {:?}",
                c.get_id(),
                c.get_status()
            );
            assert!(c.try_get_supervisor().is_none());
        }
    }
}

#[tokio::test(flavor = "multi_thread", worker_threads = 4)]
async fn probe_relink_races_with_exit() {
    for round in 0..300 {
        #[allow(unused_mut)] let (p1, mut p1_h) = Actor::spawn(None, Sup, ()).await.unwrap();
        let (p2, p2_h) = Actor::spawn(None, Sup, ()).await.unwrap();
        let (c, c_h) = Actor::spawn_linked(None, Leaf, (), p1.get_cell()).await.unwrap();
        let stop = Arc::new(AtomicBool::new(false));
        let n = Arc::new(AtomicUsize::new(0));
        let t = {
            let (p1, p2, c, stop, n) = (p1.clone(), p2.clone(), c.clone(), stop.clone(), n.clone());
            std::thread::spawn(move || {
                while !stop.load(Ordering::Relaxed) {
                    c.link(p2.get_cell());
                    c.unlink(p2.get_cell());
                    c.link(p1.get_cell());
                    n.fetch_add(1, Ordering::Relaxed);
                }
            })
        };
        tokio::time::sleep(Duration::from_micros(100 + (round % 5) * 50)).await;
        if round % 2 == 0 {
            p1.kill();
        } else {
            p1_h.abort();
        }
        let _ = p1_h.await;
        tokio::time::sleep(Duration::from_millis(1)).await;
        stop.store(true, Ordering::Relaxed);
        t.join().unwrap();
        assert!(wait_status(&p1.get_cell(), ActorStatus::Stopped, 2000).await);
        assert!(p1.get_children().is_empty(), "stopped actor has children");
        // quiescent consistency
        match c.try_get_supervisor() {
            Some(s) => {
                assert_ne!(s.get_id(), p1.get_id(), "child linked under stopped actor");
                assert!(s.get_children().iter().any(|x| x.get_id() == c.get_id()));
            }
            None => {
                assert!(!p2.get_children().iter().any(|x| x.get_id() == c.get_id()));
            }
        }
        if c.get_status() == ActorStatus::Stopped {
            assert!(c.try_get_supervisor().is_none());
        }
        p2.kill();
        let _ = p2_h.await;
        c.kill();
        let _ = c_h.await;
        assert!(c.try_get_supervisor().is_none());
        assert!(p2.get_children().is_empty());
    }
}

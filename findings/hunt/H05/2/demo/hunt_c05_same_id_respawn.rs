// C05 demonstration (needs `--features cluster`).
//
// `SupervisionTree` keys a supervisor's child set by `ActorId` and `unlink` removes by id
// without checking that the entry is the cell being unlinked. `ractor_cluster`'s `NodeSession`
// re-spawns a failed `RemoteActor` under the SAME remote `ActorId` from inside its
// `handle_supervisor_evt(ActorFailed)`, i.e. while the failed incarnation has notified its
// supervisor but has not necessarily unlinked itself yet (`ActorLifecycleGuard::cleanup`
// notifies first and unlinks afterwards). When the old incarnation's `unlink` runs after the
// new incarnation's `link`, it removes the NEW incarnation from the supervisor's child set.
// The new actor then still names the supervisor as its supervisor, is absent from the
// supervisor's child set, and is not killed when the supervisor exits.
//
// This test produces the same history deterministically through the same public API
// (`ActorRuntime::spawn_linked_remote`) that `ractor_cluster` uses.
#![cfg(feature = "cluster")]

use std::time::Duration;

use ractor::{
    Actor, ActorCell, ActorId, ActorProcessingErr, ActorRef, ActorRuntime, ActorStatus,
    SupervisionEvent,
};

struct M;
impl ractor::Message for M {}

struct Sup;
impl Actor for Sup {
    type Msg = M;
    type State = ();
    type Arguments = ();
    async fn pre_start(&self, _: ActorRef<M>, _: ()) -> Result<(), ActorProcessingErr> {
        Ok(())
    }
    async fn handle_supervisor_evt(
        &self,
        _: ActorRef<M>,
        _: SupervisionEvent,
        _: &mut (),
    ) -> Result<(), ActorProcessingErr> {
        Ok(())
    }
}

struct Proxy;
impl Actor for Proxy {
    type Msg = M;
    type State = ();
    type Arguments = ();
    async fn pre_start(&self, _: ActorRef<M>, _: ()) -> Result<(), ActorProcessingErr> {
        Ok(())
    }
}

async fn wait_status(cell: &ActorCell, want: ActorStatus, ms: u64) -> bool {
    let deadline = tokio::time::Instant::now() + Duration::from_millis(ms);
    while tokio::time::Instant::now() < deadline {
        if cell.get_status() == want {
            return true;
        }
        tokio::time::sleep(Duration::from_millis(5)).await;
    }
    cell.get_status() == want
}

#[tokio::test(flavor = "multi_thread", worker_threads = 2)]
async fn respawned_remote_actor_stays_in_its_supervisors_child_set() {
    let (sup, sup_h) = Actor::spawn(None, Sup, ()).await.unwrap();
    let id = ActorId::Remote { node_id: 1, pid: 7 };

    // first incarnation of the remote actor's local proxy
    let (old, old_h) = ActorRuntime::<Proxy>::spawn_linked_remote(None, Proxy, id, (), sup.get_cell())
        .await
        .unwrap();
    assert!(wait_status(&old.get_cell(), ActorStatus::Running, 1000).await);

    // the supervisor re-spawns the proxy under the same id (NodeSession does this on ActorFailed)
    let (new, _new_h) = ActorRuntime::<Proxy>::spawn_linked_remote(None, Proxy, id, (), sup.get_cell())
        .await
        .unwrap();
    assert!(wait_status(&new.get_cell(), ActorStatus::Running, 1000).await);

    // ... and the old incarnation finishes exiting (its cleanup unlinks it from the supervisor)
    old.stop(None);
    old_h.await.unwrap();
    assert_eq!(old.get_status(), ActorStatus::Stopped);
    assert!(old.try_get_supervisor().is_none());

    // quiescent state: `new` is alive and its supervisor is `sup` ...
    assert_eq!(new.get_status(), ActorStatus::Running);
    assert_eq!(
        new.try_get_supervisor().map(|s| s.get_id()),
        Some(sup.get_id())
    );
    // ... so it has to be in sup's child set, and it has to go down with sup.
    let in_set = sup.get_children().len();
    sup.kill();
    sup_h.await.unwrap();
    assert_eq!(sup.get_status(), ActorStatus::Stopped);
    let stopped = wait_status(&new.get_cell(), ActorStatus::Stopped, 2000).await;
    let (status, supervisor) = (new.get_status(), new.try_get_supervisor());
    new.kill(); // do not leak it
    assert!(
        in_set == 1 && stopped,
        "children of supervisor before its exit: {in_set} (expected 1); after the supervisor \
         stopped the child is {status:?} and still names {supervisor:?} as its supervisor"
    );
}

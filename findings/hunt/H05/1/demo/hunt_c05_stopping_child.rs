// C05 demonstration: a child that is in `Stopping` (running `post_stop`) when its supervisor
// exits is not killed. `ActorCell::terminate()` only kills descendants whose status is
// `<= Draining`; a `Stopping` descendant is merely detached from the tree and left running
// `post_stop` -- forever, if `post_stop` never completes.
//
// Both runtimes (Send and thread-local) share `ActorCell::terminate()`, so both fail.

use std::sync::atomic::{AtomicBool, Ordering};
use std::sync::Arc;
use std::time::Duration;

use ractor::thread_local::{ThreadLocalActor, ThreadLocalActorSpawner};
use ractor::{Actor, ActorCell, ActorProcessingErr, ActorRef, ActorStatus, SupervisionEvent};

async fn wait_status(cell: &ActorCell, want: ActorStatus, ms: u64) -> bool {
    let deadline = tokio::time::Instant::now() + Duration::from_millis(ms);
    while tokio::time::Instant::now() < deadline {
        if cell.get_status() == want {
            return true;
        }
        tokio::time::sleep(Duration::from_millis(5)).await;
    }
    cell.get_status() == want
}

struct M;
#[cfg(feature = "cluster")]
impl ractor::Message for M {}

/// A supervisor that ignores supervision events (it does not stop when a child exits)
struct Sup;
#[cfg_attr(feature = "async-trait", ractor::async_trait)]
impl Actor for Sup {
    type Msg = M;
    type State = ();
    type Arguments = ();
    async fn pre_start(&self, _: ActorRef<M>, _: ()) -> Result<(), ActorProcessingErr> {
        Ok(())
    }
    async fn handle_supervisor_evt(
        &self,
        _: ActorRef<M>,
        _: SupervisionEvent,
        _: &mut (),
    ) -> Result<(), ActorProcessingErr> {
        Ok(())
    }
}

/// A child whose `post_stop` does not complete (e.g. it waits for something that never comes)
#[derive(Default)]
struct SlowStop;
#[cfg_attr(feature = "async-trait", ractor::async_trait)]
impl Actor for SlowStop {
    type Msg = M;
    type State = Arc<AtomicBool>;
    type Arguments = Arc<AtomicBool>;
    async fn pre_start(
        &self,
        _: ActorRef<M>,
        flag: Arc<AtomicBool>,
    ) -> Result<Arc<AtomicBool>, ActorProcessingErr> {
        Ok(flag)
    }
    async fn post_stop(
        &self,
        _: ActorRef<M>,
        in_post_stop: &mut Arc<AtomicBool>,
    ) -> Result<(), ActorProcessingErr> {
        in_post_stop.store(true, Ordering::SeqCst);
        futures::future::pending::<()>().await;
        Ok(())
    }
}

async fn scenario(thread_local: bool, kill_supervisor: bool) {
    let (sup, sup_h) = <Sup as Actor>::spawn(None, Sup, ()).await.unwrap();
    let flag = Arc::new(AtomicBool::new(false));
    let (child, _child_h) = if thread_local {
        <SlowStop as ThreadLocalActor>::spawn_linked(
            None,
            flag.clone(),
            sup.get_cell(),
            ThreadLocalActorSpawner::new(),
        )
        .await
        .unwrap()
    } else {
        <SlowStop as Actor>::spawn_linked(None, SlowStop, flag.clone(), sup.get_cell())
            .await
            .unwrap()
    };
    assert!(wait_status(&child.get_cell(), ActorStatus::Running, 2000).await);

    // the child is asked to stop and enters post_stop (status Stopping)
    child.stop(None);
    assert!(wait_status(&child.get_cell(), ActorStatus::Stopping, 2000).await);
    while !flag.load(Ordering::SeqCst) {
        tokio::time::sleep(Duration::from_millis(5)).await;
    }
    // at this moment it is (still) linked beneath the supervisor
    assert_eq!(
        child.try_get_supervisor().map(|s| s.get_id()),
        Some(sup.get_id())
    );
    assert_eq!(sup.get_children().len(), 1);

    // the supervisor exits
    if kill_supervisor {
        sup.kill();
    } else {
        sup.stop(None);
    }
    sup_h.await.unwrap();
    assert_eq!(sup.get_status(), ActorStatus::Stopped);

    // every actor linked beneath it must be killed and reach Stopped
    let stopped = wait_status(&child.get_cell(), ActorStatus::Stopped, 3000).await;
    let status = child.get_status();
    child.kill(); // a direct kill does interrupt post_stop; do not leak the actor
    assert!(
        stopped,
        "supervisor is Stopped, but the child that was linked beneath it is still {status:?} \
         3s later (thread_local={thread_local}, kill_supervisor={kill_supervisor})"
    );
}

#[tokio::test(flavor = "multi_thread", worker_threads = 2)]
async fn stopping_child_is_killed_with_its_killed_supervisor() {
    scenario(false, true).await;
}

#[tokio::test(flavor = "multi_thread", worker_threads = 2)]
async fn stopping_child_is_killed_with_its_stopped_supervisor() {
    scenario(false, false).await;
}

#[tokio::test(flavor = "multi_thread", worker_threads = 2)]
async fn stopping_thread_local_child_is_killed_with_its_killed_supervisor() {
    scenario(true, true).await;
}

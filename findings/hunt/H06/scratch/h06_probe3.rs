// Probe 3 for property C06: runtime-agnostic scenarios (tokio / async-std). Scratch.

use std::sync::atomic::{AtomicBool, Ordering};
use std::sync::Arc;

use ractor::concurrency::{sleep, timeout, Duration};
use ractor::thread_local::{ThreadLocalActor, ThreadLocalActorSpawner};
use ractor::{Actor, ActorProcessingErr, ActorRef, ActorStatus};

#[derive(Default)]
struct Subject;
#[derive(Debug)]
struct Msg;
#[cfg(feature = "cluster")]
impl ractor::Message for Msg {}

impl Actor for Subject {
    type Msg = Msg;
    type State = Arc<AtomicBool>;
    type Arguments = Arc<AtomicBool>;
    async fn pre_start(
        &self,
        _: ActorRef<Self::Msg>,
        a: Self::Arguments,
    ) -> Result<Self::State, ActorProcessingErr> {
        Ok(a)
    }
    async fn post_stop(
        &self,
        _: ActorRef<Self::Msg>,
        s: &mut Self::State,
    ) -> Result<(), ActorProcessingErr> {
        sleep(Duration::from_millis(20)).await;
        s.store(true, Ordering::SeqCst);
        Ok(())
    }
}

fn run<F: std::future::Future<Output = ()>>(f: F) {
    #[cfg(feature = "async-std")]
    {
        async_std::task::block_on(f);
    }
    #[cfg(not(feature = "async-std"))]
    {
        tokio::runtime::Builder::new_multi_thread()
            .worker_threads(4)
            .enable_all()
            .build()
            .unwrap()
            .block_on(f);
    }
}

/// TL actor whose spawner handle was dropped: does a waiter still complete, and accurately?
#[test]
fn tl_actor_after_spawner_dropped() {
    run(async {
        let flag = Arc::new(AtomicBool::new(false));
        let spawner = ThreadLocalActorSpawner::new();
        let (actor, handle) =
            <Subject as ThreadLocalActor>::spawn(Some("h06c-tl".into()), flag.clone(), spawner)
                .await
                .unwrap();
        // give the spawner thread time to notice all senders are gone
        sleep(Duration::from_millis(200)).await;
        let st = actor.get_status();
        println!("status after spawner dropped: {st:?}");
        assert_eq!(st, ActorStatus::Running, "actor died just because the spawner was dropped");
        let r = actor
            .stop_and_wait(None, Some(Duration::from_secs(3)))
            .await;
        println!("stop_and_wait -> {r:?}; status {:?}", actor.get_status());
        assert!(r.is_ok(), "stop_and_wait did not complete: {r:?}");
        assert!(flag.load(Ordering::SeqCst), "post_stop did not run");
        assert_eq!(actor.get_status(), ActorStatus::Stopped);
        let _ = timeout(Duration::from_secs(3), handle).await.expect("join handle hung");
    });
}

/// Send actor: abort the join handle; is_finished()/await vs. actor status
#[test]
fn send_actor_abort_handle() {
    run(async {
        let flag = Arc::new(AtomicBool::new(false));
        #[allow(unused_mut)]
        let (actor, mut handle) = Actor::spawn(Some("h06c-abort".into()), Subject, flag.clone())
            .await
            .unwrap();
        let a2 = actor.clone();
        let waiter = ractor::concurrency::spawn(async move {
            a2.wait(Some(Duration::from_secs(3))).await.is_ok()
        });
        sleep(Duration::from_millis(20)).await;
        handle.abort();
        let fin = handle.is_finished();
        let st = actor.get_status();
        println!("after abort: is_finished={fin} status={st:?}");
        let _ = handle.await;
        assert_eq!(actor.get_status(), ActorStatus::Stopped, "join handle completed before Stopped");
        assert!(ractor::registry::where_is("h06c-abort".to_string()).is_none());
        assert!(waiter.await.unwrap(), "waiter missed the wake-up");
        assert!(!(fin && st != ActorStatus::Stopped), "is_finished() true while actor status was {st:?}");
    });
}

/// concurrent waiters over stop/kill/drain
#[test]
fn send_actor_waiters() {
    run(async {
        for round in 0..30 {
            let flag = Arc::new(AtomicBool::new(false));
            let (actor, handle) = Actor::spawn(None, Subject, flag.clone()).await.unwrap();
            let mut hs = vec![];
            for i in 0..6 {
                let a = actor.clone();
                let flag = flag.clone();
                hs.push(ractor::concurrency::spawn(async move {
                    if i % 2 == 0 {
                        sleep(Duration::from_millis(i)).await;
                    }
                    let ok = a.wait(Some(Duration::from_secs(5))).await.is_ok();
                    (ok, a.get_status(), flag.load(Ordering::SeqCst))
                }));
            }
            match round % 3 {
                0 => {
                    actor.stop_and_wait(None, None).await.unwrap();
                    assert!(flag.load(Ordering::SeqCst));
                }
                1 => {
                    actor.drain_and_wait(None).await.unwrap();
                    assert!(flag.load(Ordering::SeqCst));
                }
                _ => actor.kill_and_wait(None).await.unwrap(),
            }
            assert_eq!(actor.get_status(), ActorStatus::Stopped);
            for h in hs {
                let (ok, st, f) = h.await.unwrap();
                assert!(ok, "waiter timed out");
                assert_eq!(st, ActorStatus::Stopped);
                if round % 3 != 2 {
                    assert!(f);
                }
            }
            let _ = handle.await;
        }
    });
}

// Probe 2 for property C06: exits during the startup phase (scratch; removed afterwards)

use std::sync::atomic::{AtomicU64, Ordering};
use std::sync::{Arc, Mutex};
use std::time::Duration;

use ractor::thread_local::{ThreadLocalActor, ThreadLocalActorSpawner};
use ractor::{
    call, Actor, ActorCell, ActorProcessingErr, ActorRef, ActorStatus, RpcReplyPort,
    SupervisionEvent,
};

static SEQ: AtomicU64 = AtomicU64::new(0);

fn spawner() -> ThreadLocalActorSpawner {
    static S: std::sync::OnceLock<ThreadLocalActorSpawner> = std::sync::OnceLock::new();
    S.get_or_init(ThreadLocalActorSpawner::new).clone()
}

struct Sup;
enum SupMsg {
    Events(RpcReplyPort<Vec<(ractor::ActorId, String)>>),
}
#[cfg(feature = "cluster")]
impl ractor::Message for SupMsg {}
impl Actor for Sup {
    type Msg = SupMsg;
    type State = Vec<(ractor::ActorId, String)>;
    type Arguments = ();
    async fn pre_start(&self, _: ActorRef<Self::Msg>, _: ()) -> Result<Self::State, ActorProcessingErr> {
        Ok(vec![])
    }
    async fn handle(
        &self,
        _: ActorRef<Self::Msg>,
        m: SupMsg,
        state: &mut Self::State,
    ) -> Result<(), ActorProcessingErr> {
        match m {
            SupMsg::Events(r) => {
                let _ = r.send(state.clone());
            }
        }
        Ok(())
    }
    async fn handle_supervisor_evt(
        &self,
        _: ActorRef<Self::Msg>,
        evt: SupervisionEvent,
        state: &mut Self::State,
    ) -> Result<(), ActorProcessingErr> {
        match evt {
            SupervisionEvent::ActorTerminated(who, _, r) => {
                state.push((who.get_id(), format!("terminated:{r:?}")))
            }
            SupervisionEvent::ActorFailed(who, e) => state.push((who.get_id(), format!("failed:{e}"))),
            _ => {}
        }
        Ok(())
    }
}

struct Child;
#[derive(Debug)]
struct ChildMsg;
#[cfg(feature = "cluster")]
impl ractor::Message for ChildMsg {}
impl Actor for Child {
    type Msg = ChildMsg;
    type State = ();
    type Arguments = ();
    async fn pre_start(&self, _: ActorRef<Self::Msg>, _: ()) -> Result<(), ActorProcessingErr> {
        Ok(())
    }
}

#[derive(Default)]
struct Subject;
#[derive(Debug)]
struct SubjMsg;
#[cfg(feature = "cluster")]
impl ractor::Message for SubjMsg {}

struct Args {
    group: String,
    kids: Arc<Mutex<Vec<ActorCell>>>,
    entered: tokio::sync::mpsc::UnboundedSender<()>,
    gate: tokio::sync::oneshot::Receiver<u8>, // 0 ok, 1 err, 2 panic
}

impl Actor for Subject {
    type Msg = SubjMsg;
    type State = ();
    type Arguments = Args;
    async fn pre_start(
        &self,
        myself: ActorRef<Self::Msg>,
        args: Args,
    ) -> Result<Self::State, ActorProcessingErr> {
        ractor::pg::join(args.group.clone(), vec![myself.get_cell()]);
        let (c, _) = Actor::spawn_linked(None, Child, (), myself.get_cell()).await?;
        args.kids.lock().unwrap().push(c.get_cell());
        let _ = args.entered.send(());
        match args.gate.await.unwrap_or(0) {
            1 => Err("pre_start_err".into()),
            2 => panic!("pre_start_panic"),
            _ => Ok(()),
        }
    }
}

#[derive(Clone, Copy, Debug, PartialEq)]
enum Cause {
    KillDuringPreStart,
    PreStartErr,
    PreStartPanic,
    SupervisorStopsDuringPreStart,
    DrainBeforeStart,
    AbortStartup,
    StopDuringPreStart,
}

async fn run_case(cause: Cause, local: bool) -> Vec<String> {
    let n = SEQ.fetch_add(1, Ordering::SeqCst);
    let name = format!("h06b-subject-{n}");
    let group = format!("h06b-group-{n}");
    let (sup, sup_h) = Actor::spawn(None, Sup, ()).await.unwrap();
    let kids = Arc::new(Mutex::new(vec![]));
    let (etx, mut erx) = tokio::sync::mpsc::unbounded_channel();
    let (gtx, grx) = tokio::sync::oneshot::channel();
    let args = Args {
        group: group.clone(),
        kids: kids.clone(),
        entered: etx,
        gate: grx,
    };
    let (subject, startup) = if local {
        <Subject as ThreadLocalActor>::spawn_linked_instant(
            Some(name.clone()),
            args,
            sup.get_cell(),
            spawner(),
        )
        .unwrap()
    } else {
        ractor::ActorRuntime::spawn_linked_instant(Some(name.clone()), Subject, args, sup.get_cell())
            .unwrap()
    };
    let cell = subject.get_cell();
    let violations = Arc::new(Mutex::new(Vec::<String>::new()));

    let check = {
        let cell = cell.clone();
        let name = name.clone();
        let group = group.clone();
        let violations = violations.clone();
        move |who: &str| {
            let mut v = vec![];
            let st = cell.get_status();
            if st != ActorStatus::Stopped {
                v.push(format!("{who}: status {st:?}"));
            }
            if ractor::registry::where_is(name.clone()).is_some() {
                v.push(format!("{who}: name still registered"));
            }
            if ractor::pg::get_members(&group)
                .iter()
                .any(|m| m.get_id() == cell.get_id())
            {
                v.push(format!("{who}: still in pg"));
            }
            #[cfg(feature = "cluster")]
            if ractor::registry::where_is_pid(cell.get_id()).is_some() {
                v.push(format!("{who}: pid still registered"));
            }
            if !cell.get_children().is_empty() {
                v.push(format!("{who}: children still attached"));
            }
            if cell.try_get_supervisor().is_some() {
                v.push(format!("{who}: still linked to sup"));
            }
            violations.lock().unwrap().extend(v);
        }
    };

    let mut waiters = tokio::task::JoinSet::new();
    for i in 0..4 {
        let cell = cell.clone();
        let check = check.clone();
        waiters.spawn(async move {
            cell.wait(Some(Duration::from_secs(10)))
                .await
                .unwrap_or_else(|_| panic!("waiter {i} timed out"));
            check(&format!("waiter-{i}"));
        });
    }

    let mut was_linked_in_pre_start = false;
    if cause == Cause::DrainBeforeStart {
        // may or may not win the race with the start task
        let _ = cell.drain();
        let _ = gtx.send(0);
    } else {
        erx.recv().await.unwrap();
        was_linked_in_pre_start = cell.try_get_supervisor().is_some();
        match cause {
            Cause::KillDuringPreStart => {
                cell.kill_and_wait(Some(Duration::from_secs(10))).await.unwrap();
                check("kill_and_wait");
            }
            Cause::StopDuringPreStart => {
                let c2 = cell.clone();
                let check2 = check.clone();
                waiters.spawn(async move {
                    if c2.stop_and_wait(None, Some(Duration::from_secs(10))).await.is_ok() {
                        check2("stop_and_wait");
                    }
                });
                tokio::time::sleep(Duration::from_millis(2)).await;
                let _ = gtx.send(0);
            }
            Cause::PreStartErr => {
                let _ = gtx.send(1);
            }
            Cause::PreStartPanic => {
                let _ = gtx.send(2);
            }
            Cause::SupervisorStopsDuringPreStart => {
                sup.stop_and_wait(None, None).await.unwrap();
                let _ = gtx.send(0);
            }
            Cause::AbortStartup => {
                startup.abort();
            }
            Cause::DrainBeforeStart => unreachable!(),
        }
    }

    while let Some(r) = tokio::time::timeout(Duration::from_secs(20), waiters.join_next())
        .await
        .expect("waiters hung")
    {
        r.unwrap();
    }
    check("final");
    for c in kids.lock().unwrap().iter() {
        if c.wait(Some(Duration::from_secs(5))).await.is_err() {
            violations.lock().unwrap().push("child not signalled".into());
        }
    }

    if cause != Cause::SupervisorStopsDuringPreStart {
        let evts = call!(sup, SupMsg::Events).unwrap();
        let k = evts.iter().filter(|(id, _)| *id == cell.get_id()).count();
        let expect_evt = was_linked_in_pre_start || cause == Cause::StopDuringPreStart;
        if expect_evt && k != 1 {
            violations.lock().unwrap().push(format!(
                "linked supervisor got {k} terminal events (linked in pre_start: {was_linked_in_pre_start}) {evts:?}"
            ));
        }
        sup.stop(None);
    }
    let _ = sup_h.await;
    let v = violations.lock().unwrap().clone();
    v
}

async fn matrix(local: bool) {
    let causes = [
        Cause::KillDuringPreStart,
        Cause::PreStartErr,
        Cause::PreStartPanic,
        Cause::SupervisorStopsDuringPreStart,
        Cause::DrainBeforeStart,
        Cause::AbortStartup,
        Cause::StopDuringPreStart,
    ];
    let mut all = vec![];
    for iter in 0..20u32 {
        for c in causes {
            let v = tokio::time::timeout(Duration::from_secs(40), run_case(c, local))
                .await
                .unwrap_or_else(|_| panic!("case {c:?} iter {iter} hung"));
            for s in v {
                all.push(format!("{c:?}/{iter}: {s}"));
            }
        }
    }
    all.sort();
    all.dedup_by(|a, b| a.split(": ").nth(1) == b.split(": ").nth(1) && a.split('/').next() == b.split('/').next());
    assert!(all.is_empty(), "violations:\n{}", all.join("\n"));
}

#[tokio::test(flavor = "multi_thread", worker_threads = 4)]
async fn h06_probe2_send() {
    matrix(false).await
}
#[tokio::test(flavor = "multi_thread", worker_threads = 4)]
async fn h06_probe2_local() {
    matrix(true).await
}

// Probe test for property C06 (scratch; removed afterwards)

use std::sync::atomic::{AtomicBool, AtomicU32, AtomicU64, Ordering};
use std::sync::{Arc, Mutex};
use std::time::Duration;

use ractor::{
    call, Actor, ActorCell, ActorProcessingErr, ActorRef, ActorStatus, RpcReplyPort,
    SupervisionEvent,
};

static SEQ: AtomicU64 = AtomicU64::new(0);

// ---------- supervisor
struct Sup;
enum SupMsg {
    Events(RpcReplyPort<Vec<(ractor::ActorId, String)>>),
}
#[cfg(feature = "cluster")]
impl ractor::Message for SupMsg {}

impl Actor for Sup {
    type Msg = SupMsg;
    type State = Vec<(ractor::ActorId, String)>;
    type Arguments = ();
    async fn pre_start(
        &self,
        _: ActorRef<Self::Msg>,
        _: (),
    ) -> Result<Self::State, ActorProcessingErr> {
        Ok(vec![])
    }
    async fn handle(
        &self,
        _: ActorRef<Self::Msg>,
        m: SupMsg,
        state: &mut Self::State,
    ) -> Result<(), ActorProcessingErr> {
        match m {
            SupMsg::Events(r) => {
                let _ = r.send(state.clone());
            }
        }
        Ok(())
    }
    async fn handle_supervisor_evt(
        &self,
        _: ActorRef<Self::Msg>,
        evt: SupervisionEvent,
        state: &mut Self::State,
    ) -> Result<(), ActorProcessingErr> {
        match evt {
            SupervisionEvent::ActorTerminated(who, _, r) => {
                state.push((who.get_id(), format!("terminated:{r:?}")))
            }
            SupervisionEvent::ActorFailed(who, e) => state.push((who.get_id(), format!("failed:{e}"))),
            _ => {}
        }
        Ok(())
    }
}

// ---------- child (idle)
struct Child;
#[derive(Debug)]
struct ChildMsg;
#[cfg(feature = "cluster")]
impl ractor::Message for ChildMsg {}
impl Actor for Child {
    type Msg = ChildMsg;
    type State = ();
    type Arguments = ();
    async fn pre_start(&self, _: ActorRef<Self::Msg>, _: ()) -> Result<(), ActorProcessingErr> {
        Ok(())
    }
}

// ---------- the subject
#[derive(Default)]
struct Subject;
enum SubjMsg {
    Slow,
    Fail,
    Panic,
    StopSelf,
}
#[cfg(feature = "cluster")]
impl ractor::Message for SubjMsg {}

struct SubjState {
    children: Vec<ActorCell>,
    post_stop_done: Arc<AtomicBool>,
    post_stop_mode: u8, // 0 ok, 1 err, 2 panic
}

impl Actor for Subject {
    type Msg = SubjMsg;
    type State = SubjState;
    type Arguments = (Arc<Mutex<Vec<ActorCell>>>, Arc<AtomicBool>, u8);
    async fn pre_start(
        &self,
        myself: ActorRef<Self::Msg>,
        (out, post_stop_done, post_stop_mode): Self::Arguments,
    ) -> Result<Self::State, ActorProcessingErr> {
        let mut children = vec![];
        for _ in 0..2 {
            let (c, _) = Actor::spawn_linked(None, Child, (), myself.get_cell()).await?;
            children.push(c.get_cell());
        }
        *out.lock().unwrap() = children.clone();
        Ok(SubjState {
            children,
            post_stop_done,
            post_stop_mode,
        })
    }
    async fn handle(
        &self,
        myself: ActorRef<Self::Msg>,
        m: SubjMsg,
        _state: &mut Self::State,
    ) -> Result<(), ActorProcessingErr> {
        match m {
            SubjMsg::Slow => tokio::time::sleep(Duration::from_millis(2)).await,
            SubjMsg::Fail => return Err("boom".into()),
            SubjMsg::Panic => panic!("boom-panic"),
            SubjMsg::StopSelf => myself.stop(Some("self".into())),
        }
        Ok(())
    }
    async fn post_stop(
        &self,
        _: ActorRef<Self::Msg>,
        state: &mut Self::State,
    ) -> Result<(), ActorProcessingErr> {
        let _ = state.children.len();
        tokio::time::sleep(Duration::from_millis(5)).await;
        tokio::task::yield_now().await;
        state.post_stop_done.store(true, Ordering::SeqCst);
        match state.post_stop_mode {
            1 => Err("post_stop_err".into()),
            2 => panic!("post_stop_panic"),
            _ => Ok(()),
        }
    }
    async fn handle_supervisor_evt(
        &self,
        _: ActorRef<Self::Msg>,
        _evt: SupervisionEvent,
        _state: &mut Self::State,
    ) -> Result<(), ActorProcessingErr> {
        Ok(())
    }
}

#[derive(Clone, Copy, Debug, PartialEq)]
enum Cause {
    Stop,
    Kill,
    Drain,
    Fail,
    Panic,
    StopSelf,
    Abort,
    PostStopErr,
    PostStopPanic,
}

struct Ctx {
    subject: ActorCell,
    sup: ActorRef<SupMsg>,
    name: String,
    group: String,
    children: Vec<ActorCell>,
    post_stop_done: Arc<AtomicBool>,
    graceful: bool,
    violations: Arc<Mutex<Vec<String>>>,
}

impl Ctx {
    fn check_sync(&self, who: &str) {
        let mut v = vec![];
        let st = self.subject.get_status();
        if st != ActorStatus::Stopped {
            v.push(format!("{who}: status {st:?}"));
        }
        if self.graceful && !self.post_stop_done.load(Ordering::SeqCst) {
            v.push(format!("{who}: post_stop not done"));
        }
        if ractor::registry::where_is(self.name.clone()).is_some() {
            v.push(format!("{who}: name still registered"));
        }
        if ractor::pg::get_members(&self.group)
            .iter()
            .any(|m| m.get_id() == self.subject.get_id())
        {
            v.push(format!("{who}: still in pg"));
        }
        #[cfg(feature = "cluster")]
        if ractor::registry::where_is_pid(self.subject.get_id()).is_some() {
            v.push(format!("{who}: pid still registered"));
        }
        if !self.subject.get_children().is_empty() {
            v.push(format!("{who}: children still attached"));
        }
        if self.subject.try_get_supervisor().is_some() {
            v.push(format!("{who}: still linked to sup"));
        }
        if !v.is_empty() {
            self.violations.lock().unwrap().extend(v);
        }
    }

    async fn check_async(&self, who: &str) {
        // supervisor was sent the terminal event before we returned
        let evts = call!(self.sup, SupMsg::Events).expect("sup rpc");
        let n = evts
            .iter()
            .filter(|(id, _)| *id == self.subject.get_id())
            .count();
        if n != 1 {
            self.violations
                .lock()
                .unwrap()
                .push(format!("{who}: supervisor saw {n} terminal events: {evts:?}"));
        }
        for c in &self.children {
            if c.wait(Some(Duration::from_secs(5))).await.is_err() {
                self.violations
                    .lock()
                    .unwrap()
                    .push(format!("{who}: child not signalled"));
            }
        }
    }
}

fn spawner() -> ractor::thread_local::ThreadLocalActorSpawner {
    static S: std::sync::OnceLock<ractor::thread_local::ThreadLocalActorSpawner> =
        std::sync::OnceLock::new();
    S.get_or_init(ractor::thread_local::ThreadLocalActorSpawner::new)
        .clone()
}

async fn run_case(cause: Cause, iter: u32, local: bool) -> Vec<String> {
    let n = SEQ.fetch_add(1, Ordering::SeqCst);
    let name = format!("h06-subject-{n}");
    let group = format!("h06-group-{n}");
    let (sup, sup_h) = Actor::spawn(None, Sup, ()).await.unwrap();
    let post_stop_done = Arc::new(AtomicBool::new(false));
    let kids = Arc::new(Mutex::new(vec![]));
    let mode = match cause {
        Cause::PostStopErr => 1,
        Cause::PostStopPanic => 2,
        _ => 0,
    };
    let (subject, mut handle) = if local {
        <Subject as ractor::thread_local::ThreadLocalActor>::spawn_linked(
            Some(name.clone()),
            (kids.clone(), post_stop_done.clone(), mode),
            sup.get_cell(),
            spawner(),
        )
        .await
        .unwrap()
    } else {
        Actor::spawn_linked(
            Some(name.clone()),
            Subject,
            (kids.clone(), post_stop_done.clone(), mode),
            sup.get_cell(),
        )
        .await
        .unwrap()
    };
    ractor::pg::join(group.clone(), vec![subject.get_cell()]);

    let graceful = matches!(
        cause,
        Cause::Stop | Cause::Drain | Cause::StopSelf | Cause::PostStopErr | Cause::PostStopPanic
    );
    let violations = Arc::new(Mutex::new(vec![]));
    let ctx = Arc::new(Ctx {
        subject: subject.get_cell(),
        sup: sup.clone(),
        name,
        group,
        children: kids.lock().unwrap().clone(),
        post_stop_done,
        graceful,
        violations: violations.clone(),
    });

    // a few slow messages to make drain non-trivial
    for _ in 0..3 {
        let _ = subject.cast(SubjMsg::Slow);
    }

    // timeout wait that must time out and leave the actor alone
    if iter % 4 == 0 {
        let r = subject.wait(Some(Duration::from_millis(1))).await;
        if r.is_ok() {
            violations.lock().unwrap().push("early wait returned ok".into());
        }
        if subject.get_status() != ActorStatus::Running {
            violations
                .lock()
                .unwrap()
                .push(format!("timeout changed status {:?}", subject.get_status()));
        }
    }

    let mut tasks = tokio::task::JoinSet::new();
    let done = Arc::new(AtomicU32::new(0));
    // waiters: tasks
    for i in 0..6u32 {
        let ctx = ctx.clone();
        let done = done.clone();
        tasks.spawn(async move {
            if i % 2 == 1 {
                tokio::time::sleep(Duration::from_micros((i * 300) as u64)).await;
            }
            let ok = match i % 3 {
                0 => {
                    ctx.subject.wait(None).await.unwrap();
                    true
                }
                1 => ctx.subject.wait(Some(Duration::from_secs(10))).await.is_ok(),
                _ => {
                    // poll-registered waiter
                    let fut = ctx.subject.wait(None);
                    tokio::pin!(fut);
                    if futures_poll_once(fut.as_mut()).await.is_none() {
                        fut.await.unwrap();
                    }
                    true
                }
            };
            assert!(ok, "waiter {i} timed out");
            ctx.check_sync(&format!("task-waiter-{i}"));
            ctx.check_async(&format!("task-waiter-{i}")).await;
            done.fetch_add(1, Ordering::SeqCst);
        });
    }
    // waiters: threads
    let mut threads = vec![];
    for i in 0..3u32 {
        let ctx = ctx.clone();
        let done = done.clone();
        threads.push(std::thread::spawn(move || {
            if i > 0 {
                std::thread::sleep(Duration::from_micros(500 * i as u64));
            }
            block_on(ctx.subject.wait(None)).unwrap();
            ctx.check_sync(&format!("thread-waiter-{i}"));
            done.fetch_add(1, Ordering::SeqCst);
        }));
    }

    if iter % 2 == 0 {
        tokio::time::sleep(Duration::from_millis(1)).await;
    }

    // trigger + cause-specific waiter
    match cause {
        Cause::Stop => {
            let r = subject.stop_and_wait(Some("x".into()), None).await;
            assert!(r.is_ok());
            ctx.check_sync("stop_and_wait");
        }
        Cause::Kill => {
            let c2 = ctx.clone();
            let t = tokio::spawn(async move {
                c2.subject.kill_and_wait(None).await.unwrap();
                c2.check_sync("kill_and_wait#2");
            });
            subject.kill_and_wait(Some(Duration::from_secs(10))).await.unwrap();
            ctx.check_sync("kill_and_wait");
            t.await.unwrap();
        }
        Cause::Drain => {
            let c2 = ctx.clone();
            let t = tokio::spawn(async move {
                if c2.subject.drain_and_wait(None).await.is_ok() {
                    c2.check_sync("drain_and_wait#2");
                }
            });
            subject.drain_and_wait(None).await.unwrap();
            ctx.check_sync("drain_and_wait");
            t.await.unwrap();
        }
        Cause::Fail => {
            subject.cast(SubjMsg::Fail).unwrap();
        }
        Cause::Panic => {
            subject.cast(SubjMsg::Panic).unwrap();
        }
        Cause::StopSelf => {
            subject.cast(SubjMsg::StopSelf).unwrap();
        }
        Cause::Abort => {
            handle.abort();
        }
        Cause::PostStopErr | Cause::PostStopPanic => {
            subject.stop(None);
        }
    }

    // join handle
    let _ = (&mut handle).await;
    ctx.check_sync("join-handle");
    ctx.check_async("join-handle").await;

    while let Some(r) = tasks.join_next().await {
        r.unwrap();
    }
    for t in threads {
        t.join().unwrap();
    }
    assert_eq!(done.load(Ordering::SeqCst), 9);

    // late waiters
    subject.wait(None).await.unwrap();
    subject.wait(Some(Duration::from_millis(0))).await.expect("late wait with zero timeout");
    subject.kill_and_wait(None).await.unwrap();
    subject.kill_and_wait(Some(Duration::from_millis(0))).await.unwrap();
    let _ = tokio::time::timeout(Duration::from_secs(2), subject.stop_and_wait(None, None))
        .await
        .expect("late stop_and_wait hangs");
    let _ = tokio::time::timeout(Duration::from_secs(2), subject.drain_and_wait(None))
        .await
        .expect("late drain_and_wait hangs");
    let _ = tokio::time::timeout(Duration::from_secs(2), subject.drain_and_wait(None))
        .await
        .expect("late drain_and_wait hangs 2");
    if subject.get_status() != ActorStatus::Stopped {
        violations.lock().unwrap().push("status moved after late calls".into());
    }

    sup.stop(None);
    sup_h.await.unwrap();
    let v = violations.lock().unwrap().clone();
    v
}

async fn futures_poll_once<F: std::future::Future + Unpin>(mut f: F) -> Option<F::Output> {
    std::future::poll_fn(move |cx| match std::pin::Pin::new(&mut f).poll(cx) {
        std::task::Poll::Ready(v) => std::task::Poll::Ready(Some(v)),
        std::task::Poll::Pending => std::task::Poll::Ready(None),
    })
    .await
}

fn block_on<F: std::future::Future>(f: F) -> F::Output {
    // minimal thread-parking executor
    use std::task::{Context, Poll, Wake, Waker};
    struct ThreadWaker(std::thread::Thread);
    impl Wake for ThreadWaker {
        fn wake(self: Arc<Self>) {
            self.0.unpark();
        }
    }
    let waker = Waker::from(Arc::new(ThreadWaker(std::thread::current())));
    let mut cx = Context::from_waker(&waker);
    let mut f = std::pin::pin!(f);
    loop {
        match f.as_mut().poll(&mut cx) {
            Poll::Ready(v) => return v,
            Poll::Pending => std::thread::park(),
        }
    }
}

#[tokio::test(flavor = "multi_thread", worker_threads = 4)]
async fn h06_probe_matrix_send() {
    matrix(false).await
}
#[tokio::test(flavor = "multi_thread", worker_threads = 4)]
async fn h06_probe_matrix_local() {
    matrix(true).await
}
async fn matrix(local: bool) {
    let causes = [
        Cause::Stop,
        Cause::Kill,
        Cause::Drain,
        Cause::Fail,
        Cause::Panic,
        Cause::StopSelf,
        Cause::Abort,
        Cause::PostStopErr,
        Cause::PostStopPanic,
    ];
    let mut all = vec![];
    for iter in 0..40u32 {
        for c in causes {
            let v = tokio::time::timeout(Duration::from_secs(30), run_case(c, iter, local))
                .await
                .unwrap_or_else(|_| panic!("case {c:?} iter {iter} hung"));
            for s in v {
                all.push(format!("{c:?}/{iter}: {s}"));
            }
        }
    }
    assert!(all.is_empty(), "violations:\n{}", all.join("\n"));
}

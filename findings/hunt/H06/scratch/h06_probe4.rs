// scratch probe: async-std TL spawner dropped
use std::sync::atomic::{AtomicBool, Ordering};
use std::sync::Arc;
use ractor::concurrency::{sleep, timeout, Duration};
use ractor::thread_local::{ThreadLocalActor, ThreadLocalActorSpawner};
use ractor::{Actor, ActorProcessingErr, ActorRef, ActorStatus};

#[derive(Default)]
struct Subject;
#[derive(Debug)]
struct Msg;
#[cfg(feature = "cluster")]
impl ractor::Message for Msg {}
impl Actor for Subject {
    type Msg = Msg;
    type State = Arc<AtomicBool>;
    type Arguments = Arc<AtomicBool>;
    async fn pre_start(&self, _: ActorRef<Self::Msg>, a: Self::Arguments) -> Result<Self::State, ActorProcessingErr> { Ok(a) }
    async fn post_stop(&self, _: ActorRef<Self::Msg>, s: &mut Self::State) -> Result<(), ActorProcessingErr> {
        s.store(true, Ordering::SeqCst);
        Ok(())
    }
}
fn run<F: std::future::Future<Output = ()>>(f: F) {
    #[cfg(feature = "async-std")]
    { async_std::task::block_on(f); }
    #[cfg(not(feature = "async-std"))]
    { tokio::runtime::Builder::new_multi_thread().worker_threads(4).enable_all().build().unwrap().block_on(f); }
}
#[test]
fn tl_join_handle_after_spawner_dropped() {
    run(async {
        let flag = Arc::new(AtomicBool::new(false));
        let spawner = ThreadLocalActorSpawner::new();
        let (actor, handle) = <Subject as ThreadLocalActor>::spawn(Some("h06d-tl".into()), flag.clone(), spawner).await.unwrap();
        let a2 = actor.clone();
        let w = ractor::concurrency::spawn(async move { a2.wait(Some(Duration::from_secs(3))).await.is_ok() });
        sleep(Duration::from_millis(300)).await;
        println!("status {:?} name registered {}", actor.get_status(), ractor::registry::where_is("h06d-tl".to_string()).is_some());
        actor.stop(None);
        println!("waiter -> {:?}", w.await);
        println!("post_stop ran: {}", flag.load(Ordering::SeqCst));
        let r = timeout(Duration::from_secs(3), handle).await;
        println!("join handle -> {:?}", r.map(|x| x.is_ok()));
        assert_eq!(actor.get_status(), ActorStatus::Stopped);
    });
}

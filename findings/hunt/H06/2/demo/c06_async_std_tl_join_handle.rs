// DEMONSTRATION for property C06 (finding 2) -- `async-std` feature only
//
// `ThreadLocalActorSpawner::new()` (async-std variant, ractor/src/thread_local.rs) runs
//
//     async_std::task::block_on(async_std::task::spawn_local(async move {
//         while let Some(args) = recv.recv().await { ... spawn_local(actor) ... }
//     }));
//
// on its dedicated thread.  As soon as the last `ThreadLocalActorSpawner` handle is dropped
// the `while` loop ends, `block_on` returns and the thread exits -- although actors spawned
// on it are still alive.  (`ThreadLocalActor::spawn` takes the spawner BY VALUE, so this is
// what happens by default if the caller does not keep a clone.)  The thread's local executor
// is torn down and the actors' tasks are dropped: an exit by task cancellation.
// The tokio twin ends with `rt.block_on(local)`, which only returns after every task of the
// `LocalSet` has finished.
//
// Consequence for C06: the actor's join handle never completes for that exit cause --
// awaiting it panics inside async-task ("Task polled after completion") because the task
// was cancelled by the executor and has no output.  (`wait()` itself is accurate: the
// lifecycle guard runs on drop.)  In addition the actor is gone without `post_stop`, and a
// later `stop_and_wait()` fails with ChannelClosed.
//
// copy to:  ractor/tests/c06_async_std_tl_join_handle.rs
// run:      cargo test --offline -j4 -p ractor --no-default-features \
//               -F async-std,message_span_propogation --test c06_async_std_tl_join_handle -- --test-threads 4
#![cfg(feature = "async-std")]

use std::panic::AssertUnwindSafe;
use std::sync::atomic::{AtomicBool, Ordering};
use std::sync::Arc;

use futures::FutureExt;
use ractor::concurrency::{sleep, timeout, Duration};
use ractor::thread_local::{ThreadLocalActor, ThreadLocalActorSpawner};
use ractor::{Actor, ActorProcessingErr, ActorRef, ActorStatus};

#[derive(Default)]
struct Subject;
#[derive(Debug)]
struct Msg;
#[cfg(feature = "cluster")]
impl ractor::Message for Msg {}

impl Actor for Subject {
    type Msg = Msg;
    type State = Arc<AtomicBool>;
    type Arguments = Arc<AtomicBool>;
    async fn pre_start(
        &self,
        _: ActorRef<Self::Msg>,
        post_stop_ran: Self::Arguments,
    ) -> Result<Self::State, ActorProcessingErr> {
        Ok(post_stop_ran)
    }
    async fn post_stop(
        &self,
        _: ActorRef<Self::Msg>,
        post_stop_ran: &mut Self::State,
    ) -> Result<(), ActorProcessingErr> {
        post_stop_ran.store(true, Ordering::SeqCst);
        Ok(())
    }
}

#[async_std::test]
async fn join_handle_of_thread_local_actor_completes() {
    let post_stop_ran = Arc::new(AtomicBool::new(false));

    // the spawner is moved into `spawn`: no handle to it is left once the actor is started
    let (actor, handle) = <Subject as ThreadLocalActor>::spawn(
        None,
        post_stop_ran.clone(),
        ThreadLocalActorSpawner::new(),
    )
    .await
    .expect("spawn");

    // a waiter registered while the actor is alive
    let waiter = {
        let actor = actor.clone();
        ractor::concurrency::spawn(async move { actor.wait(Some(Duration::from_secs(10))).await })
    };

    // Nobody stops the actor.  Give the spawner thread a moment.
    for _ in 0..100 {
        if actor.get_status() == ActorStatus::Stopped {
            break;
        }
        sleep(Duration::from_millis(10)).await;
    }
    let status_before_stop = actor.get_status();
    println!("status although nobody stopped the actor: {status_before_stop:?}");

    // now stop it for real (a no-op if it is already gone) and join
    actor.stop(None);
    let waited = waiter.await;
    println!("wait() -> {waited:?}, status {:?}", actor.get_status());
    assert!(matches!(waited, Ok(Ok(()))), "wait() did not complete");
    assert_eq!(actor.get_status(), ActorStatus::Stopped);

    let joined = AssertUnwindSafe(timeout(Duration::from_secs(5), handle))
        .catch_unwind()
        .await;
    let joined_dbg = match &joined {
        Ok(Ok(Ok(()))) => "completed".to_string(),
        Ok(Ok(Err(()))) => "completed with Err(())".to_string(),
        Ok(Err(_)) => "timed out".to_string(),
        Err(p) => format!(
            "PANICKED: {}",
            p.downcast_ref::<&str>()
                .map(|s| s.to_string())
                .or_else(|| p.downcast_ref::<String>().cloned())
                .unwrap_or_default()
        ),
    };
    println!("awaiting the actor's join handle: {joined_dbg}");
    println!("post_stop ran: {}", post_stop_ran.load(Ordering::SeqCst));

    // C06: the actor's join handle completes (after the actor has fully stopped)
    assert!(
        matches!(joined, Ok(Ok(_))),
        "the actor is Stopped and every wait() returned, but awaiting its join handle {joined_dbg}"
    );
    // not strictly C06, but the root cause: the actor must not die with its spawner handle
    assert_eq!(
        status_before_stop,
        ActorStatus::Running,
        "the actor exited because the last ThreadLocalActorSpawner handle was dropped"
    );
    assert!(post_stop_ran.load(Ordering::SeqCst), "graceful stop skipped post_stop");
}

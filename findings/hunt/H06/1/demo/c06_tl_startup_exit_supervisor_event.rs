// DEMONSTRATION for property C06 (finding 1)
//
// Thread-local runtime: `ThreadLocalActorRuntime::start` links the new actor to its
// supervisor BEFORE `pre_start` runs, but only arms the "notify the supervisor on exit"
// flag (`ActorLifecycleGuard::mark_running`) AFTER `pre_start` succeeded.  An actor that
// exits inside that window (killed, `pre_start` error / panic, startup task cancelled) is
// therefore a linked child of the supervisor (`supervisor.get_children()` lists it,
// `child.try_get_supervisor()` returns it), yet `wait()` / `kill_and_wait()` complete and the
// supervisor has never been sent a terminal event for it.
//
// The `Send` runtime (the twin) links and arms the flag in the same synchronous step after
// `pre_start`, so there every linked actor reports its exit.
//
// copy to:  ractor/tests/c06_tl_startup_exit_supervisor_event.rs
// run:      cargo test --offline -j4 -p ractor --test c06_tl_startup_exit_supervisor_event -- --test-threads 4

use std::time::Duration;

use ractor::thread_local::{ThreadLocalActor, ThreadLocalActorSpawner};
use ractor::{
    call, Actor, ActorId, ActorProcessingErr, ActorRef, ActorStatus, RpcReplyPort,
    SupervisionEvent,
};

// ---------------------------------------------------------------- supervisor (records events)
struct Sup;
enum SupMsg {
    Events(RpcReplyPort<Vec<(ActorId, String)>>),
}
#[cfg(feature = "cluster")]
impl ractor::Message for SupMsg {}

impl Actor for Sup {
    type Msg = SupMsg;
    type State = Vec<(ActorId, String)>;
    type Arguments = ();
    async fn pre_start(
        &self,
        _: ActorRef<Self::Msg>,
        _: (),
    ) -> Result<Self::State, ActorProcessingErr> {
        Ok(vec![])
    }
    async fn handle(
        &self,
        _: ActorRef<Self::Msg>,
        SupMsg::Events(reply): SupMsg,
        state: &mut Self::State,
    ) -> Result<(), ActorProcessingErr> {
        let _ = reply.send(state.clone());
        Ok(())
    }
    async fn handle_supervisor_evt(
        &self,
        _: ActorRef<Self::Msg>,
        evt: SupervisionEvent,
        state: &mut Self::State,
    ) -> Result<(), ActorProcessingErr> {
        match evt {
            SupervisionEvent::ActorTerminated(who, _, reason) => {
                state.push((who.get_id(), format!("ActorTerminated({reason:?})")))
            }
            SupervisionEvent::ActorFailed(who, err) => {
                state.push((who.get_id(), format!("ActorFailed({err})")))
            }
            _ => {}
        }
        Ok(())
    }
}

// ---------------------------------------------------------------- the subject
#[derive(Default)]
struct Subject;
#[derive(Debug)]
struct SubjMsg;
#[cfg(feature = "cluster")]
impl ractor::Message for SubjMsg {}

struct Args {
    entered: tokio::sync::oneshot::Sender<()>,
    gate: tokio::sync::oneshot::Receiver<bool>, // true => pre_start fails
}

impl Actor for Subject {
    type Msg = SubjMsg;
    type State = ();
    type Arguments = Args;
    async fn pre_start(
        &self,
        _myself: ActorRef<Self::Msg>,
        args: Args,
    ) -> Result<Self::State, ActorProcessingErr> {
        let _ = args.entered.send(());
        // stay inside pre_start until the test decides how we leave it
        if args.gate.await.unwrap_or(false) {
            return Err("pre_start failed".into());
        }
        Ok(())
    }
}

#[derive(Debug, Clone, Copy, PartialEq)]
enum ExitCause {
    Killed,
    PreStartError,
}

/// Returns (was the subject a linked child while it was in pre_start,
///          number of terminal events its supervisor was sent for it)
async fn scenario(cause: ExitCause, thread_local: bool) -> (bool, usize) {
    let (sup, sup_handle) = Actor::spawn(None, Sup, ()).await.unwrap();
    let (entered_tx, entered_rx) = tokio::sync::oneshot::channel();
    let (gate_tx, gate_rx) = tokio::sync::oneshot::channel();
    let args = Args {
        entered: entered_tx,
        gate: gate_rx,
    };

    let (subject, startup) = if thread_local {
        <Subject as ThreadLocalActor>::spawn_linked_instant(
            None,
            args,
            sup.get_cell(),
            ThreadLocalActorSpawner::new(),
        )
        .unwrap()
    } else {
        ractor::ActorRuntime::spawn_linked_instant(None, Subject, args, sup.get_cell()).unwrap()
    };

    // a waiter registered BEFORE the exit
    let early_waiter = {
        let subject = subject.clone();
        tokio::spawn(async move { subject.wait(Some(Duration::from_secs(5))).await.is_ok() })
    };

    entered_rx.await.unwrap();
    // the subject is now inside pre_start
    let linked_in_pre_start = subject
        .try_get_supervisor()
        .is_some_and(|s| s.get_id() == sup.get_id())
        && sup
            .get_children()
            .iter()
            .any(|c| c.get_id() == subject.get_id());

    match cause {
        ExitCause::Killed => {
            subject
                .kill_and_wait(Some(Duration::from_secs(5)))
                .await
                .expect("kill_and_wait");
        }
        ExitCause::PreStartError => {
            gate_tx.send(true).unwrap();
            subject
                .wait(Some(Duration::from_secs(5)))
                .await
                .expect("wait");
        }
    }
    // --- the wait has completed: the actor must be fully stopped
    assert_eq!(subject.get_status(), ActorStatus::Stopped);
    assert!(early_waiter.await.unwrap(), "early waiter missed the wake-up");
    assert!(startup.await.unwrap().is_err(), "startup must have failed");

    // The supervision port has priority over the message port, so by the time the
    // supervisor answers this RPC it has handled every supervision event that had been
    // sent to it before the waits above returned.
    let events = call!(sup, SupMsg::Events).unwrap();
    let n = events
        .iter()
        .filter(|(id, _)| *id == subject.get_id())
        .count();
    println!(
        "thread_local={thread_local} cause={cause:?}: linked during pre_start={linked_in_pre_start}, \
         terminal events sent to the supervisor={n} {events:?}"
    );

    sup.stop(None);
    sup_handle.await.unwrap();
    (linked_in_pre_start, n)
}

fn check(linked: bool, events: usize) {
    // C06: "wait(), kill_and_wait() ... complete only after the actor has fully stopped: ...
    //       its supervisor has been sent the terminal event"
    // An actor that is not linked has no supervisor, so there is nothing to send.
    if linked {
        assert_eq!(
            events, 1,
            "the actor was a linked child of its supervisor when it exited, the waits completed, \
             but the supervisor was sent {events} terminal events"
        );
    } else {
        assert_eq!(events, 0);
    }
}

#[tokio::test(flavor = "multi_thread", worker_threads = 2)]
async fn send_runtime_killed_during_pre_start() {
    let (linked, events) = scenario(ExitCause::Killed, false).await;
    check(linked, events);
}

#[tokio::test(flavor = "multi_thread", worker_threads = 2)]
async fn send_runtime_pre_start_error() {
    let (linked, events) = scenario(ExitCause::PreStartError, false).await;
    check(linked, events);
}

#[tokio::test(flavor = "multi_thread", worker_threads = 2)]
async fn thread_local_runtime_killed_during_pre_start() {
    let (linked, events) = scenario(ExitCause::Killed, true).await;
    check(linked, events);
}

#[tokio::test(flavor = "multi_thread", worker_threads = 2)]
async fn thread_local_runtime_pre_start_error() {
    let (linked, events) = scenario(ExitCause::PreStartError, true).await;
    check(linked, events);
}

//! PROPERTY C08 demonstration (thread-local runtime).
//!
//! `ThreadLocalActor::spawn` (and the `spawn_linked` / `*_instant` variants, they share
//! `ThreadLocalActorRuntime::start`) awaits, in `ThreadLocalActorSpawner::spawn`,
//!
//!   1. `rx.await`                 -- the reply carrying the `AbortOnDropHandle` of the start task
//!   2. `task.handle_mut().await`  -- the result of the start task running on the spawner thread
//!
//! Dropping the spawn future at either await point is supposed to leave nothing behind. The
//! only protection is `AbortOnDropHandle`, which *aborts the start task*. But the start task,
//! once `pre_start` returned `Ok`, immediately `spawn_local`s the processing loop as a
//! *separate, detached* task and completes. Aborting a completed task is a no-op, and the
//! inner `JoinHandle` stored as the task output is simply dropped (= detached).
//!
//! So if the spawn future is dropped after the start task completed on the spawner thread but
//! before the (other-thread) caller polled the spawn future again, the caller never receives
//! an `ActorRef`, yet the actor is alive forever: `post_start` and `handle` run, the status is
//! `Running`, the name stays registered, the supervisor keeps it as a child and receives
//! `ActorStarted` for it.

use std::sync::atomic::AtomicUsize;
use std::sync::atomic::Ordering;
use std::sync::Arc;
use std::time::Duration;

use ractor::thread_local::ThreadLocalActor;
use ractor::thread_local::ThreadLocalActorSpawner;
use ractor::Actor;
use ractor::ActorProcessingErr;
use ractor::ActorRef;
use ractor::ActorStatus;
use ractor::SupervisionEvent;

struct Ping;
#[cfg(feature = "cluster")]
impl ractor::Message for Ping {}

#[derive(Default)]
struct Probe {
    post_start_runs: AtomicUsize,
    handle_runs: AtomicUsize,
}

struct GatedArgs {
    entered: tokio::sync::oneshot::Sender<()>,
    gate: tokio::sync::oneshot::Receiver<()>,
    probe: Arc<Probe>,
}

/// A thread-local actor whose `pre_start` signals that it was entered and then waits on a gate.
#[derive(Default)]
struct Gated;

impl ThreadLocalActor for Gated {
    type Msg = Ping;
    type State = Arc<Probe>;
    type Arguments = GatedArgs;

    async fn pre_start(
        &self,
        _myself: ActorRef<Self::Msg>,
        args: Self::Arguments,
    ) -> Result<Self::State, ActorProcessingErr> {
        let _ = args.entered.send(());
        let _ = args.gate.await;
        Ok(args.probe)
    }

    async fn post_start(
        &self,
        _myself: ActorRef<Self::Msg>,
        state: &mut Self::State,
    ) -> Result<(), ActorProcessingErr> {
        state.post_start_runs.fetch_add(1, Ordering::SeqCst);
        Ok(())
    }

    async fn handle(
        &self,
        _myself: ActorRef<Self::Msg>,
        _message: Self::Msg,
        state: &mut Self::State,
    ) -> Result<(), ActorProcessingErr> {
        state.handle_runs.fetch_add(1, Ordering::SeqCst);
        Ok(())
    }
}

/// A plain supervisor which records every supervision event it receives.
struct Supervisor;

#[cfg_attr(feature = "async-trait", ractor::async_trait)]
impl Actor for Supervisor {
    type Msg = ();
    type State = Arc<std::sync::Mutex<Vec<String>>>;
    type Arguments = Arc<std::sync::Mutex<Vec<String>>>;

    async fn pre_start(
        &self,
        _myself: ActorRef<Self::Msg>,
        log: Self::Arguments,
    ) -> Result<Self::State, ActorProcessingErr> {
        Ok(log)
    }

    async fn handle_supervisor_evt(
        &self,
        _myself: ActorRef<Self::Msg>,
        message: SupervisionEvent,
        state: &mut Self::State,
    ) -> Result<(), ActorProcessingErr> {
        state.lock().unwrap().push(format!("{message}"));
        Ok(())
    }
}

async fn wait_until(what: &str, check: impl Fn() -> bool) -> bool {
    let deadline = std::time::Instant::now() + Duration::from_secs(3);
    while std::time::Instant::now() < deadline {
        if check() {
            return true;
        }
        tokio::time::sleep(Duration::from_millis(10)).await;
    }
    eprintln!("timed out waiting for: {what}");
    false
}

/// `polls_before_release`:
///   1 => the spawn future is dropped while parked at `rx.await`
///   2 => the spawn future is dropped while parked at `task.handle_mut().await`
async fn run(name: &str, polls_before_release: usize) {
    let spawner = ThreadLocalActorSpawner::new();
    let probe = Arc::new(Probe::default());
    let (entered_tx, entered_rx) = tokio::sync::oneshot::channel();
    let (gate_tx, gate_rx) = tokio::sync::oneshot::channel();

    let sup_log = Arc::new(std::sync::Mutex::new(Vec::new()));
    let (sup, sup_handle) = Actor::spawn(None, Supervisor, sup_log.clone())
        .await
        .expect("supervisor starts");

    let mut spawn_fut = Box::pin(<Gated as ThreadLocalActor>::spawn_linked(
        Some(name.to_string()),
        GatedArgs {
            entered: entered_tx,
            gate: gate_rx,
            probe: probe.clone(),
        },
        sup.get_cell(),
        spawner.clone(),
    ));

    // First poll: registers the name, links the supervisor, queues the start on the spawner
    // thread and parks at `rx.await`.
    assert!(futures::poll!(spawn_fut.as_mut()).is_pending());
    entered_rx.await.expect("pre_start entered");
    if polls_before_release >= 2 {
        // Second poll: picks up the AbortOnDropHandle and parks at `task.handle_mut().await`.
        assert!(futures::poll!(spawn_fut.as_mut()).is_pending());
    }

    let cell = ractor::registry::where_is(name).expect("registered while starting");
    assert_eq!(ActorStatus::Starting, cell.get_status());

    // Let pre_start finish on the spawner thread. We do NOT poll the spawn future again, the
    // way a task that lost a `select!` / hit a `timeout` would not.
    gate_tx.send(()).unwrap();
    // Give the spawner thread time to finish the start task.
    tokio::time::sleep(Duration::from_millis(300)).await;

    // The spawning future is dropped at an await point without ever having returned `Ok`.
    drop(spawn_fut);
    let post_start_at_drop = probe.post_start_runs.load(Ordering::SeqCst);
    let handle_at_drop = probe.handle_runs.load(Ordering::SeqCst);

    // --- "its status becomes Stopped and waiters are released" ---
    let stopped = wait_until("status Stopped", || {
        cell.get_status() == ActorStatus::Stopped
    })
    .await;
    let waiter_released = cell.wait(Some(Duration::from_millis(200))).await.is_ok();

    // --- "no handler of that actor ever runs afterwards" ---
    let _ = cell.send_message(Ping);
    tokio::time::sleep(Duration::from_millis(200)).await;
    let handle_after = probe.handle_runs.load(Ordering::SeqCst);
    let post_start_after = probe.post_start_runs.load(Ordering::SeqCst);

    // --- "its name ... free for reuse" ---
    let name_free = ractor::registry::where_is(name).is_none();
    // --- "in no supervisor's child set" ---
    let children = sup.get_children().len();
    // --- "no supervision event is emitted for it" ---
    let events = sup_log.lock().unwrap().clone();

    let report = format!(
        "status={:?} stopped={stopped} waiter_released={waiter_released} name_free={name_free} \
         supervisor_children={children} supervisor_events={events:?} \
         post_start_runs(at drop/after)={post_start_at_drop}/{post_start_after} \
         handle_runs(at drop/after)={handle_at_drop}/{handle_after}",
        cell.get_status()
    );
    eprintln!("{report}");

    // cleanup regardless of outcome
    cell.kill();
    sup.stop(None);
    let _ = sup_handle.await;

    assert!(stopped, "cancelled spawn did not become Stopped: {report}");
    assert!(waiter_released, "waiter not released: {report}");
    assert!(name_free, "name still registered: {report}");
    assert_eq!(0, children, "still a child of the supervisor: {report}");
    assert!(events.is_empty(), "supervision events emitted: {report}");
    assert_eq!(
        handle_at_drop, handle_after,
        "a handler ran after the spawn was cancelled: {report}"
    );
}

#[tokio::test]
async fn spawn_future_dropped_at_start_task_join_leaves_nothing_behind() {
    run("h08_drop_at_task_join", 2).await;
}

#[tokio::test]
async fn spawn_future_dropped_at_reply_await_leaves_nothing_behind() {
    run("h08_drop_at_reply_await", 1).await;
}

/// Control: same schedule but the future is dropped while `pre_start` is still pending.
/// This one passes on the unmodified tree (the abort reaches the start task in time).
#[tokio::test]
async fn control_spawn_future_dropped_during_pre_start_is_cleaned_up() {
    let name = "h08_control_drop_during_pre_start";
    let spawner = ThreadLocalActorSpawner::new();
    let probe = Arc::new(Probe::default());
    let (entered_tx, entered_rx) = tokio::sync::oneshot::channel();
    let (_gate_tx, gate_rx) = tokio::sync::oneshot::channel();
    let mut spawn_fut = Box::pin(<Gated as ThreadLocalActor>::spawn(
        Some(name.to_string()),
        GatedArgs {
            entered: entered_tx,
            gate: gate_rx,
            probe: probe.clone(),
        },
        spawner.clone(),
    ));
    assert!(futures::poll!(spawn_fut.as_mut()).is_pending());
    entered_rx.await.unwrap();
    assert!(futures::poll!(spawn_fut.as_mut()).is_pending());
    let cell = ractor::registry::where_is(name).expect("registered while starting");
    drop(spawn_fut);
    assert!(
        wait_until("status Stopped", || cell.get_status() == ActorStatus::Stopped).await,
        "status {:?}",
        cell.get_status()
    );
    assert!(ractor::registry::where_is(name).is_none());
    assert_eq!(0, probe.post_start_runs.load(Ordering::SeqCst));
}

/// Same window, `spawn_linked_instant`: here the "spawning task" is the `JoinHandle` returned
/// next to the `ActorRef`. It is aborted after the start task completed on the spawner thread
/// but before the spawning task was polled again (the test runtime is single threaded and is
/// kept busy with a blocking sleep, so the spawning task cannot be polled in between).
#[cfg(not(feature = "async-std"))]
#[tokio::test(flavor = "current_thread")]
async fn instant_spawn_task_aborted_at_start_task_join_leaves_nothing_behind() {
    let name = "h08_instant_abort_at_task_join";
    let spawner = ThreadLocalActorSpawner::new();
    let probe = Arc::new(Probe::default());
    let (entered_tx, entered_rx) = tokio::sync::oneshot::channel();
    let (gate_tx, gate_rx) = tokio::sync::oneshot::channel();

    let (actor, spawn_task) = <Gated as ThreadLocalActor>::spawn_instant(
        Some(name.to_string()),
        GatedArgs {
            entered: entered_tx,
            gate: gate_rx,
            probe: probe.clone(),
        },
        spawner.clone(),
    )
    .expect("name is free");

    entered_rx.await.expect("pre_start entered");
    // let the spawning task pick up the reply and park on the start task's join handle
    tokio::time::sleep(Duration::from_millis(50)).await;
    assert_eq!(ActorStatus::Starting, actor.get_status());

    gate_tx.send(()).unwrap();
    // block the (only) runtime thread: the spawning task cannot be polled meanwhile
    std::thread::sleep(Duration::from_millis(300));
    spawn_task.abort();
    let joined = spawn_task.await;
    assert!(
        joined.as_ref().is_err_and(|e| e.is_cancelled()),
        "spawning task was expected to be cancelled, got {joined:?}"
    );

    let stopped = wait_until("status Stopped", || {
        actor.get_status() == ActorStatus::Stopped
    })
    .await;
    let _ = actor.send_message(Ping);
    tokio::time::sleep(Duration::from_millis(200)).await;
    let report = format!(
        "status={:?} name_free={} post_start_runs={} handle_runs={}",
        actor.get_status(),
        ractor::registry::where_is(name).is_none(),
        probe.post_start_runs.load(Ordering::SeqCst),
        probe.handle_runs.load(Ordering::SeqCst),
    );
    eprintln!("{report}");
    actor.kill();
    assert!(stopped, "cancelled instant spawn did not become Stopped: {report}");
    assert!(ractor::registry::where_is(name).is_none(), "{report}");
    assert_eq!(0, probe.handle_runs.load(Ordering::SeqCst), "{report}");
}

//! C12 demonstration: `send_interval` silently delivers NOTHING when its target is
//! still `Unstarted` at the moment the interval task is first polled.
//!
//! `Actor::spawn_instant` hands out an `ActorRef` synchronously; the actor only moves
//! `Unstarted -> Starting` when its (separately spawned) start-up task is polled for the
//! first time. `send_interval` gates its loop on `ACTIVE_STATES`
//! (`Starting | Running | Upgrading`), which does not contain `Unstarted`, so if the
//! interval task happens to be polled before the start-up task, the loop body is never
//! entered and the task returns at once: the actor then starts, runs happily, and never
//! receives a single tick. The one-shot twin `send_after` has no such gate and works.
//!
//! Everything runs on one current-thread tokio runtime with a paused (virtual) clock.
//! The interleaving "interval task polled before the actor's start-up task" is forced
//! by issuing `spawn_instant` from a helper thread (=> start-up task lands in the
//! runtime's remote queue) and `send_interval` from the runtime thread (=> interval
//! task lands in the local queue, which is served first).

use std::sync::atomic::{AtomicUsize, Ordering};
use std::sync::Arc;

use ractor::concurrency::Duration;
use ractor::{Actor, ActorProcessingErr, ActorRef, ActorStatus};

struct Counter;

#[cfg_attr(feature = "async-trait", ractor::async_trait)]
impl Actor for Counter {
    type Msg = ();
    type State = Arc<AtomicUsize>;
    type Arguments = Arc<AtomicUsize>;

    async fn pre_start(
        &self,
        _myself: ActorRef<Self::Msg>,
        counter: Arc<AtomicUsize>,
    ) -> Result<Self::State, ActorProcessingErr> {
        Ok(counter)
    }

    async fn handle(
        &self,
        _myself: ActorRef<Self::Msg>,
        _message: Self::Msg,
        state: &mut Self::State,
    ) -> Result<(), ActorProcessingErr> {
        state.fetch_add(1, Ordering::SeqCst);
        Ok(())
    }
}

/// Create the actor with `spawn_instant` from a helper thread which only holds a
/// runtime handle. Returns while the actor is still `Unstarted`.
fn spawn_instant_from_other_thread(
    counter: Arc<AtomicUsize>,
) -> (
    ActorRef<()>,
    tokio::task::JoinHandle<Result<tokio::task::JoinHandle<()>, ractor::SpawnErr>>,
) {
    let rt = tokio::runtime::Handle::current();
    std::thread::spawn(move || {
        let _guard = rt.enter();
        ractor::ActorRuntime::<Counter>::spawn_instant(None, Counter, counter).expect("spawn_instant failed")
    })
    .join()
    .expect("helper thread panicked")
}

/// THE VIOLATION: 55 virtual ms after `send_interval(10ms)` the (by then running) target
/// must have received messages 1..=5 (at 10, 20, 30, 40, 50 ms). It received none and
/// the interval task is already gone.
#[tokio::test(start_paused = true)]
async fn send_interval_to_unstarted_target_must_deliver_kth_message_at_k_periods() {
    let counter = Arc::new(AtomicUsize::new(0));
    let (actor, start_handle) = spawn_instant_from_other_thread(counter.clone());
    assert_eq!(ActorStatus::Unstarted, actor.get_status());

    let interval = actor.send_interval(Duration::from_millis(10), || ());

    tokio::time::sleep(Duration::from_millis(55)).await;

    // the target came up fine and is running ...
    let actor_handle = start_handle
        .await
        .expect("start task panicked")
        .expect("actor failed to start");
    assert_eq!(ActorStatus::Running, actor.get_status());

    // ... so the property demands ticks 1..=5 by now, and a live interval task
    let delivered = counter.load(Ordering::SeqCst);
    let interval_finished = interval.is_finished();
    actor.stop(None);
    actor_handle.await.unwrap();
    assert!(
        !interval_finished,
        "interval task ended although its target is Running (delivered = {delivered})"
    );
    assert_eq!(
        5, delivered,
        "send_interval(10ms) delivered {delivered} messages in 55ms of virtual time"
    );
}

/// CONTROL (passes): the very same history with the one-shot twin `send_after` works,
/// the message is queued while the target is `Unstarted` and handled once it runs.
#[tokio::test(start_paused = true)]
async fn control_send_after_to_unstarted_target_delivers() {
    let counter = Arc::new(AtomicUsize::new(0));
    let (actor, start_handle) = spawn_instant_from_other_thread(counter.clone());
    assert_eq!(ActorStatus::Unstarted, actor.get_status());

    let after = actor.send_after(Duration::from_millis(10), || ());

    tokio::time::sleep(Duration::from_millis(55)).await;
    let actor_handle = start_handle.await.unwrap().unwrap();
    assert!(after.await.unwrap().is_ok());
    assert_eq!(1, counter.load(Ordering::SeqCst));
    actor.stop(None);
    actor_handle.await.unwrap();
}

/// CONTROL (passes): the same interval against a target which is already past
/// `Unstarted` delivers exactly ticks 1..=5 in 55 virtual ms.
#[tokio::test(start_paused = true)]
async fn control_send_interval_to_started_target_delivers() {
    let counter = Arc::new(AtomicUsize::new(0));
    let (actor, actor_handle) = Actor::spawn(None, Counter, counter.clone())
        .await
        .unwrap();

    let interval = actor.send_interval(Duration::from_millis(10), || ());
    tokio::time::sleep(Duration::from_millis(55)).await;

    assert!(!interval.is_finished());
    assert_eq!(5, counter.load(Ordering::SeqCst));
    actor.stop(None);
    actor_handle.await.unwrap();
}

/// THE VIOLATION, second copy: `DerivedActorRef::send_interval` carries its own copy of
/// the loop with the same `ACTIVE_STATES` gate.
#[tokio::test(start_paused = true)]
async fn derived_send_interval_to_unstarted_target_must_deliver_kth_message_at_k_periods() {
    struct Tick;
    #[cfg(feature = "cluster")]
    impl ractor::Message for Tick {}
    impl From<Tick> for () {
        fn from(_: Tick) -> Self {}
    }
    impl TryFrom<()> for Tick {
        type Error = ();
        fn try_from(_: ()) -> Result<Self, ()> {
            Ok(Tick)
        }
    }

    let counter = Arc::new(AtomicUsize::new(0));
    let (actor, start_handle) = spawn_instant_from_other_thread(counter.clone());
    assert_eq!(ActorStatus::Unstarted, actor.get_status());

    let derived: ractor::DerivedActorRef<Tick> = actor.get_derived();
    let interval = derived.send_interval(Duration::from_millis(10), || Tick);

    tokio::time::sleep(Duration::from_millis(55)).await;

    let actor_handle = start_handle
        .await
        .expect("start task panicked")
        .expect("actor failed to start");
    assert_eq!(ActorStatus::Running, actor.get_status());

    let delivered = counter.load(Ordering::SeqCst);
    let interval_finished = interval.is_finished();
    actor.stop(None);
    actor_handle.await.unwrap();
    assert!(
        !interval_finished,
        "interval task ended although its target is Running (delivered = {delivered})"
    );
    assert_eq!(
        5, delivered,
        "DerivedActorRef::send_interval(10ms) delivered {delivered} messages in 55ms of virtual time"
    );
}

// HUNT C13 / finding 2
//
// Jobs which the factory ACCEPTED (acceptance port answered `None`) and parked in a
// per-worker queue (every non factory-queueing router: KeyPersistentRouting,
// RoundRobinRouting, CustomRouting -- and the "sticky" jobs of StickyQueuerRouting) meet
// no fate at all when the factory stops: `Factory::post_stop` hands only the jobs of the
// factory level queue to the discard handler (`DiscardReason::Shutdown`), the per-worker
// queues are dropped silently while all workers are perfectly healthy.
//
// The twin test with QueuerRouting (same history, jobs parked in the factory queue instead)
// passes on the unmodified tree.

use std::sync::{Arc, Mutex};
use std::time::Duration;

use ractor::factory::*;
use ractor::{Actor, ActorProcessingErr, ActorRef};
use tokio::sync::Semaphore;

#[derive(Debug)]
struct Msg(u32);
#[cfg(feature = "cluster")]
impl ractor::Message for Msg {}

struct Ctl {
    started: Mutex<Vec<u32>>,
    handled: Mutex<Vec<u32>>,
    discarded: Mutex<Vec<(u32, DiscardReason)>>,
    gate1: Semaphore,
}

struct TestWorker {
    ctl: Arc<Ctl>,
}

#[cfg_attr(feature = "async-trait", ractor::async_trait)]
impl Worker for TestWorker {
    type Key = u64;
    type Message = Msg;
    type Arguments = ();
    type State = ();

    async fn pre_start(
        &self,
        _wid: WorkerId,
        _factory: &ActorRef<FactoryMessage<u64, Msg>>,
        _args: (),
    ) -> Result<(), ActorProcessingErr> {
        Ok(())
    }

    async fn handle(
        &self,
        _wid: WorkerId,
        _factory: &ActorRef<FactoryMessage<u64, Msg>>,
        job: Job<u64, Msg>,
        _state: &mut (),
    ) -> Result<u64, ActorProcessingErr> {
        let id = job.msg.0;
        self.ctl.started.lock().unwrap().push(id);
        if id == 1 {
            self.ctl.gate1.acquire().await.unwrap().forget();
        }
        self.ctl.handled.lock().unwrap().push(id);
        Ok(job.key)
    }
}

struct Builder {
    ctl: Arc<Ctl>,
}
impl WorkerBuilder<TestWorker, ()> for Builder {
    fn build(&mut self, _wid: WorkerId) -> (TestWorker, ()) {
        (
            TestWorker {
                ctl: self.ctl.clone(),
            },
            (),
        )
    }
}

struct Discards {
    ctl: Arc<Ctl>,
}
impl DiscardHandler<u64, Msg> for Discards {
    fn discard(&self, reason: DiscardReason, job: &mut Job<u64, Msg>) {
        self.ctl.discarded.lock().unwrap().push((job.msg.0, reason));
    }
}

async fn scenario<TRouter>(router: TRouter)
where
    TRouter: routing::Router<u64, Msg>,
{
    let ctl = Arc::new(Ctl {
        started: Mutex::new(vec![]),
        handled: Mutex::new(vec![]),
        discarded: Mutex::new(vec![]),
        gate1: Semaphore::new(0),
    });

    let factory_definition =
        Factory::<u64, Msg, (), TestWorker, TRouter, queues::DefaultQueue<u64, Msg>>::default();
    let (factory, factory_handle) = Actor::spawn(
        None,
        factory_definition,
        FactoryArguments::builder()
            .worker_builder(Box::new(Builder { ctl: ctl.clone() }))
            .num_initial_workers(1)
            .router(router)
            .queue(Default::default())
            .discard_handler(Arc::new(Discards { ctl: ctl.clone() }))
            .build(),
    )
    .await
    .expect("failed to spawn factory");

    // J1 occupies the only worker; J2 and J3 are submitted with an acceptance port and the
    // factory answers `None` == "accepted".
    for id in 1..=3u32 {
        let (tx, rx) = ractor::concurrency::oneshot();
        factory
            .cast(FactoryMessage::Dispatch(Job {
                key: 7u64,
                msg: Msg(id),
                options: JobOptions::default(),
                accepted: Some(tx.into()),
            }))
            .unwrap();
        let reply = tokio::time::timeout(Duration::from_secs(5), rx)
            .await
            .expect("no acceptance reply")
            .expect("acceptance port dropped");
        assert!(reply.is_none(), "job {id} must be accepted by the factory");
    }
    assert_eq!(vec![1], *ctl.started.lock().unwrap());

    // The factory is stopped; the (healthy) worker is then allowed to finish J1.
    factory.stop(None);
    tokio::time::sleep(Duration::from_millis(200)).await;
    ctl.gate1.add_permits(1);
    tokio::time::timeout(Duration::from_secs(10), factory_handle)
        .await
        .expect("factory did not stop")
        .unwrap();
    tokio::time::sleep(Duration::from_millis(200)).await;

    let handled = ctl.handled.lock().unwrap().clone();
    let discarded = ctl.discarded.lock().unwrap().clone();
    for id in 1..=3u32 {
        let n_handled = handled.iter().filter(|h| **h == id).count();
        let n_discarded = discarded.iter().filter(|(d, _)| *d == id).count();
        assert_eq!(
            1,
            n_handled + n_discarded,
            "accepted job {id} must be handled once or be handed to the discard handler once \
             (Shutdown); handled={handled:?} discarded={discarded:?}"
        );
    }
    assert_eq!(vec![1], handled);
    assert_eq!(
        vec![(2, DiscardReason::Shutdown), (3, DiscardReason::Shutdown)],
        discarded
    );
}

/// FAILS on the unmodified tree: J2 and J3 sit in worker 0's queue and vanish.
#[tokio::test(flavor = "multi_thread", worker_threads = 2)]
async fn accepted_jobs_in_worker_queue_are_discarded_on_shutdown_key_persistent() {
    scenario(routing::KeyPersistentRouting::<u64, Msg>::default()).await;
}

/// FAILS on the unmodified tree, same reason.
#[tokio::test(flavor = "multi_thread", worker_threads = 2)]
async fn accepted_jobs_in_worker_queue_are_discarded_on_shutdown_round_robin() {
    scenario(routing::RoundRobinRouting::<u64, Msg>::default()).await;
}

/// Twin / control: passes on the unmodified tree (jobs are parked in the factory queue).
#[tokio::test(flavor = "multi_thread", worker_threads = 2)]
async fn control_accepted_jobs_in_factory_queue_are_discarded_on_shutdown_queuer() {
    scenario(routing::QueuerRouting::<u64, Msg>::default()).await;
}

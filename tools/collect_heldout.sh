#!/bin/bash
# usage: collect_heldout.sh <Cxx>   copies /tmp/wt/Q<xx>/REFAC/k to refactorings/<Cxx>-h<k> (held-out batch) and removes the worktree
id=$1; w=Q${id#C}
for k in 1 2 3 4 5; do
  src=/tmp/wt/$w/REFAC/$k
  [ -f $src/patch.diff ] || continue
  d=/verif/refactorings/$id-h$k; mkdir -p $d
  cp $src/patch.diff $d/; cp $src/meta.json $d/ 2>/dev/null
done
git -C /repo worktree remove --force /tmp/wt/$w 2>/dev/null; rm -rf /tmp/wt/$w

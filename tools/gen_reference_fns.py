#!/usr/bin/env python3
"""Writes rules/reference_fns.json: the ids of all workspace functions of the tree the rule instances were confirmed on.
The view "new" (rules/inline.py) splices into their callers exactly the private synchronous helpers that are *not* in this
list, i.e. helpers a later change extracted.  Regenerate after a fix: commit to /repo:  python3 tools/gen_reference_fns.py"""
import json, os, sys
sys.path.insert(0, os.path.join(os.path.dirname(__file__), ".."))
from rules import build
from rules.facts import DB
ids = set()
rh = build.repo_hash()
for tag in ("dflt", "rc", "clus", "atr", "astd", "opv2", "mon", "rcatr", "ws"):
    try:
        db = DB(tag, build.facts_for(tag, rh))
    except build.BuildFailure as e:
        print("skip", tag)
        continue
    for f in db.fns.values():
        if (f.crate or "").startswith("ractor") and f.kind in ("fn", "method"):
            ids.add(f.id)
out = os.path.join(os.path.dirname(__file__), "..", "rules", "reference_fns.json")
json.dump(sorted(ids), open(out, "w"), indent=0)
print(len(ids), "function ids ->", out)

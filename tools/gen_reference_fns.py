#!/usr/bin/env python3
"""Writes rules/reference.json: per build tag, the workspace functions (id -> signature, callee multiset) and the ADT field
lists of the tree the rule instances were confirmed on.  Used only by the fallback *views* (rules/inline.py, rules/facts.py):
  * view "new" splices into their callers exactly the private synchronous helpers that are not in this list (helpers a later
    change extracted);
  * every view presents a private function / field that was merely *renamed* (same container, same signature / same position
    and type, unique match) under its reference name, so that rules which look a role up by name still find it.
Regenerate after a `fix:` commit to /repo:  python3 tools/gen_reference_fns.py"""
import json, os, sys
sys.path.insert(0, os.path.join(os.path.dirname(__file__), ".."))
from rules import build
from rules.facts import DB, fn_signature
ref = {}
rh = build.repo_hash()
for tag in ("dflt", "rc", "clus", "atr", "astd", "opv2", "mon", "rcatr", "ws", "gen", "pos"):
    try:
        db = DB(tag, build.facts_for(tag, rh))
    except build.BuildFailure as e:
        print("skip", tag)
        continue
    fns = {}
    for f in db.fns.values():
        if (f.crate or "").startswith("ractor") and f.kind in ("fn", "method"):
            fns[f.id] = fn_signature(f)
    adts = {}
    for k, a in db.adts.items():
        if (a.get("crate") or "").startswith("ractor"):
            adts[k] = [[(fl["name"], fl["ty"]) for fl in v.get("fields", [])] for v in a.get("variants", [])]
    ref[tag] = {"fns": fns, "adts": adts}
out = os.path.join(os.path.dirname(__file__), "..", "rules", "reference.json")
json.dump(ref, open(out, "w"), indent=0, sort_keys=True)
print({t: len(v["fns"]) for t, v in ref.items()}, "->", out)

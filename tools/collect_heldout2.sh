#!/bin/bash
# usage: collect_heldout2.sh <Cxx>   copies /tmp/wt/G<xx>/REFAC/k to refactorings/<Cxx>-g<k> (second held-out batch) and removes the worktree
id=$1; w=G${id#C}
for k in 1 2 3; do
  src=/tmp/wt/$w/REFAC/$k
  [ -f $src/patch.diff ] || continue
  d=/verif/refactorings/$id-g$k; mkdir -p $d
  cp $src/patch.diff $d/; cp $src/meta.json $d/ 2>/dev/null
done
git -C /repo worktree remove --force /tmp/wt/$w 2>/dev/null; rm -rf /tmp/wt/$w

#!/bin/bash
# usage: collect_seeds.sh <Cxx> <offset> <suffix>   copies /tmp/wt/<Cxx><suffix>/SEED/{1,2} to seeded/<Cxx>-<offset+k>, removes the worktree
id=$1; n=$2; sfx=$3
for k in 1 2; do
  src=/tmp/wt/${id}${sfx}/SEED/$k
  [ -f $src/patch.diff ] || { echo "no seed $k for $id"; continue; }
  idx=$((n+k)); d=/verif/seeded/$id-$idx; mkdir -p $d || { echo "cannot create $d, worktree kept"; exit 1; }
  cp $src/patch.diff $src/meta.json $d/ 2>/dev/null
  cp -r $src/demo $d/ 2>/dev/null
  find $d -name "*.log" -size +100k -delete
done
git -C /repo worktree remove --force /tmp/wt/${id}${sfx} 2>/dev/null; rm -rf /tmp/wt/${id}${sfx}

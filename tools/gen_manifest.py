#!/usr/bin/env python3
"""Regenerates /verif/MANIFEST.json from the rule modules present under rules/ (run after adding a property)."""
import json, os, sys, importlib
VERIF = os.path.dirname(os.path.dirname(os.path.abspath(__file__)))
sys.path.insert(0, VERIF)
TECH = "custom MIR analysis over the real build (rustc_private driver): dominators, field-sensitive slicing, who-may-call, future-flow/ownership dataflow; compile-fail witnesses where type-level"
BASE_OFF = "cd /repo && cargo nextest run --workspace --no-fail-fast --tool-config-file pb:/w/lib/nextest.toml --profile pb --test-threads 8 --offline"
props = [json.loads(l) for l in open(os.path.join(VERIF, "properties.jsonl"))]
checks, na = [], []
for p in props:
    pid = p["id"]
    path = os.path.join(VERIF, "rules", pid.lower() + ".py")
    if not os.path.exists(path):
        na.append({"property_id": pid, "reason": "static check not built yet in this session (see DESIGN.md section 5 for the planned structural clauses); not claimed"})
        continue
    mod = importlib.import_module("rules." + pid.lower())
    if getattr(mod, "NOT_APPLICABLE", None):
        na.append({"property_id": pid, "reason": mod.NOT_APPLICABLE})
        continue
    checks.append({
        "property_id": pid,
        "quick_cmd": "./check %s --tier quick" % pid,
        "thorough_cmd": "./check %s --tier thorough" % pid,
        "evidence_file": "evidence/%s.json" % pid,
        "replay_cmd_template": "./check %s --explain {path}" % pid,
        "engine": "E-MIR",
        "level_claimed": {"category": "other", "text": getattr(mod, "CLAIM", mod.EXPLANATION), "design_ref": "DESIGN.md section 5, " + pid},
        "level_note": getattr(mod, "LEVEL_NOTE", "Trusted: " + "; ".join(getattr(mod, "TRUSTED", []))),
        "technique": getattr(mod, "TECHNIQUE", TECH),
    })
man = {
    "version": 1,
    "setup_cmd": "cd /verif/driver && CARGO_NET_OFFLINE=true cargo build --release --offline",
    "hooks": {"guard": "slawlor_ractor_verif", "enable": "none needed: static analysis reads /repo through the real cargo build (RUSTC_WORKSPACE_WRAPPER), no instrumentation is compiled in",
              "baseline_off_cmd": BASE_OFF, "source_commits": [], "add_only": True},
    "engines": [
        {"name": "E-MIR", "path": "driver/ + rules/", "serves_properties": [c["property_id"] for c in checks],
         "kind_free_text": "rustc_private driver dumping pre-coroutine-transform MIR facts under the real cargo build; Python rule checkers (dominance, slicing, call graph, future flow)"},
        {"name": "E-TYPE", "path": "witness/types", "serves_properties": ["C02", "C09", "C13"], "kind_free_text": "compile_fail doctest witnesses with compiling twins (cargo +nightly test --doc)"},
    ],
    "checks": checks,
    "not_applicable": na,
    "notes": "All checks are static: they rebuild facts from /repo's current working tree on every run (content-hashed cache under /verif/.cache) and never execute ractor code. A rule that fails on the program as written is re-asked on semantics-preserving presentations of the same MIR (private helpers and in-place closures spliced into their callers, renamed private items under their reference names, combinators as matches; DESIGN.md section 14) before a violation is reported. Known findings: known_findings.json.",
}
json.dump(man, open(os.path.join(VERIF, "MANIFEST.json"), "w"), indent=1)
print("checks:", [c["property_id"] for c in checks], "na:", [n["property_id"] for n in na])

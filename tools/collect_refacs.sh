#!/bin/bash
# usage: collect_refacs.sh <Cxx>   copies /tmp/wt/R<xx>/REFAC/k to refactorings/<Cxx>-k and removes the worktree
id=$1; w=R${id#C}
for k in 1 2 3 4 5 6; do
  src=/tmp/wt/$w/REFAC/$k
  [ -f $src/patch.diff ] || continue
  d=/verif/refactorings/$id-$k; mkdir -p $d
  cp $src/patch.diff $d/; cp $src/meta.json $d/ 2>/dev/null
done
git -C /repo worktree remove --force /tmp/wt/$w 2>/dev/null; rm -rf /tmp/wt/$w

You are working in a scratch git worktree of the Rust actor framework slawlor/ractor at /tmp/wt/R6-@ID@ (a detached checkout; build output is already warm in ./target; there is NO network: always pass --offline to cargo). Work ONLY inside /tmp/wt/R6-@ID@. Do not read or touch /repo or /verif.

The file /tmp/wt/R6-@ID@/PROPERTY.txt holds the text of one semantic property of ractor that currently holds. Read it and the code it is anchored in.

Task: produce ONE realistic change to ractor's library source (not its tests) that BREAKS this property, while (a) the workspace still compiles, and (b) the existing test suite still passes: `cargo nextest run --workspace --no-fail-fast --test-threads 4 --offline --build-jobs 4` (fallback `cargo test --workspace --offline`). The change should look like a plausible refactoring/optimisation/"simplification" slip a maintainer could make — not sabotage — and it must need something SPECIFIC to manifest: a particular interleaving, a crash/fault at a particular point, a multi-step sequence, an unusual input, or two cooperating sites that each look fine alone. Not something ordinary use exposes at once. Prefer a less obvious part of the mechanism (a rarely-taken exit path, a twin implementation, an adapter, a secondary clause of the statement) rather than the most central line.

Also write a demonstration: a new test file (e.g. ractor/tests/<name>.rs or ractor_cluster/tests/<name>.rs; deterministic) that FAILS with your change and PASSES without it. Verify both directions yourself and verify the suite passes with the change.

Deliverables, in /tmp/wt/R6-@ID@/SEED/1/ :
 - patch.diff : `git diff` of the library change only (must apply with `git apply` on the pristine checkout; not the demo test, not SEED/)
 - demo/<name>.rs : the demonstration test
 - meta.json : {"property":"@ID@","summary":"<what was changed, where, why it breaks the property>","needs_to_manifest":"<specific condition needed>","files_changed":[...],"demo_cmd":"mkdir -p <crate>/tests && cp SEED/1/demo/<name>.rs <crate>/tests/ && cargo test -p <crate> --offline -j4 --test <name> -- --test-threads 4","suite_cmd":"cargo nextest run --workspace --no-fail-fast --test-threads 4 --offline --build-jobs 4","suite_passed_with_patch":true/false,"demo_fails_with_patch":true/false,"demo_passes_without_patch":true/false}

You have about 9 minutes of wall time: pick a change quickly, keep it small, finish the deliverables. At the end leave the worktree's tracked files pristine (git checkout -- . ; remove the copied demo test), keeping only SEED/. Reply with a 3-line summary.
Never use `git stash` (the stash is shared between all worktrees of this repository); use `git diff > f; git checkout -- .; git apply f`.

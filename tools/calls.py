#!/usr/bin/env python3
# exploratory helper: list calls/aggregates/switches of bodies matching a regex
import sys; sys.path.insert(0,'/verif')
from rules import build
from rules.facts import *
tag, rx = sys.argv[1], sys.argv[2]
db = DB(tag, build.facts_for(tag))
for f in db.find(rx):
    print("==", f.id, f.kind, f.where())
    for c in f.calls():
        nm = c.name
        if any(x in nm for x in ('fmt::', 'tracing', 'panicking', 'Arguments', 'get_context', 'new_unchecked','__macro_support','tracing_core','Callsite','into_future','LevelFilter','Interest','Level')): continue
        print("  bb%-3d L%-4s %s  args=%s -> %s" % (c.bb, c.line, nm[:110], [op_str(a) for a in c.args], place_str(c.dest)))

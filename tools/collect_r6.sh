#!/bin/bash
# usage: collect_r6.sh <Cxx>   round 6: copies /tmp/wt/R6-<Cxx>/SEED/1 to seeded/<Cxx>-<next>, runs the property's check on it
# (scratch copy), confirms it in the agent's own worktree (suite + demo both ways), removes the worktree.
id=$1; w=/tmp/wt/R6-$id; src=$w/SEED/1
[ -f $src/patch.diff ] || { echo "$id: no seed"; exit 1; }
n=$(ls -d /verif/seeded/$id-* | sed 's/.*-//' | sort -n | tail -1); idx=$((n+1)); d=/verif/seeded/$id-$idx
mkdir -p $d; cp $src/patch.diff $src/meta.json $d/; cp -r $src/demo $d/ 2>/dev/null; find $d -name "*.log" -size +100k -delete
cd /verif
python3 selftest/seeds.py "^$id-$idx\$" --scratch=r6$id 2>&1 | tail -3 > /tmp/r6/$id.det
cat /tmp/r6/$id.det
CONFIRM_WT3=$w python3 seeded/confirm.py "^$id-$idx\$" 2>&1 | tail -2
git -C /repo worktree remove --force $w 2>/dev/null; rm -rf $w

// ractor-facts: a rustc_private driver that dumps a structured fact database (pre-coroutine-
// transform MIR, ADTs, impls, statics) for every workspace crate it compiles.
//
// It is injected with RUSTC_WORKSPACE_WRAPPER under `cargo +nightly check`, so it sees the real
// build (features, cfgs, Cargo.lock).  One JSON file per rustc process is written to
// $RACTOR_FACTS_DIR (single write, no interleaving).  Compilation continues normally so that
// dependent workspace crates get their metadata.
#![feature(rustc_private)]

extern crate rustc_abi;
extern crate rustc_driver;
extern crate rustc_hir;
extern crate rustc_interface;
extern crate rustc_middle;
extern crate rustc_session;
extern crate rustc_span;

use rustc_driver::Compilation;
use rustc_hir::def::DefKind;
use rustc_hir::def_id::{DefId, LocalDefId};
use rustc_middle::mir::{
    self, AggregateKind, BasicBlockData, Body, BorrowKind, Const, ConstValue, Operand, Place,
    ProjectionElem, Rvalue, StatementKind, TerminatorKind, VarDebugInfoContents,
};
use rustc_middle::ty::print::{with_no_trimmed_paths, with_resolve_crate_name};
use rustc_middle::ty::{self, Instance, Ty, TyCtxt, TypingEnv};
use rustc_span::Span;
use std::fmt::Write as _;

// ------------------------------------------------------------------------------------------
// tiny JSON writer
// ------------------------------------------------------------------------------------------
struct J {
    s: String,
}
impl J {
    fn new() -> Self {
        J { s: String::with_capacity(1 << 20) }
    }
    fn raw(&mut self, x: &str) {
        self.s.push_str(x);
    }
    fn str(&mut self, x: &str) {
        self.s.push('"');
        for c in x.chars() {
            match c {
                '"' => self.s.push_str("\\\""),
                '\\' => self.s.push_str("\\\\"),
                '\n' => self.s.push_str("\\n"),
                '\r' => self.s.push_str("\\r"),
                '\t' => self.s.push_str("\\t"),
                c if (c as u32) < 0x20 => {
                    let _ = write!(self.s, "\\u{:04x}", c as u32);
                }
                c => self.s.push(c),
            }
        }
        self.s.push('"');
    }
    fn key(&mut self, k: &str) {
        self.str(k);
        self.s.push(':');
    }
    fn kv_str(&mut self, k: &str, v: &str) {
        self.key(k);
        self.str(v);
    }
    fn kv_num<T: std::fmt::Display>(&mut self, k: &str, v: T) {
        self.key(k);
        let _ = write!(self.s, "{}", v);
    }
    fn kv_bool(&mut self, k: &str, v: bool) {
        self.key(k);
        self.s.push_str(if v { "true" } else { "false" });
    }
    fn comma(&mut self) {
        self.s.push(',');
    }
}

fn p<T: std::fmt::Display>(x: T) -> String {
    with_no_trimmed_paths!(with_resolve_crate_name!(format!("{}", x)))
}
fn pd<T: std::fmt::Debug>(x: T) -> String {
    with_no_trimmed_paths!(with_resolve_crate_name!(format!("{:?}", x)))
}
fn path<'tcx>(tcx: TyCtxt<'tcx>, d: DefId) -> String {
    with_no_trimmed_paths!(with_resolve_crate_name!(tcx.def_path_str(d)))
}

struct Cx<'tcx> {
    tcx: TyCtxt<'tcx>,
}

impl<'tcx> Cx<'tcx> {
    fn line(&self, sp: Span) -> (String, usize, bool) {
        let sm = self.tcx.sess.source_map();
        let cs = sp.source_callsite();
        let loc = sm.lookup_char_pos(cs.lo());
        let f = match &loc.file.name {
            rustc_span::FileName::Real(r) => match r.local_path() {
                Some(pp) => pp.display().to_string(),
                None => format!("{:?}", loc.file.name),
            },
            other => format!("{:?}", other),
        };
        (f, loc.line, sp.from_expansion())
    }

    fn place(&self, j: &mut J, body: &Body<'tcx>, pl: &Place<'tcx>) {
        j.raw("[");
        let _ = write!(j.s, "{}", pl.local.as_usize());
        j.raw(",[");
        let mut first = true;
        for (base, elem) in pl.iter_projections() {
            if !first {
                j.comma();
            }
            first = false;
            let s = match elem {
                ProjectionElem::Deref => "*".to_string(),
                ProjectionElem::Field(f, _) => {
                    let bty = base.ty(body, self.tcx);
                    let mut name = String::new();
                    if let ty::Adt(adt, _) = bty.ty.kind() {
                        let vidx = bty.variant_index.unwrap_or(rustc_abi::FIRST_VARIANT);
                        if vidx.as_usize() < adt.variants().len() {
                            let v = adt.variant(vidx);
                            if f.as_usize() < v.fields.len() {
                                name = v.fields[f].name.to_string();
                            }
                        }
                    }
                    if name.is_empty() {
                        format!("f:{}", f.as_usize())
                    } else {
                        format!("f:{}:{}", f.as_usize(), name)
                    }
                }
                ProjectionElem::Downcast(name, idx) => match name {
                    Some(n) => format!("d:{}:{}", idx.as_usize(), n),
                    None => format!("d:{}", idx.as_usize()),
                },
                ProjectionElem::Index(l) => format!("i:{}", l.as_usize()),
                ProjectionElem::ConstantIndex { offset, from_end, .. } => {
                    format!("ci:{}:{}", offset, from_end)
                }
                ProjectionElem::Subslice { from, to, from_end } => {
                    format!("ss:{}:{}:{}", from, to, from_end)
                }
                ProjectionElem::OpaqueCast(_) => "oc".to_string(),
                ProjectionElem::UnwrapUnsafeBinder(_) => "ub".to_string(),
            };
            j.str(&s);
        }
        j.raw("]]");
    }

    fn callee_info(&self, j: &mut J, owner: LocalDefId, def_id: DefId, args: ty::GenericArgsRef<'tcx>) {
        let tcx = self.tcx;
        j.kv_str("def", &path(tcx, def_id));
        j.comma();
        j.key("gargs");
        j.raw("[");
        for (i, a) in args.iter().enumerate() {
            if i > 0 {
                j.comma();
            }
            j.str(&p(a));
        }
        j.raw("]");
        // the trait the callee belongs to (if a trait method) and its Self type
        if let Some(assoc) = tcx.opt_associated_item(def_id) {
            if let Some(tr) = assoc.trait_container(tcx) {
                j.comma();
                j.kv_str("trait", &path(tcx, tr));
                if !args.is_empty() {
                    if let Some(t) = args[0].as_type() {
                        j.comma();
                        j.kv_str("self_ty", &p(t));
                    }
                }
            } else if let Some(im) = assoc.impl_container(tcx) {
                // inherent impl or trait impl method named directly
                let st = tcx.type_of(im).instantiate_identity().skip_norm_wip();
                j.comma();
                j.kv_str("impl_self", &p(st));
                if let Some(tr) = tcx.impl_opt_trait_ref(im) {
                    j.comma();
                    j.kv_str("impl_trait", &path(tcx, tr.skip_binder().def_id));
                }
            }
        }
        // resolved instance
        let env = TypingEnv::post_analysis(tcx, owner.to_def_id());
        if let Ok(Some(inst)) = Instance::try_resolve(tcx, env, def_id, args) {
            let rd = inst.def_id();
            if rd != def_id {
                j.comma();
                j.kv_str("resolved", &path(tcx, rd));
            }
        }
    }

    fn operand(&self, j: &mut J, body: &Body<'tcx>, owner: LocalDefId, op: &Operand<'tcx>) {
        match op {
            Operand::Copy(pl) => {
                j.raw("{\"k\":\"copy\",\"p\":");
                self.place(j, body, pl);
                j.raw("}");
            }
            Operand::Move(pl) => {
                j.raw("{\"k\":\"move\",\"p\":");
                self.place(j, body, pl);
                j.raw("}");
            }
            Operand::Constant(c) => {
                j.raw("{\"k\":\"const\",");
                let ty = c.const_.ty();
                j.kv_str("ty", &p(ty));
                j.comma();
                j.kv_str("val", &p(&c.const_));
                match ty.kind() {
                    ty::FnDef(d, a) => {
                        j.comma();
                        j.key("fn");
                        j.raw("{");
                        self.callee_info(j, owner, *d, a);
                        j.raw("}");
                    }
                    _ => {}
                }
                if let Const::Val(ConstValue::Scalar(mir::interpret::Scalar::Int(si)), _) = c.const_ {
                    j.comma();
                    j.kv_str("int", &format!("{}", si.to_bits_unchecked()));
                }
                if let Const::Val(ConstValue::Scalar(mir::interpret::Scalar::Ptr(ptr, _)), _) = c.const_ {
                    if let Some(ga) = self.tcx.try_get_global_alloc(ptr.provenance.alloc_id()) {
                        if let mir::interpret::GlobalAlloc::Static(sd) = ga {
                            j.comma();
                            j.kv_str("static", &path(self.tcx, sd));
                        }
                    }
                }
                if let Const::Unevaluated(u, _) = c.const_ {
                    j.comma();
                    j.kv_str("uneval", &path(self.tcx, u.def));
                    if u.promoted.is_none() && u.args.is_empty() {
                        let env = TypingEnv::fully_monomorphized();
                        if let Some(si) = c.const_.try_eval_scalar_int(self.tcx, env) {
                            j.comma();
                            j.kv_str("int", &format!("{}", si.to_bits_unchecked()));
                        }
                    }
                    if let Some(pr) = u.promoted {
                        j.comma();
                        j.kv_num("promoted", pr.as_usize());
                    }
                }
                j.raw("}");
            }
            #[allow(unreachable_patterns)]
            _ => {
                j.raw("{\"k\":\"other\",");
                j.kv_str("text", &pd(op));
                j.raw("}");
            }
        }
    }

    fn adt_variants(&self, j: &mut J, t: Ty<'tcx>) {
        if let ty::Adt(adt, _) = t.kind() {
            j.comma();
            j.kv_str("adt", &path(self.tcx, adt.did()));
            if adt.is_enum() {
                j.comma();
                j.key("variants");
                j.raw("[");
                let mut first = true;
                for (vi, d) in adt.discriminants(self.tcx) {
                    if !first {
                        j.comma();
                    }
                    first = false;
                    j.raw("[");
                    j.str(adt.variant(vi).name.as_str());
                    j.comma();
                    j.str(&format!("{}", d.val));
                    j.raw("]");
                }
                j.raw("]");
            }
        }
    }

    fn rvalue(&self, j: &mut J, body: &Body<'tcx>, owner: LocalDefId, rv: &Rvalue<'tcx>) {
        let tcx = self.tcx;
        match rv {
            Rvalue::Use(op, ..) => {
                j.raw("{\"k\":\"use\",\"op\":");
                self.operand(j, body, owner, op);
                j.raw("}");
            }
            Rvalue::Ref(_, bk, pl) => {
                j.raw("{\"k\":\"ref\",");
                j.kv_bool("mut", matches!(bk, BorrowKind::Mut { .. }));
                j.comma();
                j.key("p");
                self.place(j, body, pl);
                j.raw("}");
            }
            Rvalue::RawPtr(_, pl) => {
                j.raw("{\"k\":\"rawptr\",\"p\":");
                self.place(j, body, pl);
                j.raw("}");
            }
            Rvalue::Discriminant(pl) => {
                j.raw("{\"k\":\"disc\",\"p\":");
                self.place(j, body, pl);
                let t = pl.ty(body, tcx).ty;
                j.comma();
                j.kv_str("ty", &p(t));
                self.adt_variants(j, t);
                j.raw("}");
            }
            Rvalue::BinaryOp(op, ab) => {
                j.raw("{\"k\":\"bin\",");
                j.kv_str("op", &format!("{:?}", op));
                j.comma();
                j.key("a");
                self.operand(j, body, owner, &ab.0);
                j.comma();
                j.key("b");
                self.operand(j, body, owner, &ab.1);
                j.raw("}");
            }
            Rvalue::UnaryOp(op, a) => {
                j.raw("{\"k\":\"un\",");
                j.kv_str("op", &format!("{:?}", op));
                j.comma();
                j.key("a");
                self.operand(j, body, owner, a);
                j.raw("}");
            }
            Rvalue::Cast(kind, op, ty) => {
                j.raw("{\"k\":\"cast\",");
                j.kv_str("kind", &format!("{:?}", kind));
                j.comma();
                j.kv_str("ty", &p(ty));
                j.comma();
                j.key("op");
                self.operand(j, body, owner, op);
                j.raw("}");
            }
            Rvalue::Aggregate(kind, ops) => {
                j.raw("{\"k\":\"agg\",");
                match &**kind {
                    AggregateKind::Adt(did, vidx, _args, _, active) => {
                        let adt = tcx.adt_def(*did);
                        j.kv_str("kind", "adt");
                        j.comma();
                        j.kv_str("adt", &path(tcx, *did));
                        j.comma();
                        let v = adt.variant(*vidx);
                        j.kv_str("variant", v.name.as_str());
                        j.comma();
                        j.kv_num("vidx", vidx.as_usize());
                        j.comma();
                        j.key("fields");
                        j.raw("[");
                        if let Some(a) = active {
                            j.str(v.fields[*a].name.as_str());
                        } else {
                            for (i, f) in v.fields.iter().enumerate() {
                                if i > 0 {
                                    j.comma();
                                }
                                j.str(f.name.as_str());
                            }
                        }
                        j.raw("]");
                    }
                    AggregateKind::Tuple => j.kv_str("kind", "tuple"),
                    AggregateKind::Array(_) => j.kv_str("kind", "array"),
                    AggregateKind::Closure(d, _) => {
                        j.kv_str("kind", "closure");
                        j.comma();
                        j.kv_str("def", &path(tcx, *d));
                    }
                    AggregateKind::Coroutine(d, _) => {
                        j.kv_str("kind", "coroutine");
                        j.comma();
                        j.kv_str("def", &path(tcx, *d));
                    }
                    AggregateKind::CoroutineClosure(d, _) => {
                        j.kv_str("kind", "coroutine_closure");
                        j.comma();
                        j.kv_str("def", &path(tcx, *d));
                    }
                    AggregateKind::RawPtr(..) => j.kv_str("kind", "rawptr"),
                }
                j.comma();
                j.key("ops");
                j.raw("[");
                for (i, o) in ops.iter().enumerate() {
                    if i > 0 {
                        j.comma();
                    }
                    self.operand(j, body, owner, o);
                }
                j.raw("]}");
            }
            other => {
                j.raw("{\"k\":\"other\",");
                j.kv_str("text", &pd(other));
                j.raw("}");
            }
        }
    }

    fn block(&self, j: &mut J, body: &Body<'tcx>, owner: LocalDefId, bb: &BasicBlockData<'tcx>) {
        j.raw("{");
        j.kv_bool("cleanup", bb.is_cleanup);
        j.comma();
        j.key("stmts");
        j.raw("[");
        let mut first = true;
        for st in &bb.statements {
            let (_, line, exp) = self.line(st.source_info.span);
            match &st.kind {
                StatementKind::Assign(b) => {
                    if !first {
                        j.comma();
                    }
                    first = false;
                    j.raw("{\"k\":\"assign\",");
                    j.kv_num("l", line);
                    if exp {
                        j.comma();
                        j.kv_bool("x", true);
                    }
                    j.comma();
                    j.key("lhs");
                    self.place(j, body, &b.0);
                    j.comma();
                    j.key("rv");
                    self.rvalue(j, body, owner, &b.1);
                    j.raw("}");
                }
                StatementKind::SetDiscriminant { place, variant_index } => {
                    if !first {
                        j.comma();
                    }
                    first = false;
                    j.raw("{\"k\":\"setdisc\",");
                    j.kv_num("l", line);
                    j.comma();
                    j.key("p");
                    self.place(j, body, place);
                    j.comma();
                    j.kv_num("vidx", variant_index.as_usize());
                    j.raw("}");
                }
                StatementKind::StorageDead(l) => {
                    if !first {
                        j.comma();
                    }
                    first = false;
                    j.raw("{\"k\":\"dead\",");
                    j.kv_num("local", l.as_usize());
                    j.raw("}");
                }
                StatementKind::StorageLive(l) => {
                    if !first {
                        j.comma();
                    }
                    first = false;
                    j.raw("{\"k\":\"live\",");
                    j.kv_num("local", l.as_usize());
                    j.raw("}");
                }
                _ => {}
            }
        }
        j.raw("],");
        j.key("term");
        let term = bb.terminator();
        let (_, line, exp) = self.line(term.source_info.span);
        j.raw("{");
        j.kv_num("l", line);
        if exp {
            j.comma();
            j.kv_bool("x", true);
        }
        j.comma();
        match &term.kind {
            TerminatorKind::Goto { target } => {
                j.kv_str("k", "goto");
                j.comma();
                j.kv_num("target", target.as_usize());
            }
            TerminatorKind::SwitchInt { discr, targets } => {
                j.kv_str("k", "switch");
                j.comma();
                j.key("discr");
                self.operand(j, body, owner, discr);
                j.comma();
                j.kv_str("dty", &p(discr.ty(body, self.tcx)));
                j.comma();
                j.key("targets");
                j.raw("[");
                let mut f = true;
                for (v, t) in targets.iter() {
                    if !f {
                        j.comma();
                    }
                    f = false;
                    let _ = write!(j.s, "[\"{}\",{}]", v, t.as_usize());
                }
                j.raw("],");
                j.kv_num("otherwise", targets.otherwise().as_usize());
            }
            TerminatorKind::Return => j.kv_str("k", "return"),
            TerminatorKind::Unreachable => j.kv_str("k", "unreachable"),
            TerminatorKind::UnwindResume => j.kv_str("k", "resume"),
            TerminatorKind::UnwindTerminate(_) => j.kv_str("k", "terminate"),
            TerminatorKind::CoroutineDrop => j.kv_str("k", "coroutine_drop"),
            TerminatorKind::Drop { place, target, unwind, .. } => {
                j.kv_str("k", "drop");
                j.comma();
                j.key("p");
                self.place(j, body, place);
                j.comma();
                j.kv_num("target", target.as_usize());
                if let mir::UnwindAction::Cleanup(u) = unwind {
                    j.comma();
                    j.kv_num("unwind", u.as_usize());
                }
            }
            TerminatorKind::TailCall { .. } => j.kv_str("k", "tailcall"),
            TerminatorKind::Call { func, args, destination, target, unwind, .. } => {
                j.kv_str("k", "call");
                j.comma();
                j.key("func");
                self.operand(j, body, owner, func);
                j.comma();
                j.key("args");
                j.raw("[");
                for (i, a) in args.iter().enumerate() {
                    if i > 0 {
                        j.comma();
                    }
                    self.operand(j, body, owner, &a.node);
                }
                j.raw("],");
                j.key("dest");
                self.place(j, body, destination);
                if let Some(t) = target {
                    j.comma();
                    j.kv_num("target", t.as_usize());
                }
                if let mir::UnwindAction::Cleanup(u) = unwind {
                    j.comma();
                    j.kv_num("unwind", u.as_usize());
                }
            }
            TerminatorKind::Assert { cond, expected, msg, target, unwind } => {
                j.kv_str("k", "assert");
                j.comma();
                j.key("cond");
                self.operand(j, body, owner, cond);
                j.comma();
                j.kv_bool("expected", *expected);
                j.comma();
                let kind = match &**msg {
                    mir::AssertKind::BoundsCheck { .. } => "BoundsCheck",
                    mir::AssertKind::Overflow(..) => "Overflow",
                    mir::AssertKind::OverflowNeg(..) => "OverflowNeg",
                    mir::AssertKind::DivisionByZero(..) => "DivisionByZero",
                    mir::AssertKind::RemainderByZero(..) => "RemainderByZero",
                    _ => "Other",
                };
                j.kv_str("akind", kind);
                j.comma();
                j.kv_str("msg", &pd(msg));
                j.comma();
                j.kv_num("target", target.as_usize());
                if let mir::UnwindAction::Cleanup(u) = unwind {
                    j.comma();
                    j.kv_num("unwind", u.as_usize());
                }
            }
            TerminatorKind::Yield { value, resume, resume_arg, drop } => {
                j.kv_str("k", "yield");
                j.comma();
                j.key("value");
                self.operand(j, body, owner, value);
                j.comma();
                j.kv_num("target", resume.as_usize());
                j.comma();
                j.key("resume_arg");
                self.place(j, body, resume_arg);
                if let Some(d) = drop {
                    j.comma();
                    j.kv_num("drop", d.as_usize());
                }
            }
            TerminatorKind::FalseEdge { real_target, .. } => {
                j.kv_str("k", "goto");
                j.comma();
                j.kv_num("target", real_target.as_usize());
                j.comma();
                j.kv_bool("false_edge", true);
            }
            TerminatorKind::FalseUnwind { real_target, .. } => {
                j.kv_str("k", "goto");
                j.comma();
                j.kv_num("target", real_target.as_usize());
                j.comma();
                j.kv_bool("false_unwind", true);
            }
            TerminatorKind::InlineAsm { .. } => j.kv_str("k", "asm"),
        }
        j.raw("}}");
    }

    fn body(&self, j: &mut J, did: LocalDefId) {
        let tcx = self.tcx;
        let kind = tcx.def_kind(did);
        let (steal, promoted_steal) = tcx.mir_promoted(did);
        let promoted_ref = promoted_steal.borrow();
        let body_ref = steal.borrow();
        let body: &Body<'tcx> = &body_ref;
        j.raw("{");
        j.kv_str("id", &path(tcx, did.to_def_id()));
        j.comma();
        let is_cor = tcx.is_coroutine(did.to_def_id());
        let kstr = match kind {
            DefKind::Fn => "fn",
            DefKind::AssocFn => "method",
            DefKind::Closure => {
                if is_cor {
                    "coroutine"
                } else {
                    "closure"
                }
            }
            DefKind::Const { .. } | DefKind::AssocConst { .. } => "const",
            _ => "other",
        };
        j.kv_str("kind", kstr);
        j.comma();
        let parent = tcx.local_parent(did);
        j.kv_str("parent", &path(tcx, parent.to_def_id()));
        j.comma();
        let (file, lo, exp) = self.line(body.span);
        let sm = tcx.sess.source_map();
        let hi = sm.lookup_char_pos(body.span.source_callsite().hi()).line;
        j.kv_str("file", &file);
        j.comma();
        j.kv_num("lo", lo);
        j.comma();
        j.kv_num("hi", hi);
        j.comma();
        j.kv_bool("from_expansion", exp);
        j.comma();
        j.kv_num("arg_count", body.arg_count);
        if matches!(kind, DefKind::Fn | DefKind::AssocFn) {
            j.comma();
            j.kv_str("vis", &format!("{:?}", tcx.visibility(did.to_def_id())));
            j.comma();
            j.kv_bool("is_async", tcx.asyncness(did.to_def_id()).is_async());
            let sig = tcx.fn_sig(did.to_def_id()).instantiate_identity().skip_norm_wip().skip_binder();
            j.comma();
            j.key("inputs");
            j.raw("[");
            for (i, t) in sig.inputs().iter().enumerate() {
                if i > 0 {
                    j.comma();
                }
                j.str(&p(t));
            }
            j.raw("],");
            j.kv_str("output", &p(sig.output()));
            if let Some(assoc) = tcx.opt_associated_item(did.to_def_id()) {
                if let Some(im) = assoc.impl_container(tcx) {
                    let st = tcx.type_of(im).instantiate_identity().skip_norm_wip();
                    j.comma();
                    j.kv_str("impl_self", &p(st));
                    if let Some(tr) = tcx.impl_opt_trait_ref(im) {
                        j.comma();
                        j.kv_str("impl_trait", &path(tcx, tr.skip_binder().def_id));
                    }
                }
                if let Some(tr) = assoc.trait_container(tcx) {
                    j.comma();
                    j.kv_str("in_trait", &path(tcx, tr));
                }
                if let Some(ti) = assoc.trait_item_def_id() {
                    j.comma();
                    j.kv_str("trait_item", &path(tcx, ti));
                }
            }
        }
        // locals
        j.comma();
        j.key("locals");
        j.raw("[");
        for (i, (_, decl)) in body.local_decls.iter_enumerated().enumerate() {
            if i > 0 {
                j.comma();
            }
            j.raw("{");
            j.kv_str("ty", &p(decl.ty));
            j.comma();
            j.kv_bool("mut", decl.mutability.is_mut());
            j.comma();
            j.kv_bool("user", decl.is_user_variable());
            j.raw("}");
        }
        j.raw("],");
        j.key("debug");
        j.raw("[");
        let mut first = true;
        for vdi in &body.var_debug_info {
            if let VarDebugInfoContents::Place(pl) = &vdi.value {
                if !first {
                    j.comma();
                }
                first = false;
                j.raw("{");
                j.kv_str("name", vdi.name.as_str());
                j.comma();
                j.key("p");
                self.place(j, body, pl);
                j.raw("}");
            }
        }
        j.raw("],");
        j.key("blocks");
        j.raw("[");
        for (i, (_, bb)) in body.basic_blocks.iter_enumerated().enumerate() {
            if i > 0 {
                j.comma();
            }
            self.block(j, body, did, bb);
        }
        j.raw("],");
        j.key("promoted");
        j.raw("[");
        for (pi, pb) in promoted_ref.iter().enumerate() {
            if pi > 0 {
                j.comma();
            }
            j.raw("[");
            for (i, (_, bb)) in pb.basic_blocks.iter_enumerated().enumerate() {
                if i > 0 {
                    j.comma();
                }
                self.block(j, pb, did, bb);
            }
            j.raw("]");
        }
        j.raw("]}");
    }

    fn dump(&self) -> String {
        let tcx = self.tcx;
        let mut j = J::new();
        j.raw("{");
        j.kv_str("crate", tcx.crate_name(rustc_hir::def_id::LOCAL_CRATE).as_str());
        j.comma();
        j.kv_str("tag", &std::env::var("RACTOR_FACTS_TAG").unwrap_or_default());
        j.comma();
        j.kv_str("crate_types", &format!("{:?}", tcx.crate_types()));
        j.comma();
        j.key("cfg_test");
        j.raw(if tcx.sess.is_test_crate() { "true" } else { "false" });
        j.comma();
        // bodies
        j.key("fns");
        j.raw("[");
        let mut first = true;
        for did in tcx.hir_body_owners() {
            let kind = tcx.def_kind(did);
            let is_const = matches!(kind, DefKind::Const { .. } | DefKind::AssocConst { .. });
            if !matches!(kind, DefKind::Fn | DefKind::AssocFn | DefKind::Closure) && !is_const {
                continue;
            }
            if is_const {
                // named constants (e.g. tables of statuses) are dumped too, unless const evaluation already consumed their MIR
                let (steal, _) = tcx.mir_promoted(did);
                if steal.is_stolen() {
                    continue;
                }
            }
            if !first {
                j.comma();
            }
            first = false;
            self.body(&mut j, did);
        }
        j.raw("],");
        // adts, impls, statics
        j.key("adts");
        j.raw("[");
        let mut first = true;
        for did in tcx.hir_crate_items(()).definitions() {
            let kind = tcx.def_kind(did);
            if !matches!(kind, DefKind::Struct | DefKind::Enum | DefKind::Union) {
                continue;
            }
            if !first {
                j.comma();
            }
            first = false;
            let adt = tcx.adt_def(did.to_def_id());
            j.raw("{");
            j.kv_str("id", &path(tcx, did.to_def_id()));
            j.comma();
            j.kv_str("kind", &format!("{:?}", kind));
            j.comma();
            j.kv_str("vis", &format!("{:?}", tcx.visibility(did.to_def_id())));
            j.comma();
            let (file, lo, _) = self.line(tcx.def_span(did.to_def_id()));
            j.kv_str("file", &file);
            j.comma();
            j.kv_num("lo", lo);
            j.comma();
            j.key("variants");
            j.raw("[");
            for (vi, v) in adt.variants().iter().enumerate() {
                if vi > 0 {
                    j.comma();
                }
                j.raw("{");
                j.kv_str("name", v.name.as_str());
                j.comma();
                j.key("fields");
                j.raw("[");
                for (fi, f) in v.fields.iter().enumerate() {
                    if fi > 0 {
                        j.comma();
                    }
                    j.raw("{");
                    j.kv_str("name", f.name.as_str());
                    j.comma();
                    let fty = tcx.type_of(f.did).instantiate_identity().skip_norm_wip();
                    j.kv_str("ty", &p(fty));
                    j.comma();
                    j.kv_str("vis", &format!("{:?}", f.vis));
                    j.raw("}");
                }
                j.raw("]}");
            }
            j.raw("]}");
        }
        j.raw("],");
        j.key("impls");
        j.raw("[");
        let mut first = true;
        for did in tcx.hir_crate_items(()).definitions() {
            let kind = tcx.def_kind(did);
            if !matches!(kind, DefKind::Impl { .. }) {
                continue;
            }
            if !first {
                j.comma();
            }
            first = false;
            j.raw("{");
            let st = tcx.type_of(did.to_def_id()).instantiate_identity().skip_norm_wip();
            j.kv_str("self_ty", &p(st));
            if let ty::Adt(adt, _) = st.kind() {
                j.comma();
                j.kv_str("self_adt", &path(tcx, adt.did()));
            }
            if let Some(tr) = tcx.impl_opt_trait_ref(did.to_def_id()) {
                j.comma();
                j.kv_str("trait", &path(tcx, tr.skip_binder().def_id));
            }
            let (file, lo, exp) = self.line(tcx.def_span(did.to_def_id()));
            j.comma();
            j.kv_str("file", &file);
            j.comma();
            j.kv_num("lo", lo);
            j.comma();
            j.kv_bool("from_expansion", exp);
            j.comma();
            j.key("items");
            j.raw("[");
            for (i, it) in tcx.associated_item_def_ids(did.to_def_id()).iter().enumerate() {
                if i > 0 {
                    j.comma();
                }
                j.str(&path(tcx, *it));
            }
            j.raw("]}");
        }
        j.raw("],");
        j.key("statics");
        j.raw("[");
        let mut first = true;
        for did in tcx.hir_crate_items(()).definitions() {
            let kind = tcx.def_kind(did);
            if !matches!(kind, DefKind::Static { .. }) {
                continue;
            }
            if !first {
                j.comma();
            }
            first = false;
            j.raw("{");
            j.kv_str("id", &path(tcx, did.to_def_id()));
            j.comma();
            let st = tcx.type_of(did.to_def_id()).instantiate_identity().skip_norm_wip();
            j.kv_str("ty", &p(st));
            j.raw("}");
        }
        j.raw("],");
        // traits: method lists with defaults
        j.key("traits");
        j.raw("[");
        let mut first = true;
        for did in tcx.hir_crate_items(()).definitions() {
            let kind = tcx.def_kind(did);
            if !matches!(kind, DefKind::Trait) {
                continue;
            }
            if !first {
                j.comma();
            }
            first = false;
            j.raw("{");
            j.kv_str("id", &path(tcx, did.to_def_id()));
            j.comma();
            j.key("items");
            j.raw("[");
            for (i, it) in tcx.associated_item_def_ids(did.to_def_id()).iter().enumerate() {
                if i > 0 {
                    j.comma();
                }
                j.str(&path(tcx, *it));
            }
            j.raw("]}");
        }
        j.raw("]}");
        j.s
    }
}

struct Cb;

impl rustc_driver::Callbacks for Cb {
    fn after_expansion<'tcx>(
        &mut self,
        _compiler: &rustc_interface::interface::Compiler,
        tcx: TyCtxt<'tcx>,
    ) -> Compilation {
        let dir = match std::env::var("RACTOR_FACTS_DIR") {
            Ok(d) => d,
            Err(_) => return Compilation::Continue,
        };
        let name = tcx.crate_name(rustc_hir::def_id::LOCAL_CRATE).to_string();
        if name.starts_with("build_script") {
            return Compilation::Continue;
        }
        let cx = Cx { tcx };
        let out = cx.dump();
        let id = tcx.stable_crate_id(rustc_hir::def_id::LOCAL_CRATE);
        let fname = format!("{}/{}-{:x}.json", dir, name, id.as_u64());
        let tmp = format!("{}.tmp{}", fname, std::process::id());
        std::fs::write(&tmp, out).expect("write facts");
        std::fs::rename(&tmp, &fname).expect("rename facts");
        Compilation::Continue
    }
}

fn main() {
    let mut args: Vec<String> = std::env::args().collect();
    // RUSTC_WORKSPACE_WRAPPER: argv[1] is the path of the real rustc
    if args.len() > 1 && (args[1].ends_with("rustc") || args[1].contains("/rustc")) {
        args.remove(1);
    }
    // proc-macro crates and probes (`-vV`, `--print`) go straight through
    let mut cb = Cb;
    rustc_driver::run_compiler(&args, &mut cb);
}

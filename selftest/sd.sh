#!/bin/bash
# usage: selftest/sd.sh <seed> <prop> [<prop>...]  -- apply a seed to a scratch copy and show the violations
cd /verif; S=/verif/.cache/scratch/dbgs; rm -rf $S; mkdir -p $S; rsync -a --exclude target --exclude .git /repo/ $S/
(cd $S && patch -p1 -s < /verif/seeded/$1/patch.diff) || exit 2
shift
for p in "$@"; do RACTOR_REPO=$S VERIF_EVIDENCE_DIR=/verif/.cache/scratch-evidence ./check $p 2>&1 | grep -v "^\[facts\]" | grep -A2 "^VIOLATION\|^C[0-9][0-9] \[" | grep -v "^VIOLATION\|^--" | cut -c1-420; done

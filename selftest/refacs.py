#!/usr/bin/env python3
"""Run every registered quick check against every behaviour-preserving refactoring in /verif/refactorings/* (applied to a scratch
copy of /repo, never to /repo itself).  All checks must stay silent: anything else is a false alarm of the machinery.
usage: selftest/refacs.py [regex] [--props=C01,C02] [--scratch=name]  (several runs in parallel need distinct scratch names)   (default: all 20 properties)"""
import json, os, re, shutil, subprocess, sys
VERIF = os.path.dirname(os.path.dirname(os.path.abspath(__file__)))
SCR = os.path.join(VERIF, ".cache", "scratch")
args = [a for a in sys.argv[1:] if not a.startswith("--")]
rx = re.compile(args[0]) if args else None
props = ["C%02d" % i for i in range(1, 21)]
for a in sys.argv[1:]:
    if a.startswith("--props"):
        props = a.split("=", 1)[1].split(",")
# by default a refactoring is checked against every property whose mechanism files (properties.jsonl anchors) it touches
PROP_FILES = {}
for l in open(os.path.join(VERIF, "properties.jsonl")):
    d = json.loads(l)
    PROP_FILES[d["id"]] = set(d.get("anchors", {}).get("files", []))
EXTRA = {"ractor/src/actor/actor_properties.rs": ["C01", "C02", "C03", "C05", "C06", "C07", "C08", "C09", "C10", "C11"], "ractor/src/actor.rs": ["C02", "C03", "C06", "C07", "C09", "C10", "C12", "C19"],
         "ractor/src/actor/actor_cell.rs": ["C01", "C02", "C07", "C09", "C11", "C12"], "ractor/src/thread_local/inner.rs": ["C02", "C03", "C06", "C07", "C09", "C19"],
         "ractor/src/factory/factoryimpl.rs": ["C12", "C13", "C14", "C15"], "ractor/src/factory/worker.rs": ["C13", "C14", "C15"], "ractor/src/pg.rs": ["C06", "C08", "C11", "C20"],
         "ractor_cluster/src/node/node_session.rs": ["C17", "C18", "C19", "C20"], "ractor_cluster/src/net/session.rs": ["C19", "C20"], "ractor/src/time.rs": ["C12"], "ractor/src/message.rs": ["C02"], "ractor/src/registry.rs": ["C08", "C10"], "ractor/src/serialization.rs": ["C19"], "ractor/src/actor/supervision.rs": ["C02", "C04", "C05", "C07", "C08"], "ractor_cluster/src/node.rs": ["C17", "C18"], "ractor/src/port/output.rs": ["C16"], "ractor/src/rpc.rs": ["C09"]}
SCRATCH_NAME = "r"
for a in sys.argv[1:]:
    if a.startswith("--scratch="):
        SCRATCH_NAME = a.split("=", 1)[1]
explicit_props = any(a.startswith("--props") for a in sys.argv[1:])
ONLY = None          # --only=C01,C02: of the properties a refactoring is relevant for, run just these (skip it if none is left)
for a in sys.argv[1:]:
    if a.startswith("--only="):
        ONLY = set(a.split("=", 1)[1].split(","))
def props_for(patch):
    files = set(re.findall(r"^\+\+\+ b/(\S+)", open(patch).read(), re.M))
    out = []
    for p_ in props:
        if PROP_FILES.get(p_, set()) & files or any(p_ in EXTRA.get(f, []) for f in files):
            out.append(p_)
    return out or props
bad = 0
n = 0
for name in sorted(os.listdir(os.path.join(VERIF, "refactorings"))):
    sd = os.path.join(VERIF, "refactorings", name)
    if not os.path.exists(os.path.join(sd, "patch.diff")) or (rx and not rx.search(name)):
        continue
    d = os.path.join(SCR, SCRATCH_NAME)
    if os.path.exists(d):
        shutil.rmtree(d)
    os.makedirs(SCR, exist_ok=True)
    subprocess.check_call(["rsync", "-a", "--exclude", "target", "--exclude", ".git", "/repo/", d + "/"])
    pr = subprocess.run(["patch", "-p1", "-s", "-i", os.path.join(sd, "patch.diff")], cwd=d, stdout=subprocess.PIPE, stderr=subprocess.STDOUT, text=True)
    if pr.returncode != 0:
        print("%-10s PATCH-FAILED %s" % (name, pr.stdout[:160].replace("\n", " ")), flush=True)
        continue
    n += 1
    out = []
    todo = (props if explicit_props else props_for(os.path.join(sd, "patch.diff")))
    if ONLY is not None:
        todo = [p_ for p_ in todo if p_ in ONLY]
        if not todo:
            shutil.rmtree(d)
            n -= 1
            continue
    env = dict(os.environ, RACTOR_REPO=d, VERIF_EVIDENCE_DIR=os.path.join(VERIF, ".cache", "scratch-evidence"))
    # build the facts once (first check), then run the remaining checks in parallel
    def one(prop):
        r = subprocess.run([os.path.join(VERIF, "check"), prop], env=env, stdout=subprocess.PIPE, stderr=subprocess.STDOUT, text=True)
        if r.returncode != 0:
            rules = sorted(set(re.findall(r"^   rule=(\S+) instance=(\S+)", r.stdout, re.M)))
            return "%s:%s" % (prop, ",".join("%s[%s]" % x for x in rules) or "exit%d" % r.returncode)
        return None
    from concurrent.futures import ThreadPoolExecutor
    first = one(todo[0])
    with ThreadPoolExecutor(max_workers=10) as ex:
        rest = list(ex.map(one, todo[1:]))
    out = [x for x in [first] + rest if x]
    if out:
        bad += 1
    print("%-10s %s" % (name, "FALSE-ALARM " + "; ".join(out) if out else "silent"), flush=True)
    shutil.rmtree(d)
print("\n%d refactorings, %d with alarms" % (n, bad))

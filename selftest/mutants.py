# (name, edits[(path, old, new)], props to run, expected rules (any), expect fire|silent)
MUTANTS = [
 {"name": "c03-unbiased-select", "props": ["C03"], "rules": ["C03.R1", "C03.R2"],
  "edits": [("ractor/src/concurrency/tokio_primitives.rs", "                biased;\n", "")]},
 {"name": "c03-swap-stop-supervision", "props": ["C03"], "rules": ["C03.R1"],
  "edits": [("ractor/src/actor/actor_cell.rs",
   """                stop = &mut self.stop_rx => {
                    stop.map(ActorPortMessage::Stop).map_err(|_| MessagingErr::ChannelClosed)
                }
                supervision = self.supervisor_rx.recv() => {
                    supervision.map(ActorPortMessage::Supervision).ok_or(MessagingErr::ChannelClosed)
                }
                message = self.message_rx.recv() => {""",
   """                supervision = self.supervisor_rx.recv() => {
                    supervision.map(ActorPortMessage::Supervision).ok_or(MessagingErr::ChannelClosed)
                }
                stop = &mut self.stop_rx => {
                    stop.map(ActorPortMessage::Stop).map_err(|_| MessagingErr::ChannelClosed)
                }
                message = self.message_rx.recv() => {""")]},
 {"name": "c03-post-stop-not-raced", "props": ["C03"], "rules": ["C03.R3"],
  "edits": [("ractor/src/actor.rs",
   """            match ports
                .run_with_signal(Box::pin(Self::do_post_stop(
                    myself_clone.clone(),
                    handler,
                    exit_state,
                )))
                .await
            {""",
   """            match Ok::<_, Signal>(Self::do_post_stop(
                    myself_clone.clone(),
                    handler,
                    exit_state,
                )
                .await)
            {""")]},
 {"name": "c03-kill-during-handle-treated-as-stop", "props": ["C03"], "rules": ["C03.R4"],
  "edits": [("ractor/src/actor.rs",
   """                    let future = Self::handle_message(myself.clone(), state, handler, msg);
                    match ports.run_with_signal(future).await {
                        Ok(Ok(())) => Ok(ActorLoopResult::ok()),
                        Ok(Err(internal_err)) => Err(internal_err),
                        Err(signal) => Ok(ActorLoopResult::signal(Self::handle_signal(""",
   """                    let future = Self::handle_message(myself.clone(), state, handler, msg);
                    match ports.run_with_signal(future).await {
                        Ok(Ok(())) => Ok(ActorLoopResult::ok()),
                        Ok(Err(internal_err)) => Err(internal_err),
                        Err(signal) => Ok(ActorLoopResult::stop(Self::handle_signal(""")]},
 {"name": "silent-rename-run-with-signal", "props": ["C03"], "expect": "silent",
  "edits": [("ractor/src/actor/actor_cell.rs", "pub(crate) async fn run_with_signal<T>(", "pub(crate) async fn run_with_signal<T>(\n        // renamed nothing, added comment\n")]},
 {"name": "c19-revert-f1-fix-thread-local-decode", "props": ["C19"], "rules": ["C19.R5"],
  "edits": [("ractor/src/thread_local/inner.rs",
   """        let typed_msg = if msg.serialized_msg.is_some() {
            match std::panic::catch_unwind(AssertUnwindSafe(|| TActor::Msg::from_boxed(msg))) {
                Ok(Ok(message)) => message,
                Ok(Err(_)) => {
                    tracing::debug!(
                        "Dropping serialized message that actor {:?} could not decode",
                        myself.get_id()
                    );
                    return Ok(());
                }
                Err(_) => {
                    tracing::debug!(
                        "Dropping serialized message whose decoder panicked for actor {:?}",
                        myself.get_id()
                    );
                    return Ok(());
                }
            }
        } else {
            TActor::Msg::from_boxed(msg)?
        };

        #[cfg(not(feature = "cluster"))]
        let typed_msg = TActor::Msg::from_boxed(msg)?;
""",
   """        let typed_msg = TActor::Msg::from_boxed(msg)?;

        #[cfg(not(feature = "cluster"))]
        let typed_msg = TActor::Msg::from_boxed(msg)?;
""")]},
 {"name": "c19-derive-index-instead-of-get", "props": ["C19"], "rules": ["C19.R4"],
  "edits": [("ractor_cluster_derive/src/codegen.rs",
   """            let __data_bytes = __args
                .get(__len_end..__data_end)
                .ok_or(ractor::message::BoxedDowncastErr)?
                .to_vec();""",
   """            let __data_bytes = __args[__len_end..__data_end].to_vec();""")]},
 {"name": "c19-derive-no-catch-unwind", "props": ["C19"], "rules": ["C19.R4"],
  "edits": [("ractor_cluster_derive/src/codegen.rs",
   """            let __t_result = ::std::panic::catch_unwind(::std::panic::AssertUnwindSafe(|| {
                <#target_type as ractor::BytesConvertable>::from_bytes(__data_bytes)
            }))
                .map_err(|_| ractor::message::BoxedDowncastErr)?;""",
   """            let __t_result = <#target_type as ractor::BytesConvertable>::from_bytes(__data_bytes);""")]},
 {"name": "c19-derive-trailing-bytes-accepted", "props": ["C19"], "rules": ["C19.R4"],
  "edits": [("ractor_cluster_derive/src/codegen.rs",
   """                let mut __ptr = 0usize;
                #(#unpacked;)*
                if __ptr == __args.len() {
                    Ok(#construct)""",
   """                let mut __ptr = 0usize;
                #(#unpacked;)*
                if __ptr <= __args.len() {
                    Ok(#construct)""")]},
]

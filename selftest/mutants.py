# (name, edits[(path, old, new)], props to run, expected rules (any), expect fire|silent)
MUTANTS = [
 {"name": "c03-unbiased-select", "props": ["C03"], "rules": ["C03.R1", "C03.R2"],
  "edits": [("ractor/src/concurrency/tokio_primitives.rs", "                biased;\n", "")]},
 {"name": "c03-swap-stop-supervision", "props": ["C03"], "rules": ["C03.R1"],
  "edits": [("ractor/src/actor/actor_cell.rs",
   """                stop = &mut self.stop_rx => {
                    stop.map(ActorPortMessage::Stop).map_err(|_| MessagingErr::ChannelClosed)
                }
                supervision = self.supervisor_rx.recv() => {
                    supervision.map(ActorPortMessage::Supervision).ok_or(MessagingErr::ChannelClosed)
                }
                message = self.message_rx.recv() => {""",
   """                supervision = self.supervisor_rx.recv() => {
                    supervision.map(ActorPortMessage::Supervision).ok_or(MessagingErr::ChannelClosed)
                }
                stop = &mut self.stop_rx => {
                    stop.map(ActorPortMessage::Stop).map_err(|_| MessagingErr::ChannelClosed)
                }
                message = self.message_rx.recv() => {""")]},
 {"name": "c03-post-stop-not-raced", "props": ["C03"], "rules": ["C03.R3"],
  "edits": [("ractor/src/actor.rs",
   """            match ports
                .run_with_signal(Box::pin(Self::do_post_stop(
                    myself_clone.clone(),
                    handler,
                    exit_state,
                )))
                .await
            {""",
   """            match Ok::<_, Signal>(Self::do_post_stop(
                    myself_clone.clone(),
                    handler,
                    exit_state,
                )
                .await)
            {""")]},
 {"name": "c03-kill-during-handle-treated-as-stop", "props": ["C03"], "rules": ["C03.R4"],
  "edits": [("ractor/src/actor.rs",
   """                    let future = Self::handle_message(myself.clone(), state, handler, msg);
                    match ports.run_with_signal(future).await {
                        Ok(Ok(())) => Ok(ActorLoopResult::ok()),
                        Ok(Err(internal_err)) => Err(internal_err),
                        Err(signal) => Ok(ActorLoopResult::signal(Self::handle_signal(""",
   """                    let future = Self::handle_message(myself.clone(), state, handler, msg);
                    match ports.run_with_signal(future).await {
                        Ok(Ok(())) => Ok(ActorLoopResult::ok()),
                        Ok(Err(internal_err)) => Err(internal_err),
                        Err(signal) => Ok(ActorLoopResult::stop(Self::handle_signal(""")]},
 {"name": "silent-rename-run-with-signal", "props": ["C03"], "expect": "silent",
  "edits": [("ractor/src/actor/actor_cell.rs", "pub(crate) async fn run_with_signal<T>(", "pub(crate) async fn run_with_signal<T>(\n        // renamed nothing, added comment\n")]},
 {"name": "c19-revert-f1-fix-thread-local-decode", "props": ["C19"], "rules": ["C19.R5"],
  "edits": [("ractor/src/thread_local/inner.rs",
   """        let typed_msg = if msg.serialized_msg.is_some() {
            match std::panic::catch_unwind(AssertUnwindSafe(|| TActor::Msg::from_boxed(msg))) {
                Ok(Ok(message)) => message,
                Ok(Err(_)) => {
                    tracing::debug!(
                        "Dropping serialized message that actor {:?} could not decode",
                        myself.get_id()
                    );
                    return Ok(());
                }
                Err(_) => {
                    tracing::debug!(
                        "Dropping serialized message whose decoder panicked for actor {:?}",
                        myself.get_id()
                    );
                    return Ok(());
                }
            }
        } else {
            TActor::Msg::from_boxed(msg)?
        };

        #[cfg(not(feature = "cluster"))]
        let typed_msg = TActor::Msg::from_boxed(msg)?;
""",
   """        let typed_msg = TActor::Msg::from_boxed(msg)?;

        #[cfg(not(feature = "cluster"))]
        let typed_msg = TActor::Msg::from_boxed(msg)?;
""")]},
 {"name": "c19-derive-index-instead-of-get", "props": ["C19"], "rules": ["C19.R4"],
  "edits": [("ractor_cluster_derive/src/codegen.rs",
   """            let __data_bytes = __args
                .get(__len_end..__data_end)
                .ok_or(ractor::message::BoxedDowncastErr)?
                .to_vec();""",
   """            let __data_bytes = __args[__len_end..__data_end].to_vec();""")]},
 {"name": "c19-derive-no-catch-unwind", "props": ["C19"], "rules": ["C19.R4"],
  "edits": [("ractor_cluster_derive/src/codegen.rs",
   """            let __t_result = ::std::panic::catch_unwind(::std::panic::AssertUnwindSafe(|| {
                <#target_type as ractor::BytesConvertable>::from_bytes(__data_bytes)
            }))
                .map_err(|_| ractor::message::BoxedDowncastErr)?;""",
   """            let __t_result = <#target_type as ractor::BytesConvertable>::from_bytes(__data_bytes);""")]},
 {"name": "c19-derive-trailing-bytes-accepted", "props": ["C19"], "rules": ["C19.R4"],
  "edits": [("ractor_cluster_derive/src/codegen.rs",
   """                let mut __ptr = 0usize;
                #(#unpacked;)*
                if __ptr == __args.len() {
                    Ok(#construct)""",
   """                let mut __ptr = 0usize;
                #(#unpacked;)*
                if __ptr <= __args.len() {
                    Ok(#construct)""")]},
 # ---------------- behaviour-preserving variants: every check must stay silent ----------------
 {"name": "silent-add-tracing-in-cleanup", "props": ["C04", "C05", "C06", "C08"], "expect": "silent",
  "edits": [("ractor/src/actor.rs", "        self.actor.set_status(ActorStatus::Stopping);\n        self.actor.terminate();",
             "        tracing::trace!(\"cleanup of {:?}\", self.actor.get_id());\n        self.actor.set_status(ActorStatus::Stopping);\n        self.actor.terminate();")]},
 {"name": "silent-match-instead-of-if-let-in-cleanup", "props": ["C04", "C05", "C08"], "expect": "silent",
  "edits": [("ractor/src/actor.rs", "        if let Some(event) = event {\n            self.actor.notify_supervisor(event);\n        }",
             "        match event {\n            Some(event) => self.actor.notify_supervisor(event),\n            None => {}\n        }")]},
 {"name": "silent-reorder-independent-stmts-in-start", "props": ["C01", "C04", "C05", "C08"], "expect": "silent",
  "edits": [("ractor/src/actor.rs", "        lifecycle.mark_running();\n\n        // Generate the ActorRef which will be returned\n        let myself_ret = actor_ref.clone();",
             "        // Generate the ActorRef which will be returned\n        let myself_ret = actor_ref.clone();\n        lifecycle.mark_running();")]},
 {"name": "silent-status-gate-as-match", "props": ["C02", "C07"], "expect": "silent",
  "edits": [("ractor/src/actor/actor_properties.rs", "        let status = self.get_status();\n        if status >= ActorStatus::Draining {\n            // if currently draining, stopping or stopped: reject messages directly.\n            return Err(MessagingErr::SendErr(message));\n        }",
             "        if self.get_status() >= ActorStatus::Draining {\n            return Err(MessagingErr::SendErr(message));\n        }")]},
 {"name": "silent-wait-let-else", "props": ["C06"], "expect": "silent",
  "edits": [("ractor/src/actor/actor_properties.rs", "        let notified = self.wait_handler.notified();\n        if self.get_status() != ActorStatus::Stopped {\n            notified.await;\n        }",
             "        let notified = self.wait_handler.notified();\n        if self.get_status() == ActorStatus::Stopped {\n            return;\n        }\n        notified.await;")]},
 {"name": "silent-box-post-stop-future-twice", "props": ["C01", "C03", "C04"], "expect": "silent",
  "edits": [("ractor/src/actor.rs", "                .run_with_signal(Box::pin(Self::do_post_stop(\n                    myself_clone.clone(),\n                    handler,\n                    exit_state,\n                )))",
             "                .run_with_signal(Box::pin(Box::pin(Self::do_post_stop(\n                    myself_clone.clone(),\n                    handler,\n                    exit_state,\n                ))))")]},
 {"name": "silent-link-early-returns-merged", "props": ["C05", "C04"], "expect": "silent",
  "edits": [("ractor/src/actor/supervision.rs", "        if child.get_status() >= super::actor_cell::ActorStatus::Stopping\n            || supervisor.get_status() >= super::actor_cell::ActorStatus::Draining\n        {\n            return false;\n        }",
             "        if child.get_status() >= super::actor_cell::ActorStatus::Stopping {\n            return false;\n        }\n        if supervisor.get_status() >= super::actor_cell::ActorStatus::Draining {\n            return false;\n        }")]},
 {"name": "silent-elect-sessions-extra-any", "props": ["C18"], "expect": "silent",
  "edits": [("ractor_cluster/src/node.rs", "    let has_server = candidates.iter().any(|candidate| candidate.is_server);",
             "    let has_server = candidates.iter().filter(|candidate| candidate.is_server).count() > 0;")]},
 {"name": "silent-dispatch-else-if-to-match", "props": ["C13", "C15"], "expect": "silent",
  "edits": [("ractor/src/factory/factoryimpl.rs", "        let is_discardable = self.queue.is_job_discardable(&job.key);\n        let limit_and_mode = self.discard_settings.get_limit_and_mode();\n\n        match limit_and_mode {",
             "        let is_discardable = self.queue.is_job_discardable(&job.key);\n\n        match self.discard_settings.get_limit_and_mode() {")]},
 {"name": "silent-handle-node-gate-positive-form", "props": ["C17", "C20"], "expect": "silent",
  "edits": [("ractor_cluster/src/node/node_session.rs", "        if !state.auth.is_ok() {\n            tracing::warn!(\"Inter-node message received on unauthenticated NodeSession\");\n            return;\n        }\n\n        if let Some(msg) = message.msg {\n            match msg {\n                node_protocol::node_message::Msg::Cast(cast_args) => {",
             "        let authenticated = state.auth.is_ok();\n        if !authenticated {\n            tracing::warn!(\"Inter-node message received on unauthenticated NodeSession\");\n            return;\n        }\n\n        if let Some(msg) = message.msg {\n            match msg {\n                node_protocol::node_message::Msg::Cast(cast_args) => {")]},
 {"name": "silent-read-n-bytes-named-remaining", "props": ["C19"], "expect": "silent",
  "edits": [("ractor_cluster/src/net/session.rs", "        let read_len = (len - buf.len()).min(chunk.len());",
             "        let remaining = len - buf.len();\n        let read_len = remaining.min(chunk.len());")]},
 {"name": "silent-send-interval-loop-form", "props": ["C12"], "expect": "silent",
  "edits": [("ractor/src/time.rs", "        while actor.get_status() < crate::ActorStatus::Draining {\n            timer.tick().await;\n            // if we receive an error trying to send, the channel is closed and we should stop trying\n            // actor died\n            if actor.send_message::<TMessage>(msg()).is_err() {\n                break;\n            }\n        }",
             "        loop {\n            if !(actor.get_status() < crate::ActorStatus::Draining) {\n                break;\n            }\n            timer.tick().await;\n            if actor.send_message::<TMessage>(msg()).is_err() {\n                return;\n            }\n        }")]},
 {"name": "silent-rename-sink-fn", "props": ["C01", "C03", "C04"], "expect": "silent",
  "edits": [("ractor/src/actor/actor_cell.rs", "run_with_signal", "race_against_kill", "all"), ("ractor/src/actor.rs", "run_with_signal", "race_against_kill", "all"), ("ractor/src/thread_local/inner.rs", "run_with_signal", "race_against_kill", "all")]},
 {"name": "silent-rename-listen-fn", "props": ["C01", "C03", "C07"], "expect": "silent",
  "edits": [("ractor/src/actor/actor_cell.rs", "listen_in_priority", "next_port_message", "all"), ("ractor/src/actor.rs", "listen_in_priority", "next_port_message", "all"), ("ractor/src/thread_local/inner.rs", "listen_in_priority", "next_port_message", "all")]},
 {"name": "silent-rename-guard-type-and-cleanup", "props": ["C04", "C05", "C06", "C08"], "expect": "silent",
  "edits": [("ractor/src/actor.rs", "ActorLifecycleGuard", "ExitGuard", "all"), ("ractor/src/thread_local/inner.rs", "ActorLifecycleGuard", "ExitGuard", "all"),
            ("ractor/src/actor.rs", "fn cleanup(&mut self", "fn run_exit(&mut self"), ("ractor/src/actor.rs", "self.cleanup(", "self.run_exit(", "all")]},
 {"name": "silent-rename-armed-flag", "props": ["C04", "C05"], "expect": "silent",
  "edits": [("ractor/src/actor.rs", "armed", "live", "all")]},
 {"name": "silent-extract-unlink-helper", "props": ["C04", "C05", "C08"], "expect": "silent",
  "edits": [("ractor/src/actor.rs", "        if let Some(supervisor) = self.actor.try_get_supervisor() {\n            self.actor.unlink(supervisor);\n        }\n\n        self.actor.set_status(ActorStatus::Stopped);",
             "        self.detach_from_supervisor();\n\n        self.actor.set_status(ActorStatus::Stopped);"),
            ("ractor/src/actor.rs", "    fn cleanup(&mut self, event: Option<SupervisionEvent>) {", "    fn detach_from_supervisor(&mut self) {\n        if let Some(supervisor) = self.actor.try_get_supervisor() {\n            self.actor.unlink(supervisor);\n        }\n    }\n\n    fn cleanup(&mut self, event: Option<SupervisionEvent>) {")]},
 {"name": "silent-rename-admission-internals", "props": ["C02", "C07"], "expect": "silent",
  "edits": [("ractor/src/actor/actor_properties.rs", "try_admit_message", "admit", "all"), ("ractor/src/actor/actor_properties.rs", "send_drain_marker", "emit_marker", "all"),
            ("ractor/src/actor/actor_properties.rs", "MessageAdmission", "Ticket", "all"), ("ractor/src/actor/actor_properties.rs", "message_admission", "gate_word", "all"),
            ("ractor/src/thread_local/inner.rs", "message_admission", "gate_word", "all")]},
 {"name": "silent-rename-worker-internals", "props": ["C13", "C14", "C15"], "expect": "silent",
  "edits": [("ractor/src/factory/worker.rs", "curr_jobs", "in_flight", "all")]},
 {"name": "c09-await-before-checking-send", "props": ["C09"], "rules": ["C09.R8"],
  "edits": [("ractor/src/rpc.rs", "        sent?;\n        Ok(if let Some(duration) = timeout_option {", "        let __r = if let Some(duration) = timeout_option {"),
            ("ractor/src/rpc.rs", "                Err(_send_err) => CallResult::SenderError,\n            }\n        })\n    }\n}", "                Err(_send_err) => CallResult::SenderError,\n            }\n        };\n        sent?;\n        Ok(__r)\n    }\n}")]},
 {"name": "silent-asyncstd-config-does-not-build", "props": ["C03"], "expect": "silent",
  "edits": [("ractor/src/concurrency/async_std_primitives.rs", "pub fn interval(dur: Duration) -> Interval {", "pub fn interval(dur: Duration) -> Interval { let _x: u8 = \"not a number\";")]},
 {"name": "silent-status-gates-equivalent-forms", "props": ["C05", "C07", "C02", "C06", "C10"], "expect": "silent",
  "edits": [("ractor/src/actor/supervision.rs", "        if child.get_status() >= super::actor_cell::ActorStatus::Stopping\n            || supervisor.get_status() >= super::actor_cell::ActorStatus::Draining",
             "        if child.get_status() > super::actor_cell::ActorStatus::Draining\n            || !(supervisor.get_status() < super::actor_cell::ActorStatus::Draining)"),
            ("ractor/src/actor/actor_properties.rs", "        if status >= ActorStatus::Draining {\n            // if currently draining", "        if status > ActorStatus::Upgrading {\n            // if currently draining"),
            ("ractor/src/actor/actor_cell.rs", "        if status >= ActorStatus::Stopping && previous_status < ActorStatus::Stopping {", "        if status > ActorStatus::Draining && previous_status <= ActorStatus::Draining {"),
            ("ractor/src/actor/actor_cell.rs", "            if actor.get_status() < ActorStatus::Stopped {", "            if actor.get_status() <= ActorStatus::Stopping {")]},
 {"name": "c05-revert-f3-terminate-skips-draining", "props": ["C05"], "rules": ["C05.R6"],
  "edits": [("ractor/src/actor/actor_cell.rs", "            if actor.get_status() < ActorStatus::Stopped {", "            if actor.get_status() <= ActorStatus::Upgrading {")]},
 {"name": "c05-revert-f7-terminate-skips-stopping", "props": ["C05"], "rules": ["C05.R6"],
  "edits": [("ractor/src/actor/actor_cell.rs", "            if actor.get_status() < ActorStatus::Stopped {", "            if actor.get_status() <= ActorStatus::Draining {")]},
 {"name": "c04-revert-f5-killed-reports-state", "props": ["C04"], "rules": ["C04.R6"],
  "edits": [("ractor/src/actor.rs", "        if was_killed {\n            return Err(ActorErr::Cancelled);\n        }\n\n        // we didn't exit in error mode, call `post_stop`\n        {", "        if !was_killed {")]},
 {"name": "c04-revert-f6-post_start-called-outside-caught-future", "props": ["C04"], "rules": ["C04.R1"],
  "edits": [("ractor/src/actor.rs", "        let future = async move { handler.post_start(myself, state).await };", "        let future = handler.post_start(myself, state);")]},
 {"name": "c07-revert-f4-start-refuses-drained-cell", "props": ["C07"], "rules": ["C07.R8"],
  "edits": [("ractor/src/actor.rs", "            ActorStatus::Unstarted | ActorStatus::Draining\n        ) {", "            ActorStatus::Unstarted\n        ) {")]},
 {"name": "c07-revert-f4-link-refuses-draining-child", "props": ["C07"], "rules": ["C07.R8"],
  "edits": [("ractor/src/actor/supervision.rs", "        if child.get_status() >= super::actor_cell::ActorStatus::Stopping", "        if child.get_status() >= super::actor_cell::ActorStatus::Draining")]},
 {"name": "c10-revert-f2-proxy-unregisters-name", "props": ["C10"], "rules": ["C10.R6"],
  "edits": [("ractor/src/actor/actor_cell.rs", "            if self.get_id().is_local() {\n                if let Some(name) = self.get_name() {", "            if true {\n                if let Some(name) = self.get_name() {")]},
 {"name": "c05-link-admits-draining-supervisor", "props": ["C05"], "rules": ["C05.R4"],
  "edits": [("ractor/src/actor/supervision.rs", "            || supervisor.get_status() >= super::actor_cell::ActorStatus::Draining", "            || supervisor.get_status() >= super::actor_cell::ActorStatus::Stopping")]},
 {"name": "c07-send-gate-admits-draining", "props": ["C07"], "rules": ["C07.R5"],
  "edits": [("ractor/src/actor/actor_properties.rs", "        if status >= ActorStatus::Draining {\n            // if currently draining", "        if status >= ActorStatus::Stopping {\n            // if currently draining")]},
 {"name": "c11-local-members-not-filtered", "props": ["C11"], "rules": ["C11.R9"],
  "edits": [("ractor/src/pg.rs", "            .values()\n            .filter(|a| a.get_id().is_local())\n            .cloned()", "            .values()\n            .cloned()")]},
 {"name": "c11-members-capped", "props": ["C11"], "rules": ["C11.R9"],
  "edits": [("ractor/src/pg.rs", "        gs.value().members.values().cloned().collect::<Vec<_>>()", "        gs.value().members.values().take(1024).cloned().collect::<Vec<_>>()")]},
 {"name": "c11-members-wrong-key", "props": ["C11"], "rules": ["C11.R9"],
  "edits": [("ractor/src/pg.rs", "pub fn get_members(group_name: &GroupName) -> Vec<ActorCell> {\n    get_scoped_members(&DEFAULT_SCOPE.to_owned(), group_name)", "pub fn get_members(group_name: &GroupName) -> Vec<ActorCell> {\n    get_scoped_members(group_name, group_name)")]},
 {"name": "c12-revert-f9-interval-needs-started-target", "props": ["C12"], "rules": ["C12.R3"],
  "edits": [("ractor/src/time.rs", "        while actor.get_status() < crate::ActorStatus::Draining {", "        while crate::ACTIVE_STATES.contains(&actor.get_status()) {")]},
 {"name": "c13-revert-f10-worker-queues-not-discarded", "props": ["C13"], "rules": ["C13.R9"],
  "edits": [("ractor/src/factory/factoryimpl.rs", "                for mut msg in worker_props.take_queued_jobs() {\n                    handler.discard(DiscardReason::Shutdown, &mut msg);\n                }", "                let _ = worker_props.take_queued_jobs();")]},
 {"name": "c20-revert-f13-proxy-stop-propagated", "props": ["C20"], "rules": ["C20.R8"],
  "edits": [("ractor_cluster/src/node/node_session.rs", "                    let _ = actor\n                        .stop_and_wait(Some(\"remote_exit\".to_string()), None)\n                        .await;", "                    actor\n                        .stop_and_wait(Some(\"remote_exit\".to_string()), None)\n                        .await?;")]},
 {"name": "c14-revert-f14-sticky-scan-in-flight-only", "props": ["C14"], "rules": ["C14.R3"],
  "edits": [("ractor/src/factory/routing.rs", "            .find(|(_, worker)| worker.has_pending_key(&job.key))", "            .find(|(_, worker)| worker.is_processing_key(&job.key))")]},
 {"name": "silent-interval-gate-as-table-of-live-states", "props": ["C12"], "expect": "silent",
  "edits": [("ractor/src/time.rs", "        while actor.get_status() < crate::ActorStatus::Draining {", "        while actor.get_status() <= crate::ActorStatus::Upgrading {")]},
 {"name": "silent-round3-equivalent-spellings", "props": ["C03", "C13", "C15", "C20", "C12", "C18", "C10"], "expect": "silent",
  "edits": [("ractor/src/factory/factoryimpl.rs", "            for worker_props in state.pool.values_mut() {\n                for mut msg in worker_props.take_queued_jobs() {", "            for (_wid, worker_props) in state.pool.iter_mut() {\n                for mut msg in worker_props.take_queued_jobs() {"),
            ("ractor/src/factory/factoryimpl.rs", "                        let removed = existing_worker.remove();\n                        self.worker_by_actor.remove(&removed.actor.get_id());", "                        let removed = existing_worker.remove();\n                        let gone = removed.actor.get_id();\n                        self.worker_by_actor.remove(&gone);"),
            ("ractor/src/factory/factoryimpl.rs", "        self.cancel_dead_mans_check();\n        if let Some(dmd) = &self.dead_mans_switch {\n            self.dead_mans_check = Some(", "        if let Some(old) = self.dead_mans_check.take() {\n            old.abort();\n        }\n        if let Some(dmd) = &self.dead_mans_switch {\n            self.dead_mans_check = Some("),
            ("ractor_cluster/src/node/node_session.rs", "                    let _ = actor\n                        .stop_and_wait(Some(\"remote_exit\".to_string()), None)\n                        .await;", "                    if let Err(err) = actor\n                        .stop_and_wait(Some(\"remote_exit\".to_string()), None)\n                        .await\n                    {\n                        tracing::trace!(\"proxy already gone: {err}\");\n                    }"),
            ("ractor_cluster/src/node.rs", "    if candidates.len() > 1 && candidates.iter().all(|candidate| candidate.is_server) {", "    if candidates.len() > 1 && !candidates.iter().any(|candidate| !candidate.is_server) {"),
            ("ractor/src/registry.rs", "    reg.get(name.as_ref()).map(|v| v.value().clone())", "    reg.get(name.as_ref())\n        .map(|v| v.value().clone())\n        .filter(|actor| actor.get_status() < crate::ActorStatus::Stopping)"),
            ("ractor/src/actor/actor_cell.rs", "            Ok(self.inner.send_signal_and_wait(Signal::Kill).await?)", "            self.kill();\n            self.inner.wait().await;\n            Ok(())")]},
]

#!/usr/bin/env python3
"""Self-test of the checkers: apply one small source edit to a scratch copy of /repo (never /repo itself),
run the named check against the copy and assert that it fires (mutants) or stays silent (refactorings).
usage: selftest/run.py [name-regex]    (scratch copies live under /verif/.cache/scratch and are removed)"""
import json, os, re, shutil, subprocess, sys
HERE = os.path.dirname(os.path.abspath(__file__))
VERIF = os.path.dirname(HERE)
SCR = os.path.join(VERIF, ".cache", "scratch")
sys.path.insert(0, HERE)
from mutants import MUTANTS

def main():
    rx = re.compile(sys.argv[1]) if len(sys.argv) > 1 else None
    res = []
    for mu in MUTANTS:
        if rx and not rx.search(mu["name"]):
            continue
        d = os.path.join(SCR, "m")
        if os.path.exists(d):
            shutil.rmtree(d)
        os.makedirs(SCR, exist_ok=True)
        subprocess.check_call(["rsync", "-a", "--exclude", "target", "--exclude", ".git", "/repo/", d + "/"])
        ok_apply = True
        for ed in mu["edits"]:
            path, old, new = ed[0], ed[1], ed[2]
            p = os.path.join(d, path)
            s = open(p).read()
            if len(ed) > 3 and ed[3] == "all":
                if s.count(old) < 1:
                    print("!! %s: pattern absent in %s" % (mu["name"], path))
                    ok_apply = False
                    break
                open(p, "w").write(s.replace(old, new))
                continue
            if s.count(old) != 1:
                print("!! %s: pattern occurs %d times in %s" % (mu["name"], s.count(old), path))
                ok_apply = False
                break
            open(p, "w").write(s.replace(old, new))
        if not ok_apply:
            res.append((mu["name"], "APPLY-FAIL"))
            continue
        env = dict(os.environ, RACTOR_REPO=d, VERIF_EVIDENCE_DIR=os.path.join(VERIF, ".cache", "scratch-evidence"))
        outcome = []
        for prop in mu["props"]:
            pr = subprocess.run([os.path.join(VERIF, "check"), prop], env=env, stdout=subprocess.PIPE, stderr=subprocess.STDOUT, text=True)
            fired = [l for l in pr.stdout.splitlines() if l.startswith("   rule=")]
            rules = sorted(set(re.search(r"rule=(\S+)", l).group(1) for l in fired))
            want = mu.get("expect", "fire")
            if "build-failure" in pr.stdout:
                outcome.append("%s:BUILD-FAILURE" % prop)
            elif want == "fire":
                good = pr.returncode == 1 and (not mu.get("rules") or any(r in rules for r in mu["rules"]))
                outcome.append("%s:%s %s" % (prop, "FIRED" if good else ("MISSED" if pr.returncode == 0 else "FIRED-OTHER"), rules))
                if not good or os.environ.get("V"):
                    print(pr.stdout[-3000:])
            else:
                outcome.append("%s:%s %s" % (prop, "SILENT" if pr.returncode == 0 else "FALSE-ALARM", rules))
                if pr.returncode != 0:
                    print(pr.stdout[-3000:])
        res.append((mu["name"], "; ".join(outcome)))
        print("%-40s %s" % (mu["name"], "; ".join(outcome)), flush=True)
        shutil.rmtree(d)
    # restore evidence for the real tree is the caller's business (run ./check all afterwards)
    bad = [r for r in res if any(x in r[1] for x in ("MISSED", "FALSE-ALARM", "APPLY-FAIL", "BUILD-FAILURE", "FIRED-OTHER"))]
    print("\n%d mutants/variants, %d unexpected" % (len(res), len(bad)))
    return 1 if bad else 0
sys.exit(main())

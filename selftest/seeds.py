#!/usr/bin/env python3
"""Run registered checks against every seeded change in /verif/seeded/* (applied to a scratch copy of /repo,
never to /repo itself).  usage: selftest/seeds.py [seed-regex] [--props C01,C02]  (default: the seed's own property)"""
import json, os, re, shutil, subprocess, sys
VERIF = os.path.dirname(os.path.dirname(os.path.abspath(__file__)))
SCR = os.path.join(VERIF, ".cache", "scratch")
args = [a for a in sys.argv[1:] if not a.startswith("--")]
rx = re.compile(args[0]) if args else None
props_override = None
for a in sys.argv[1:]:
    if a.startswith("--props"):
        props_override = a.split("=", 1)[1].split(",")
SCRATCH_NAME = "s"
for a in sys.argv[1:]:
    if a.startswith("--scratch="):
        SCRATCH_NAME = a.split("=", 1)[1]
res = []
for name in sorted(os.listdir(os.path.join(VERIF, "seeded"))):
    sd = os.path.join(VERIF, "seeded", name)
    if not os.path.exists(os.path.join(sd, "patch.diff")) or (rx and not rx.search(name)):
        continue
    meta = json.load(open(os.path.join(sd, "meta.json")))
    d = os.path.join(SCR, SCRATCH_NAME)
    if os.path.exists(d):
        shutil.rmtree(d)
    os.makedirs(SCR, exist_ok=True)
    subprocess.check_call(["rsync", "-a", "--exclude", "target", "--exclude", ".git", "/repo/", d + "/"])
    pr = subprocess.run(["patch", "-p1", "-s", "-i", os.path.join(sd, "patch.diff")], cwd=d, stdout=subprocess.PIPE, stderr=subprocess.STDOUT, text=True)
    if pr.returncode != 0:
        print("%-10s PATCH-FAILED %s" % (name, pr.stdout[:200]))
        continue
    props = props_override or [meta["property"]] + meta.get("also_check", [])
    out = []
    for prop in props:
        if not os.path.exists(os.path.join(VERIF, "rules", prop.lower() + ".py")):
            out.append("%s:NO-CHECK" % prop)
            continue
        r = subprocess.run([os.path.join(VERIF, "check", ), prop], env=dict(os.environ, RACTOR_REPO=d, VERIF_EVIDENCE_DIR=os.path.join(VERIF, ".cache", "scratch-evidence")), stdout=subprocess.PIPE, stderr=subprocess.STDOUT, text=True)
        rules = sorted(set(re.findall(r"^   rule=(\S+)", r.stdout, re.M)))
        if "build-failure" in r.stdout:
            out.append("%s:BUILD-FAILURE" % prop)
        else:
            out.append("%s:%s%s" % (prop, "CAUGHT" if r.returncode == 1 else "missed", (" " + ",".join(rules)) if rules else ""))
        if os.environ.get("V"):
            print(r.stdout[-2500:])
    print("%-10s %s" % (name, "; ".join(out)), flush=True)
    res.append((name, out))
    shutil.rmtree(d)

#!/usr/bin/env python3
"""Seeds on top of refactorings: for every seeded (property-breaking) change, find a behaviour-preserving refactoring of the
same property on top of which the seed's patch still applies and builds, and check that the property's check still reports the
combination.  This is the test of the fallback views (DESIGN §14): a violation written in another spelling must not be
masked by a rule's weaker form for that spelling.
usage: selftest/combos.py [seed-regex] [--scratch=name]"""
import json, os, re, shutil, subprocess, sys
VERIF = os.path.dirname(os.path.dirname(os.path.abspath(__file__)))
SCR = os.path.join(VERIF, ".cache", "scratch")
args = [a for a in sys.argv[1:] if not a.startswith("--")]
rx = re.compile(args[0]) if args else None
name_ = "cb"
for a in sys.argv[1:]:
    if a.startswith("--scratch="):
        name_ = a.split("=", 1)[1]
refs = sorted(os.listdir(os.path.join(VERIF, "refactorings")))
n = caught = 0
for seed in sorted(os.listdir(os.path.join(VERIF, "seeded"))):
    sd = os.path.join(VERIF, "seeded", seed)
    if not os.path.exists(os.path.join(sd, "patch.diff")) or (rx and not rx.search(seed)):
        continue
    prop = json.load(open(os.path.join(sd, "meta.json")))["property"]
    cands = [r for r in refs if r.startswith(prop + "-") and os.path.exists(os.path.join(VERIF, "refactorings", r, "patch.diff"))]
    cands.sort(key=lambda r: (0 if "-h" in r or "-g" in r else 1, r))
    done = False
    for r in cands:
        d = os.path.join(SCR, name_)
        shutil.rmtree(d, ignore_errors=True)
        os.makedirs(SCR, exist_ok=True)
        subprocess.check_call(["rsync", "-a", "--exclude", "target", "--exclude", ".git", "/repo/", d + "/"])
        p1 = subprocess.run(["patch", "-p1", "-s", "-F0", "-i", os.path.join(VERIF, "refactorings", r, "patch.diff")], cwd=d, stdout=subprocess.PIPE, stderr=subprocess.STDOUT, text=True)
        if p1.returncode != 0:
            continue
        p2 = subprocess.run(["patch", "-p1", "-s", "-F0", "-i", os.path.join(sd, "patch.diff")], cwd=d, stdout=subprocess.PIPE, stderr=subprocess.STDOUT, text=True)
        if p2.returncode != 0:
            continue
        env = dict(os.environ, RACTOR_REPO=d, VERIF_EVIDENCE_DIR=os.path.join(VERIF, ".cache", "scratch-evidence", name_), VERIF_NO_SELFTEST="1")
        c = subprocess.run([os.path.join(VERIF, "check"), prop], env=env, stdout=subprocess.PIPE, stderr=subprocess.STDOUT, text=True)
        if "build-failure" in c.stdout:
            continue
        rules = sorted(set(re.findall(r"^   rule=(\S+)", c.stdout, re.M)))
        n += 1
        ok = c.returncode == 1 and bool(rules)
        caught += ok
        print("%-10s on %-10s %s %s" % (seed, r, "CAUGHT" if ok else "MISSED", ",".join(rules)[:120]), flush=True)
        done = True
        break
    if not done:
        print("%-10s no refactoring of %s combines with it" % (seed, prop), flush=True)
    shutil.rmtree(os.path.join(SCR, name_), ignore_errors=True)
print("\n%d combinations, %d caught, %d missed" % (n, caught, n - caught))

//! Positive controls: tiny *violating* programs for rules whose expected count on /repo is zero.  They are compiled by the
//! driver on every run and the corresponding detector must report them, so a detector that silently stopped matching is noticed.
#![allow(dead_code)]

pub struct ActorLifecycleGuard(u8);
impl Drop for ActorLifecycleGuard {
    fn drop(&mut self) {}
}

/// P1 (C05.R2 / C08.R1): leaking a guard-typed value.
pub fn p1_forget_guard(g: ActorLifecycleGuard) {
    std::mem::forget(g);
}

/// P2 (C03.R1 / C03.R2): a *fair* (unbiased) select over a signal receiver and a future.
pub async fn p2_fair_select(mut rx: tokio::sync::oneshot::Receiver<u8>, fut: impl std::future::Future<Output = u8>) -> u8 {
    tokio::select! {
        a = &mut rx => a.unwrap_or(0),
        b = fut => b,
    }
}

/// P2b: the biased twin (must be classified as biased).
pub async fn p2_biased_select(mut rx: tokio::sync::oneshot::Receiver<u8>, fut: impl std::future::Future<Output = u8>) -> u8 {
    tokio::select! {
        biased;
        a = &mut rx => a.unwrap_or(0),
        b = fut => b,
    }
}

#[derive(Clone, Copy)]
pub struct Candidate {
    pub id: u64,
    pub is_server: bool,
}

/// P3 (C18.R1): an election that depends on the examination order (first match / positional access).
pub fn p3_positional_election(candidates: Vec<Candidate>) -> Vec<u64> {
    if candidates.is_empty() {
        return vec![];
    }
    let first = candidates[0];
    let other = candidates.iter().find(|c| c.is_server).copied().unwrap_or(first);
    vec![other.id]
}

/// P4 (C19.R2): a payload reader that sizes its buffer by the peer-declared length.
pub async fn p4_alloc_by_wire_length<R: tokio::io::AsyncRead + Unpin>(stream: &mut R, len: usize) -> std::io::Result<Vec<u8>> {
    use tokio::io::AsyncReadExt;
    let mut buf = Vec::with_capacity(len);
    buf.resize(len, 0u8);
    stream.read_exact(&mut buf).await?;
    Ok(buf)
}

/// P5 (C01.R1 / C03.R3 / C04.R1, K14): a callback future handed to a task root without the race and without containment.
pub fn p5_spawn_unraced_callback<A: ractor::Actor>(actor: A, myself: ractor::ActorRef<A::Msg>, msg: A::Msg, mut state: A::State)
where
    A::State: Send,
{
    tokio::spawn(async move {
        let _ = actor.handle(myself, msg, &mut state).await;
    });
}

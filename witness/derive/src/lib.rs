//! Witness catalogue for C19.R4: every shape of enum the `RactorClusterMessage` derive supports, so that
//! the *generated* serialize / deserialize bodies of /repo's current derive are compiled and analysed as MIR.
//! (unit / tuple / struct variants; reply port first / middle / last; zero / one / many data fields; generics)
#![allow(dead_code)]
use ractor::RpcReplyPort;
use ractor_cluster::RactorClusterMessage;

#[derive(RactorClusterMessage)]
pub enum Tuples {
    Unit,
    One(u32),
    Many(u8, String, Vec<u64>),
    #[rpc]
    CallLast(u16, RpcReplyPort<String>),
    #[rpc]
    CallFirst(RpcReplyPort<u64>, i32, i64),
    #[rpc]
    CallMiddle(bool, RpcReplyPort<Vec<u8>>, char),
    #[rpc]
    CallOnly(RpcReplyPort<u8>),
}

#[derive(RactorClusterMessage)]
pub enum Structs {
    Empty {},
    Named { a: u64, b: String },
    #[rpc]
    NamedCall { key: u32, reply: RpcReplyPort<u32> },
    #[rpc]
    NamedCallPortFirst { reply: RpcReplyPort<f64>, x: f32, y: Vec<i16> },
}

#[derive(RactorClusterMessage)]
pub enum Generic<T: ractor::BytesConvertable + Send + Sync + 'static> {
    Value(T),
    #[rpc]
    Get(RpcReplyPort<T>),
}

/// Witness catalogue for C09.R10: the exported RPC macros are `macro_rules!` and therefore exist as code only where a
/// *user* expands them; these functions expand every arm of /repo's current macros so their MIR can be analysed.
pub mod rpc_macros {
    use ractor::concurrency::Duration;
    use ractor::{ActorRef, RactorErr, RpcReplyPort};

    pub enum M {
        A(RpcReplyPort<u32>),
        B(u8, RpcReplyPort<u32>),
        C(u8, u16, RpcReplyPort<u32>),
        D(u32),
    }
    impl ractor::Message for M {}

    pub async fn call_t_arm0(actor: &ActorRef<M>, timeout_ms: u64) -> Result<u32, RactorErr<M>> {
        ractor::call_t!(actor, M::A, timeout_ms)
    }
    pub async fn call_t_arm1(actor: &ActorRef<M>, timeout_ms: u64, a: u8) -> Result<u32, RactorErr<M>> {
        ractor::call_t!(actor, M::B, timeout_ms, a)
    }
    pub async fn call_t_arm2(actor: &ActorRef<M>, timeout_ms: u64, a: u8, b: u16) -> Result<u32, RactorErr<M>> {
        ractor::call_t!(actor, M::C, timeout_ms, a, b)
    }
    pub async fn call_arm0(actor: &ActorRef<M>) -> Result<u32, RactorErr<M>> {
        ractor::call!(actor, M::A)
    }
    pub async fn call_arm1(actor: &ActorRef<M>, a: u8) -> Result<u32, RactorErr<M>> {
        ractor::call!(actor, M::B, a)
    }
    pub async fn forward_timed(actor: &ActorRef<M>, fwd: ActorRef<M>, timeout: Duration) -> Result<(), RactorErr<M>> {
        ractor::forward!(actor, M::A, fwd, M::D, timeout)
    }
    pub async fn forward_untimed(actor: &ActorRef<M>, fwd: ActorRef<M>) -> Result<(), RactorErr<M>> {
        ractor::forward!(actor, M::A, fwd, M::D)
    }
}

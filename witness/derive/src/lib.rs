//! Witness catalogue for C19.R4: every shape of enum the `RactorClusterMessage` derive supports, so that
//! the *generated* serialize / deserialize bodies of /repo's current derive are compiled and analysed as MIR.
//! (unit / tuple / struct variants; reply port first / middle / last; zero / one / many data fields; generics)
#![allow(dead_code)]
use ractor::RpcReplyPort;
use ractor_cluster::RactorClusterMessage;

#[derive(RactorClusterMessage)]
pub enum Tuples {
    Unit,
    One(u32),
    Many(u8, String, Vec<u64>),
    #[rpc]
    CallLast(u16, RpcReplyPort<String>),
    #[rpc]
    CallFirst(RpcReplyPort<u64>, i32, i64),
    #[rpc]
    CallMiddle(bool, RpcReplyPort<Vec<u8>>, char),
    #[rpc]
    CallOnly(RpcReplyPort<u8>),
}

#[derive(RactorClusterMessage)]
pub enum Structs {
    Empty {},
    Named { a: u64, b: String },
    #[rpc]
    NamedCall { key: u32, reply: RpcReplyPort<u32> },
    #[rpc]
    NamedCallPortFirst { reply: RpcReplyPort<f64>, x: f32, y: Vec<i16> },
}

#[derive(RactorClusterMessage)]
pub enum Generic<T: ractor::BytesConvertable + Send + Sync + 'static> {
    Value(T),
    #[rpc]
    Get(RpcReplyPort<T>),
}

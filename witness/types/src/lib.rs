//! E-TYPE: compile-fail witnesses, written as an external user of `ractor` would write them.  Each violating program
//! is paired with a compiling twin that differs only in the offending line, so a witness cannot "pass" because of a
//! wrong path.  Run with `cargo +nightly test --doc` (the error codes are checked on nightly only).

/// W1 (C09): a reply port can be used at most once.
/// ```compile_fail,E0382
/// let (tx, _rx) = ractor::concurrency::oneshot::<u32>();
/// let port: ractor::RpcReplyPort<u32> = tx.into();
/// let _ = port.send(1);
/// let _ = port.send(2); // second use of a moved value
/// ```
/// twin:
/// ```no_run
/// let (tx, _rx) = ractor::concurrency::oneshot::<u32>();
/// let port: ractor::RpcReplyPort<u32> = tx.into();
/// let _ = port.send(1);
/// ```
pub struct W1ReplyOnce;

/// W2 (C09): a reply port cannot be cloned.
/// ```compile_fail,E0599
/// let (tx, _rx) = ractor::concurrency::oneshot::<u32>();
/// let port: ractor::RpcReplyPort<u32> = tx.into();
/// let _copy = port.clone();
/// ```
/// twin:
/// ```no_run
/// let (tx, _rx) = ractor::concurrency::oneshot::<u32>();
/// let port: ractor::RpcReplyPort<u32> = tx.into();
/// let _same = port;
/// ```
pub struct W2ReplyNoClone;

/// W3 (C02): a typed reference rejects a message of another type at compile time.
/// ```compile_fail,E0308
/// fn f(a: ractor::ActorRef<u8>) { let _ = a.send_message(1u16); }
/// ```
/// twin:
/// ```no_run
/// fn f(a: ractor::ActorRef<u8>) { let _ = a.send_message(1u8); }
/// ```
pub struct W3TypedSend;

/// W4 (C13): a factory job cannot be cloned.
/// ```compile_fail,E0599
/// fn f(j: ractor::factory::Job<u8, u8>) { let _k = j.clone(); }
/// ```
/// twin:
/// ```no_run
/// fn f(j: ractor::factory::Job<u8, u8>) { let _k = j; }
/// ```
pub struct W4JobNoClone;

/// W5 (C05/C08): the lifecycle guard and the port set cannot be named (hence not forgotten) by users.
/// ```compile_fail,E0603
/// type G = ractor::actor::ActorLifecycleGuard;
/// ```
/// ```compile_fail,E0603
/// type P = ractor::actor::actor_cell::ActorPortSet;
/// ```
/// twin:
/// ```no_run
/// type C = ractor::actor::actor_cell::ActorCell;
/// ```
pub struct W5GuardPrivate;

/// W6 (C13): a job moved into a dispatch message cannot be used again.
/// ```compile_fail,E0382
/// fn f(j: ractor::factory::Job<u8, u8>) {
///     let _m = ractor::factory::WorkerMessage::Dispatch(j);
///     let _again = j;
/// }
/// ```
/// twin:
/// ```no_run
/// fn f(j: ractor::factory::Job<u8, u8>) {
///     let _m = ractor::factory::WorkerMessage::Dispatch(j);
/// }
/// ```
pub struct W6JobMoved;

/// W7 (C02): the message is consumed by the send (enqueue XOR hand-back).
/// ```compile_fail,E0382
/// fn f(a: ractor::ActorRef<String>, m: String) { let _ = a.send_message(m); let _n = m.len(); }
/// ```
/// twin:
/// ```no_run
/// fn f(a: ractor::ActorRef<String>, m: String) { let n = m.len(); let _ = a.send_message(m); let _ = n; }
/// ```
pub struct W7SendConsumes;

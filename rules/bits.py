"""Small symbolic reader for integer expressions in MIR (atomic word protocols, limits, arithmetic)."""
from .facts import op_place, const_int, Site, Call


def sym(fn, op, depth=0):
    """symbolic tree of an integer-valued operand:
       ('c', int) | ('v', local) (multiply-defined / parameter / call result) | ('call', Call)
       ('bin', op, a, b) | ('un', op, a) | ('field', tree, name)"""
    if depth > 12:
        return ("?",)
    if op.get("k") == "const":
        v = const_int(op)
        if v is not None:
            return ("c", v)
        if op.get("val") in ("true", "false"):
            return ("c", 1 if op["val"] == "true" else 0)
        return ("k", op.get("val"))
    p = op_place(op)
    if p is None:
        return ("?",)
    l, proj = p
    defs = [d for d in fn.defs().get(l, []) if d[1] in ("assign", "call", "resume")]
    if 1 <= l <= fn.arg_count and not defs:
        return ("arg", l, tuple(proj))
    if len(defs) != 1:
        # `(x as Some).0` where x is built as Some(v) on one path and as None on the others: only the Some definition can be
        # the one that is read through the downcast
        if len(proj) >= 2 and proj[0].startswith("d:") and proj[1].startswith("f:") and len(proj[0].split(":")) > 2 and defs and all(
                d[1] == "assign" and d[2]["rv"]["k"] == "agg" and d[2]["rv"].get("kind") == "adt" and d[2]["rv"].get("variant") is not None for d in defs):
            vname = proj[0].split(":")[2]
            cands = [d for d in defs if d[2]["rv"].get("variant") == vname]
            if len(cands) == 1:
                idx = int(proj[1].split(":")[1])
                ops = cands[0][2]["rv"].get("ops", [])
                if idx < len(ops):
                    inner = ops[idx]
                    ip = op_place(inner)
                    if ip is not None and len(proj) > 2:
                        inner = {"k": inner["k"], "p": [ip[0], list(ip[1]) + list(proj[2:])]}
                    return sym(fn, inner, depth + 1)
        return ("v", l, tuple(proj))
    site, kind, s = defs[0]
    if kind == "call":
        return ("call", Call(fn, site.bb, s), tuple(proj))
    if kind == "resume":
        return ("v", l, tuple(proj))
    rv = s["rv"]
    k = rv["k"]
    if k in ("use", "cast"):
        inner = rv["op"]
        ip = op_place(inner)
        if ip is not None and proj:
            inner = {"k": inner["k"], "p": [ip[0], list(ip[1]) + list(proj)]}
        return sym(fn, inner, depth + 1)
    if k == "bin":
        opn = rv["op"].replace("WithOverflow", "").replace("Unchecked", "")
        a, b = sym(fn, rv["a"], depth + 1), sym(fn, rv["b"], depth + 1)
        if a[0] == "c" and b[0] == "c":
            try:
                v = {"Add": a[1] + b[1], "Sub": a[1] - b[1], "Mul": a[1] * b[1], "BitAnd": a[1] & b[1], "BitOr": a[1] | b[1],
                     "BitXor": a[1] ^ b[1], "Shl": a[1] << b[1] if b[1] < 256 else None, "Shr": a[1] >> b[1] if b[1] < 256 else None}.get(opn)
            except Exception:
                v = None
            if v is not None and v >= 0:
                return ("c", v)
        return ("bin", opn, a, b)
    if k == "un":
        return ("un", rv["op"], sym(fn, rv["a"], depth + 1))
    if k == "ref":
        return ("ref", tuple(rv["p"][1]), rv["p"][0])
    if k == "agg":
        return ("agg", rv.get("adt") or rv.get("kind"), rv.get("variant"), tuple(sym(fn, o, depth + 1) for o in rv["ops"]))
    if k == "disc":
        return ("disc", rv["p"][0], tuple(rv["p"][1]))
    return ("?",)


def show(t):
    if not isinstance(t, tuple):
        return str(t)
    k = t[0]
    if k == "c":
        return hex(t[1]) if t[1] > 4096 else str(t[1])
    if k == "v":
        return "_%d" % t[1]
    if k == "arg":
        return "arg%d" % t[1]
    if k == "call":
        return "%s()" % t[1].name.split("::")[-1]
    if k == "bin":
        return "(%s %s %s)" % (show(t[2]), t[1], show(t[3]))
    if k == "un":
        return "%s(%s)" % (t[1], show(t[2]))
    return str(t)


def is_masked(t, src_pred, mask):
    """t == BitAnd(src, mask) (either operand order)"""
    if t[0] != "bin" or t[1] != "BitAnd":
        return False
    a, b = t[2], t[3]
    return (src_pred(a) and b == ("c", mask)) or (src_pred(b) and a == ("c", mask))


def cond_of_switch(fn, site):
    t = fn.term(site.bb)
    return sym(fn, t["discr"])


def bool_edges(fn, site):
    """(true_edge, false_edge) block edges of a bool switch"""
    return fn.edge_of(site, "true"), fn.edge_of(site, "false")


def _flag_implications(fn, local, want, depth):
    """comparisons whose truth value is implied by `local == want` (a bool local with several definitions):
    list of (comparison tree, bool).  Sound only in this direction: the other definitions are constants != want."""
    if depth > 3:
        return []
    from .model import _flag_defs
    loc, fneg, ds = _flag_defs(fn, local)
    if fneg:
        want = not want
    comp, consts = [], set()
    for dsite, kind, st in ds:
        if kind == "assign" and st["rv"]["k"] == "use" and st["rv"]["op"].get("k") == "const" and st["rv"]["op"].get("val") in ("true", "false"):
            consts.add(st["rv"]["op"]["val"] == "true")
        else:
            comp.append((dsite, kind, st))
    if len(comp) != 1 or want in consts or comp[0][1] != "assign":
        return []
    rv = comp[0][2]["rv"]
    vneg = False
    if rv["k"] == "use":
        x = sym(fn, rv["op"])
        inner_op = rv["op"]
    elif rv["k"] == "un" and rv["op"] == "Not":
        x = sym(fn, rv["a"])
        inner_op = rv["a"]
        vneg = True
    elif rv["k"] == "bin":
        x = ("bin", rv["op"], sym(fn, rv["a"]), sym(fn, rv["b"]))
        inner_op = None
    else:
        return []
    while x[0] == "un" and x[1] == "Not":
        vneg = not vneg
        x = x[2]
    val = want != vneg            # the stored value equals `want`; the comparison (or inner flag) equals want XOR vneg
    if x[0] == "bin" and x[1] in ("Eq", "Ne", "Lt", "Le", "Gt", "Ge"):
        return [(x, val)]
    if x[0] == "v" and not x[2]:
        return _flag_implications(fn, x[1], val, depth + 1)
    return []


def cmp_tests(fn):
    """all bool switches whose condition is a comparison: list of dict(site, op, a, b, true_edge, false_edge)"""
    out = []
    for site, t in fn.switches():
        if t["dty"] != "bool":
            continue
        c = cond_of_switch(fn, site)
        neg = False
        while c[0] == "un" and c[1] == "Not":
            neg = not neg
            c = c[2]
        if c[0] == "bin" and c[1] in ("Eq", "Ne", "Lt", "Le", "Gt", "Ge"):
            te, fe = bool_edges(fn, site)
            if neg:
                te, fe = fe, te
            out.append({"site": site, "op": c[1], "a": c[2], "b": c[3], "true_edge": te, "false_edge": fe, "line": t.get("l")})
        elif c[0] == "v" and not c[2]:
            # a recorded decision: `let due = p && q && (x == 0); if due {..}`, `!(a || len < limit)` returned by a helper, ..
            # On the edge on which the flag has a given value, every comparison that this value *implies* is known
            # (the last conjunct of `&&` on the true edge, the last disjunct of `||` on the false edge, through negations and
            # through flags of flags).
            te0, fe0 = bool_edges(fn, site)
            if neg:
                te0, fe0 = fe0, te0
            for want, edge in ((True, te0), (False, fe0)):
                if not edge:
                    continue
                for (cc, val) in _flag_implications(fn, c[1], want, 0):
                    out.append({"site": site, "op": cc[1], "a": cc[2], "b": cc[3], "true_edge": edge if val else None, "false_edge": None if val else edge, "line": t.get("l"), "via_flag": True})
    return out


def nonzero_edges(fn, is_x):
    """block edges on which the value selected by `is_x(sym tree)` is known to be non-zero (unsigned):
    `x == 0` false, `x != 0` true, `x > 0` true, `0 < x` true, `x >= 1` true, `x < 1` false, `x <= 0` false, `0 >= x` false"""
    out = []
    Z, ONE = ("c", 0), ("c", 1)
    for t in cmp_tests(fn):
        a, b, op = t["a"], t["b"], t["op"]
        te, fe = t["true_edge"], t["false_edge"]
        e = None
        if is_x(a):
            if op == "Eq" and b == Z: e = fe
            elif op == "Ne" and b == Z: e = te
            elif op == "Gt" and b == Z: e = te
            elif op == "Ge" and b == ONE: e = te
            elif op == "Lt" and b == ONE: e = fe
            elif op == "Le" and b == Z: e = fe
        elif is_x(b):
            if op == "Eq" and a == Z: e = fe
            elif op == "Ne" and a == Z: e = te
            elif op == "Lt" and a == Z: e = te
            elif op == "Le" and a == ONE: e = te
            elif op == "Gt" and a == ONE: e = fe
            elif op == "Ge" and a == Z: e = fe
        if e:
            out.append(e)
    return out


def zero_edges(fn, is_x):
    """block edges on which the (unsigned) value selected by `is_x` is known to be zero: the complements of nonzero_edges"""
    out = []
    Z, ONE = ("c", 0), ("c", 1)
    for t in cmp_tests(fn):
        a, b, op = t["a"], t["b"], t["op"]
        te, fe = t["true_edge"], t["false_edge"]
        e = None
        if is_x(a):
            if op == "Eq" and b == Z: e = te
            elif op == "Ne" and b == Z: e = fe
            elif op == "Gt" and b == Z: e = fe
            elif op == "Ge" and b == ONE: e = fe
            elif op == "Lt" and b == ONE: e = te
            elif op == "Le" and b == Z: e = te
        elif is_x(b):
            if op == "Eq" and a == Z: e = te
            elif op == "Ne" and a == Z: e = fe
            elif op == "Lt" and a == Z: e = fe
            elif op == "Le" and a == ONE: e = fe
            elif op == "Gt" and a == ONE: e = te
            elif op == "Ge" and a == Z: e = te
        if e:
            out.append(e)
    return out

"""Fact generation: run the driver over /repo's current working tree, per build configuration."""
import fcntl, glob, hashlib, json, os, shutil, subprocess, sys, time

VERIF = os.path.dirname(os.path.dirname(os.path.abspath(__file__)))
REPO = os.environ.get("RACTOR_REPO", "/repo")
CACHE = os.path.join(VERIF, ".cache")
DRIVER = os.path.join(VERIF, "driver", "target", "release", "ractor-facts")

# tag -> (manifest dir relative to REPO or absolute, cargo args)
TAGS = {
    "dflt": (REPO, ["-p", "ractor"]),
    "clus": (REPO, ["-p", "ractor", "-F", "cluster"]),
    "rc": (REPO, ["-p", "ractor_cluster"]),
    "atr": (REPO, ["-p", "ractor", "-F", "async-trait"]),
    "astd": (REPO, ["-p", "ractor", "--no-default-features", "-F", "async-std,message_span_propogation"]),
    "opv2": (REPO, ["-p", "ractor", "-F", "output-port-v2"]),
    "mon": (REPO, ["-p", "ractor", "-F", "monitors"]),
    "rcatr": (REPO, ["-p", "ractor_cluster", "-F", "async-trait"]),
    "ws": (REPO, ["--workspace"]),
    "gen": (os.path.join(VERIF, "witness", "derive"), []),
    "pos": (os.path.join(VERIF, "witness", "positive"), []),
}

WORKSPACE_PKGS = ["ractor", "ractor_cluster", "ractor_cluster_derive", "ractor_macros", "ractor_playground",
                  "ractor_cluster_integration_tests", "ractor_example_entry_proc", "xtask"]


def nightly_sysroot():
    return subprocess.check_output(["rustc", "+nightly", "--print", "sysroot"], text=True).strip()


def repo_hash():
    h = hashlib.sha256()
    files = []
    for root, dirs, fs in os.walk(REPO):
        dirs[:] = [d for d in dirs if d not in ("target", ".git", "SEED")]
        for f in fs:
            if f.endswith((".rs", ".toml", ".proto", ".lock")):
                files.append(os.path.join(root, f))
    # harness crates that are compiled against the repo
    for extra in ("witness",):
        for root, dirs, fs in os.walk(os.path.join(VERIF, extra)):
            dirs[:] = [d for d in dirs if d not in ("target",)]
            for f in fs:
                if f.endswith((".rs", ".toml.in")):
                    files.append(os.path.join(root, f))
    files.append(os.path.join(VERIF, "driver", "src", "main.rs"))
    for f in sorted(files):
        h.update(f.encode())
        try:
            with open(f, "rb") as fh:
                h.update(fh.read())
        except OSError:
            h.update(b"<unreadable>")
    return h.hexdigest()[:20]


class BuildFailure(Exception):
    def __init__(self, tag, log):
        self.tag = tag
        self.log = log


def facts_for(tag, rhash=None, verbose=True):
    """Return list of fact files for `tag` on the current tree, generating them if needed."""
    rhash = rhash or repo_hash()
    outdir = os.path.join(CACHE, "facts", rhash, tag)
    okfile = os.path.join(outdir, ".ok")
    os.makedirs(os.path.join(CACHE, "locks"), exist_ok=True)
    lock = open(os.path.join(CACHE, "locks", "facts.lock"), "w")
    fcntl.flock(lock, fcntl.LOCK_EX)
    try:
        if os.path.exists(okfile):
            files = sorted(glob.glob(os.path.join(outdir, "*.json")))
            if files:
                try:
                    os.utime(os.path.dirname(outdir), None)
                except OSError:
                    pass
                return files
        if not os.path.exists(DRIVER):
            raise BuildFailure(tag, "driver binary missing: run setup_cmd (cargo build --release in /verif/driver)")
        if os.path.isdir(outdir):
            shutil.rmtree(outdir)
        os.makedirs(outdir)
        mdir, cargs = TAGS[tag]
        tdir = os.path.join(CACHE, "target")
        os.makedirs(tdir, exist_ok=True)
        env = dict(os.environ)
        env["LD_LIBRARY_PATH"] = nightly_sysroot() + "/lib" + (":" + env["LD_LIBRARY_PATH"] if env.get("LD_LIBRARY_PATH") else "")
        env["RUSTFLAGS"] = "-Zmir-opt-level=0 -Awarnings"
        env["RUSTC_WORKSPACE_WRAPPER"] = DRIVER
        env["RACTOR_FACTS_DIR"] = outdir
        env["RACTOR_FACTS_TAG"] = tag
        env["CARGO_TARGET_DIR"] = tdir
        env["CARGO_NET_OFFLINE"] = "true"
        env.pop("RUSTC_WRAPPER", None)
        # harness crates path-depending on /repo need the repository's lock file
        if not mdir.startswith(REPO):
            tin = os.path.join(mdir, "Cargo.toml.in")
            if os.path.exists(tin):
                with open(tin) as fh:
                    txt = fh.read().replace("{REPO}", REPO)
                with open(os.path.join(mdir, "Cargo.toml"), "w") as fh:
                    fh.write(txt)
            shutil.copyfile(os.path.join(REPO, "Cargo.lock"), os.path.join(mdir, "Cargo.lock"))
        # cargo's freshness cache would skip the wrapper: drop the workspace members' artefacts
        if mdir.startswith(REPO):
            pk = WORKSPACE_PKGS
        else:
            pk = ["ractor_verif_witness_derive"] if tag == "gen" else (["ractor_verif_positive"] if tag == "pos" else [])
        clean = ["cargo", "+nightly", "clean", "--offline", "--manifest-path", os.path.join(mdir, "Cargo.toml")]
        for p in pk:
            clean += ["-p", p]
        cp = subprocess.run(clean, env=env, stdout=subprocess.PIPE, stderr=subprocess.STDOUT, text=True)
        if cp.returncode != 0:
            # fall back to one package at a time (unknown names are ignored)
            for p in pk:
                subprocess.run(["cargo", "+nightly", "clean", "--offline", "--manifest-path", os.path.join(mdir, "Cargo.toml"), "-p", p], env=env, stdout=subprocess.PIPE, stderr=subprocess.STDOUT)
        cmd = ["cargo", "+nightly", "check", "--offline", "--manifest-path", os.path.join(mdir, "Cargo.toml")] + cargs
        if mdir.startswith(REPO):
            cmd.insert(4, "--locked")
        t0 = time.time()
        pr = subprocess.run(cmd, env=env, stdout=subprocess.PIPE, stderr=subprocess.STDOUT, text=True)
        if verbose:
            print("[facts] tag=%s built in %.1fs (exit %d)" % (tag, time.time() - t0, pr.returncode), file=sys.stderr)
        if pr.returncode != 0:
            raise BuildFailure(tag, pr.stdout[-6000:])
        files = sorted(glob.glob(os.path.join(outdir, "*.json")))
        if not files:
            raise BuildFailure(tag, "driver produced no fact files for tag %s\n%s" % (tag, pr.stdout[-3000:]))
        with open(okfile, "w") as fh:
            fh.write(rhash)
        with open(os.path.join(os.path.dirname(outdir), ".repo"), "w") as fh:
            fh.write(REPO)
        _prune(rhash)
        return files
    finally:
        fcntl.flock(lock, fcntl.LOCK_UN)
        lock.close()


def _prune(keep):
    """keep the fact sets of the 4 most recent trees per repository path (scratch copies are pruned separately from /repo)"""
    base = os.path.join(CACHE, "facts")
    groups = {}
    try:
        for d in os.listdir(base):
            full = os.path.join(base, d)
            try:
                rp = open(os.path.join(full, ".repo")).read().strip()
            except OSError:
                rp = "?"
            groups.setdefault(rp, []).append((os.path.getmtime(full), d))
    except OSError:
        return
    for rp, ds in groups.items():
        ds.sort(reverse=True)
        for _, d in ds[4:]:
            if d != keep:
                shutil.rmtree(os.path.join(base, d), ignore_errors=True)

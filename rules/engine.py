"""Obligation bookkeeping, evidence files, known findings, and the runner."""
import importlib, json, os, sys, time, traceback

from . import build
from .facts import DB

VERIF = build.VERIF
EVID = os.environ.get("VERIF_EVIDENCE_DIR") or os.path.join(VERIF, "evidence")
KNOWN = os.path.join(VERIF, "known_findings.json")


class AnchorLost(Exception):
    pass


class Run:
    def __init__(self, prop, tier):
        self.prop = prop
        self.tier = tier
        self.obs = []
        self.tag = None
        self.rule = None
        self.inspected = 0
        self.functions = set()
        self.t0 = time.time()
        self.tags_done = []
        self.notes = []
        self.views = {}

    def view_db(self, db, view):
        """the fact database of the same build with private helpers spliced into their callers (rules/inline.py)"""
        key = (db.tag, view)
        if key not in self.views:
            try:
                self.views[key] = DB(db.tag, db.files, inline=view)
            except Exception:
                self.views[key] = None
        v = self.views[key]
        return v if (v is not None and v.inlined) else None

    # -- recording -------------------------------------------------------------------------
    def _rec(self, ok, key, detail, where):
        self.obs.append({"rule": self.rule, "tag": self.tag, "key": key, "ok": bool(ok),
                         "detail": detail, "where": where})
        return bool(ok)
    def ok(self, key, detail, where=None):
        return self._rec(True, key, detail, where)
    def fail(self, key, detail, where=None):
        return self._rec(False, key, detail, where)
    def check(self, cond, key, ok_detail, fail_detail=None, where=None):
        return self._rec(cond, key, ok_detail if cond else (fail_detail or ("NOT: " + ok_detail)), where)
    def anchor(self, role, found, floor, where=None):
        """a role must resolve to at least `floor` sites; fewer = anchor lost = violation"""
        n = found if isinstance(found, int) else len(found)
        return self._rec(n >= floor, "anchor:" + role,
                         "role '%s' resolves to %d site(s) (floor %d)" % (role, n, floor) if n >= floor else
                         "anchor-lost: role '%s' resolves to %d site(s), floor %d" % (role, n, floor), where)
    def need(self, x, role):
        """fail closed if an anchor is missing"""
        if x is None or x == [] or x is False:
            raise AnchorLost(role)
        return x
    def saw(self, n=1, fn=None):
        self.inspected += n
        if fn is not None:
            self.functions.add(fn.id if hasattr(fn, "id") else fn)
    def note(self, s):
        self.notes.append(s)


VIEWS = ("new", "new+c", "cons-broad", "cons", "aggr-broad", "aggr", "aggr+c")


def _call_rule(run, fn, db):
    try:
        fn(run, db)
    except AnchorLost as e:
        run.fail("anchor:" + str(e), "anchor-lost: %s (rule could not locate the construct it checks)" % e)
    except Exception as e:
        run.fail("rule-crash", "rule crashed (treated as anchor loss, fail closed): %s\n%s" % (e, traceback.format_exc()[-1500:]))


def with_views(run, fn, db, label=None):
    """Run one rule function.  A rule speaks about paths through one body.  Before a failure is reported, the same question
    is asked about the semantically identical program in which private synchronous helpers are spliced into their callers
    (rules/inline.py): a violation that disappears there was an artefact of where a block of code lives.  The view's answer
    replaces the base answer only if *every* obligation of the rule holds on it."""
    start = len(run.obs)
    _call_rule(run, fn, db)
    if not isinstance(db, DB) or getattr(db, "inline_mode", None) or os.environ.get("VERIF_NO_INLINE"):
        return
    # a recorded known finding is expected to fail, on the base program and on every view of it
    if getattr(run, "_known_keys", None) is None:
        run._known_keys = set((k["rule"], k["key"]) for k in load_known().get("findings", []) if k.get("status") == "known" and k.get("property") == run.prop)
    fine = lambda obs: all(o["ok"] or (o["rule"], o["key"]) in run._known_keys for o in obs)
    if fine(run.obs[start:]):
        return
    base = run.obs[start:]
    for view in VIEWS:
        vdb = run.view_db(db, view)
        if vdb is None:
            continue
        del run.obs[start:]
        _call_rule(run, fn, vdb)
        if fine(run.obs[start:]):
            for o in run.obs[start:]:
                o.setdefault("view", "helpers-inlined:" + view)
            run.note("%s%s [%s]: decided on the view with private helpers inlined (%s)" % (run.rule, (" / " + label) if label else "", db.tag, view))
            return
    del run.obs[start:]
    run.obs.extend(base)


def apply_rule(run, r, db):
    with_views(run, r["fn"], db)


_WRAPPED = False


def wrap_rule_functions(run_getter=None):
    """rules are composed (`C04.R9 = C05.R5 + C05.R1`) by calling each other through the module attribute: wrap those
    attributes so that every *part* of a composite rule falls back to the inlined views on its own."""
    global _WRAPPED
    if _WRAPPED:
        return
    _WRAPPED = True
    import re as _re, types
    for name, mod in list(sys.modules.items()):
        if not _re.fullmatch(r"rules\.c\d\d", name) or mod is None:
            continue
        for attr in dir(mod):
            fn = getattr(mod, attr)
            if _re.fullmatch(r"r\d+", attr) and isinstance(fn, types.FunctionType) and fn.__module__ == name and not getattr(fn, "_viewed", False):
                def make(fn, label):
                    def w(run, db):
                        if isinstance(db, DB) and not getattr(db, "inline_mode", None):
                            with_views(run, fn, db, label)
                        else:
                            fn(run, db)
                    w._viewed = True
                    w.__name__ = fn.__name__
                    w.__doc__ = fn.__doc__
                    return w
                setattr(mod, attr, make(fn, name.split(".")[-1].upper() + "." + attr.upper()))


def load_known():
    try:
        with open(KNOWN) as fh:
            return json.load(fh)
    except FileNotFoundError:
        return {"findings": []}


def run_property(prop, tier, modname=None):
    """Run all rules of a property. Returns exit code."""
    mod = importlib.import_module("rules." + (modname or prop.lower()))
    wrap_rule_functions()
    run = Run(prop, tier)
    os.makedirs(EVID, exist_ok=True)
    os.makedirs(os.path.join(EVID, "replay"), exist_ok=True)
    # rules: list of dicts {id, fn, quick:[tags], thorough:[tags], multi:bool}
    rules = mod.RULES
    tags_needed = []
    for r in rules:
        for t in (r["quick"] if tier == "quick" else r["thorough"]):
            if t not in tags_needed:
                tags_needed.append(t)
    dbs = {}
    rhash = build.repo_hash()
    build_failures = []
    for t in tags_needed:
        try:
            files = build.facts_for(t, rhash)
            dbs[t] = DB(t, files)
        except build.BuildFailure as e:
            build_failures.append((t, e.log))
    # Configurations the repository's own suite builds (default features, cluster crate, witness crates) must build: a tree
    # that does not build there decides nothing -> fail closed.  Optional feature configurations (async-std, async-trait,
    # monitors, output-port-v2, whole workspace) that fail to build are skipped with a note: the pinned suite does not
    # build them either, and a property cannot be judged on a configuration that does not exist.
    BASELINE_TAGS = ("dflt", "rc", "gen", "pos")
    hard = [(t, l) for t, l in build_failures if t in BASELINE_TAGS]
    soft = [(t, l) for t, l in build_failures if t not in BASELINE_TAGS]
    for t, l in soft:
        print("NOTE property=%s configuration '%s' does not build on this tree; its rules are skipped (log tail: %s)" % (prop, t, l[-300:].replace("\n", " | ")))
        run.note("configuration %s did not build; skipped" % t)
    if hard:
        build_failures = hard
        p = os.path.join(EVID, "replay", "%s-build-failure.json" % prop)
        with open(p, "w") as fh:
            json.dump({"property": prop, "kind": "build-failure",
                       "explanation": "the tree does not build under a required configuration; a tree that does not build decides nothing",
                       "failures": [{"tag": t, "log": l} for t, l in build_failures]}, fh, indent=1)
        write_evidence(run, mod, extra_violations=1, note="build failure in tags %s" % [t for t, _ in build_failures])
        print("VIOLATION property=%s replay=%s" % (prop, p))
        return 1
    from .model import check_status_order
    for t, d in dbs.items():
        run.rule = prop + ".S"
        run.tag = t
        ok, why = check_status_order(d)
        run.check(ok, "status-order", why, "the status lattice assumed by every status-comparison rule does not hold: " + why)
    for r in rules:
        tags = r["quick"] if tier == "quick" else r["thorough"]
        run.rule = r["id"]
        if r.get("no_db"):
            if (tier == "quick" and r.get("in_quick")) or tier == "thorough":
                run.tag = "etype"
                try:
                    r["fn"](run, {})
                except Exception as e:
                    run.fail("rule-crash", "rule crashed (fail closed): %s\n%s" % (e, traceback.format_exc()[-1500:]))
            continue
        if r.get("multi"):
            tags = [t for t in tags if t in dbs]
            run.tag = "+".join(tags)
            try:
                r["fn"](run, {t: dbs[t] for t in tags})
            except AnchorLost as e:
                run.fail("anchor:" + str(e), "anchor-lost: %s (rule could not locate the construct it checks)" % e)
            except Exception as e:
                run.fail("rule-crash", "rule crashed (treated as anchor loss, fail closed): %s\n%s" % (e, traceback.format_exc()[-1500:]))
            continue
        for t in tags:
            if t not in dbs:
                continue
            run.tag = t
            apply_rule(run, r, dbs[t])
    run.tags_done = tags_needed
    if tier == "thorough" and not os.environ.get("VERIF_NO_SELFTEST") and build.REPO == "/repo":
        try:
            run.selftest = mutation_selftest(prop)
        except Exception as e:
            run.selftest = {"error": str(e)}
    return finish(run, mod)


def mutation_selftest(prop):
    """thorough tier only, informational (never changes the exit code): apply every committed seeded change of this property
    to a scratch copy of /repo and record whether this property's quick check reports it."""
    import re, shutil, subprocess
    seeded = os.path.join(VERIF, "seeded")
    out = {"applied": 0, "caught": 0, "missed": [], "skipped": [], "seeds": {}}
    if not os.path.isdir(seeded):
        return out
    todo = []
    for name in sorted(os.listdir(seeded)):
        sd = os.path.join(seeded, name)
        mp = os.path.join(sd, "meta.json")
        if not os.path.exists(mp) or not os.path.exists(os.path.join(sd, "patch.diff")):
            continue
        try:
            meta = json.load(open(mp))
        except Exception:
            continue
        if meta.get("property") != prop:
            continue
        todo.append((name, sd))

    def one(item):
        name, sd = item
        scr = os.path.join(build.CACHE, "scratch", "st-%s-%s" % (prop, name))
        try:
            shutil.rmtree(scr, ignore_errors=True)
            os.makedirs(os.path.dirname(scr), exist_ok=True)
            subprocess.check_call(["rsync", "-a", "--exclude", "target", "--exclude", ".git", "/repo/", scr + "/"])
            pr = subprocess.run(["patch", "-p1", "-s", "-i", os.path.join(sd, "patch.diff")], cwd=scr, stdout=subprocess.PIPE, stderr=subprocess.STDOUT, text=True)
            if pr.returncode != 0:
                return name, None
            env = dict(os.environ, RACTOR_REPO=scr, VERIF_EVIDENCE_DIR=os.path.join(build.CACHE, "scratch-evidence", "st-%s-%s" % (prop, name)), VERIF_NO_SELFTEST="1")
            r = subprocess.run([os.path.join(VERIF, "check"), prop, "--tier", "quick"], env=env, stdout=subprocess.PIPE, stderr=subprocess.STDOUT, text=True)
            rules = sorted(set(re.findall(r"^   rule=(\S+)", r.stdout, re.M)))
            return name, (r.returncode, rules)
        finally:
            shutil.rmtree(scr, ignore_errors=True)

    # the seeds are independent: one scratch copy each, a handful at a time (fact generation is serialised by its own lock)
    from concurrent.futures import ThreadPoolExecutor
    with ThreadPoolExecutor(max_workers=6) as ex:
        results = list(ex.map(one, todo))
    for name, res in results:
        if res is None:
            out["skipped"].append(name)
            continue
        rc, rules = res
        out["applied"] += 1
        if rc == 1 and rules:
            out["caught"] += 1
        else:
            out["missed"].append(name)
        out["seeds"][name] = rules
    return out


def finish(run, mod):
    known = load_known()
    kset = {}
    for k in known.get("findings", []):
        if k.get("status") == "known" and k.get("property") == run.prop:
            kset[(k["rule"], k["key"])] = k
    bad = [o for o in run.obs if not o["ok"]]
    new = []
    seen_known = set()
    seen_new = set()
    for o in bad:
        kk = (o["rule"], o["key"])
        if kk in kset:
            if kk not in seen_known:
                seen_known.add(kk)
                print("KNOWN-FINDING: property=%s rule=%s key=%s %s" % (run.prop, o["rule"], o["key"], kset[kk].get("what", "")))
            continue
        if kk in seen_new:
            # same instance under another tag: keep in file, do not print twice
            for n in new:
                if (n["rule"], n["key"]) == kk:
                    n["tags"].append(o["tag"])
            continue
        seen_new.add(kk)
        new.append({"rule": o["rule"], "key": o["key"], "tags": [o["tag"]], "detail": o["detail"], "where": o["where"]})
    write_evidence(run, mod, extra_violations=0, nviol=len(new))
    rc = 0
    for i, n in enumerate(new):
        p = os.path.join(EVID, "replay", "%s-%s-%d.json" % (run.prop, run.tier, i))
        with open(p, "w") as fh:
            json.dump({"property": run.prop, "tier": run.tier, "rule": n["rule"], "instance": n["key"], "tags": n["tags"],
                       "where": n["where"], "detail": n["detail"],
                       "rule_doc": getattr(mod, "DOC", {}).get(n["rule"], "")}, fh, indent=1)
        print("VIOLATION property=%s replay=%s" % (run.prop, p))
        print("   rule=%s instance=%s at %s\n   %s" % (n["rule"], n["key"], n["where"], (n["detail"] or "").replace("\n", "\n   ")))
        rc = 1
    ok = len([o for o in run.obs if o["ok"]])
    print("%s [%s]: %d obligations, %d discharged, %d violation(s), %d known finding(s), tags=%s, %.1fs" % (
        run.prop, run.tier, len(run.obs), ok, len(new), len(seen_known), ",".join(run.tags_done), time.time() - run.t0))
    return rc


def write_evidence(run, mod, extra_violations=0, nviol=0, note=None):
    oks = [o for o in run.obs if o["ok"]]
    distinct = set((o["rule"], o["key"]) for o in oks if not o["key"].startswith("anchor:"))
    samples = []
    per_rule = {}
    for o in oks:
        per_rule.setdefault(o["rule"], []).append(o)
    for r, lst in per_rule.items():
        for o in lst[:3]:
            samples.append({"rule": o["rule"], "tag": o["tag"], "instance": o["key"], "where": o["where"], "witness": o["detail"]})
    rules_doc = getattr(mod, "DOC", {})
    ev = {
        "property_id": run.prop,
        "tier": run.tier,
        "seed": int(os.environ.get("VERIF_SEED", "0") or 0),
        "level": "other",
        "coverage": {
            "explanation": getattr(mod, "EXPLANATION", "") + ((" NOTE: " + note) if note else ""),
            "obligations": len(run.obs),
            "discharged": len(oks),
            "evaluations": run.inspected,
            "distinct_nontrivial": len(distinct),
            "rule": "one obligation per (rule, construct instance, build configuration); an instance is non-trivial when the rule matched a real construct of /repo's MIR (anchor-only rows are not counted); distinct = distinct (rule, instance) pairs across configurations",
            "samples": samples[:60],
            "rules": {r["id"]: rules_doc.get(r["id"], "") for r in mod.RULES},
            "per_rule_obligations": {r: len(l) for r, l in per_rule.items()},
            "functions_analysed": len(run.functions),
            "tags": run.tags_done,
            "exhaustive": False,
            "checker_cmd": "./check %s --tier %s" % (run.prop, run.tier),
            "trusted_base": getattr(mod, "TRUSTED", []),
            "notes": run.notes[:40],
            "mutation_selftest": getattr(run, "selftest", None),
        },
        "assumptions": getattr(mod, "ASSUMPTIONS", []),
        "wall_s": round(time.time() - run.t0, 2),
        "violations": nviol + extra_violations,
    }
    with open(os.path.join(EVID, "%s.json" % run.prop), "w") as fh:
        json.dump(ev, fh, indent=1)

"""E-TYPE: run the compile-fail witness crate (cargo +nightly test --doc) against /repo's current ractor."""
import os, re, shutil, subprocess, time
from . import build

WDIR = os.path.join(build.VERIF, "witness", "types")
_result = {}


def run_witnesses():
    key = build.repo_hash()
    if key in _result:
        return _result[key]
    with open(os.path.join(WDIR, "Cargo.toml.in")) as fh:
        txt = fh.read().replace("{REPO}", build.REPO)
    with open(os.path.join(WDIR, "Cargo.toml"), "w") as fh:
        fh.write(txt)
    shutil.copyfile(os.path.join(build.REPO, "Cargo.lock"), os.path.join(WDIR, "Cargo.lock"))
    env = dict(os.environ)
    env["CARGO_TARGET_DIR"] = os.path.join(build.CACHE, "target-doc")
    env["CARGO_NET_OFFLINE"] = "true"
    env["RUSTFLAGS"] = "-Awarnings"
    env.pop("RUSTC_WORKSPACE_WRAPPER", None)
    pr = subprocess.run(["cargo", "+nightly", "test", "--doc", "--offline", "--manifest-path", os.path.join(WDIR, "Cargo.toml")], env=env, stdout=subprocess.PIPE, stderr=subprocess.STDOUT, text=True)
    tests = {}
    for m in re.finditer(r"^test src/lib\.rs - (\w+) \(line (\d+)\) - (compile fail|compile) \.\.\. (\w+)", pr.stdout, re.M):
        tests.setdefault(m.group(1), []).append((m.group(3), m.group(4), int(m.group(2))))
    _result[key] = (pr.returncode, tests, pr.stdout[-3000:])
    return _result[key]


def witness_rule(names):
    def rule(run, dbs):
        rc, tests, tail = run_witnesses()
        if not tests:
            run.fail("witness-crate", "the witness crate did not build/run: %s" % tail[-800:])
            return
        for nm in names:
            rows = tests.get(nm, [])
            cf = [r for r in rows if r[0] == "compile fail"]
            tw = [r for r in rows if r[0] == "compile"]
            run.saw(len(rows))
            run.check(bool(cf) and all(r[1] == "ok" for r in cf), "witness:%s|violating-program-rejected" % nm, "%s: the violating program fails to compile with the expected error code (%d witness(es))" % (nm, len(cf)),
                      "%s: the violating program now COMPILES (or fails with another error): the type-level guarantee is gone" % nm, "witness/types/src/lib.rs")
            run.check(bool(tw) and all(r[1] == "ok" for r in tw), "witness:%s|twin-compiles" % nm, "%s: the twin that differs only in the offending line compiles" % nm, "%s: the compiling twin no longer compiles (witness is vacuous)" % nm, "witness/types/src/lib.rs")
    return rule

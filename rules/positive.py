"""Positive controls for zero-expected rules (compiled from witness/positive on every run)."""
import re
from .model import Model, split_top
from .futflow import FutFlow, concrete
from .facts import op_place

PC = "ractor_verif_positive"


def control(which):
    def rule(run, db):
        if which == "forget":
            hits = [c for c in db.all_calls(PC) if c.matches(r"mem::forget$") and "ActorLifecycleGuard" in " ".join(c.gargs)]
            run.check(len(hits) == 1, "positive:forget-guard", "the leak detector reports the planted mem::forget(guard) (%s)" % [c.where() for c in hits], "the leak detector no longer sees the planted mem::forget(guard)")
        elif which == "select":
            m = Model(db)
            m.crate = PC
            res = {}
            for f in db.crate_fns(PC):
                if f.kind == "coroutine" and "select" in f.id:
                    for s in m.select_sets(f):
                        res[f.id.split("::")[1]] = (s["biased"], (s.get("start_const") or {}).get("roots"))
            run.check(res.get("p2_fair_select", (True,))[0] is False, "positive:fair-select", "the bias detector classifies the planted unbiased select as NOT biased %s" % (res.get("p2_fair_select"),), "the bias detector no longer reports the planted fair select: %s" % res)
            run.check(res.get("p2_biased_select", (False,))[0] is True, "positive:biased-select", "and its biased twin as biased", "biased twin misclassified: %s" % res)
        elif which == "positional":
            from .c18 import ALLOWED, POSITIONAL
            f = db.fn(PC + "::p3_positional_election")
            bad = []
            for g in db.family(f.id):
                for c in g.calls():
                    if not (ALLOWED.search(c.callee or "") or (c.resolved and ALLOWED.search(c.resolved))) and not re.search(r"fmt|panicking", c.name):
                        if POSITIONAL.search(c.name):
                            bad.append(c.name.split("::")[-1])
            run.check("index" in bad or "find" in bad, "positive:positional-election", "the order-sensitivity detector reports the planted positional accesses %s" % sorted(set(bad)), "the planted positional election is not reported: %s" % bad)
        elif which == "alloc":
            from .c19 import taint
            fs = [f for f in db.crate_fns(PC) if re.search(r"p4_alloc_by_wire_length::\{closure#0\}$", f.id)]
            hit = False
            for f in fs:
                for c in f.calls():
                    if c.matches(r"Vec::<T>::with_capacity$|Vec::<T, A>::resize$"):
                        ts = set()
                        for a in c.args[(0 if c.matches("with_capacity$") else 1):]:
                            ts |= taint(f, a)
                        if any(t in ("upvar1", "arg2") for t in ts):
                            hit = True
            run.check(hit, "positive:alloc-by-length", "the allocation taint detector reports the planted with_capacity(len)/resize(len)", "planted allocation by declared length not reported")
        elif which == "k14":
            ff = FutFlow(db, crates=(PC,), sink_ids=()).run()
            vr = ff.violations("R")
            vp = ff.violations("P")
            run.check(len(vr) >= 1 and len(vp) >= 1, "positive:unraced-uncontained-root", "K14 reports the planted `tokio::spawn(actor.handle(..))` as un-raced and uncontained (%d/%d)" % (len(vr), len(vp)), "K14 no longer reports the planted spawn of a callback: R=%s P=%s" % (vr, vp))
    return rule

"""K14 -- future flow / callback confinement.

Whole-crate forward dataflow over MIR answering: where may a future that runs a *user callback*
(pre_start, post_start, post_stop, handle, handle_serialized, handle_supervisor_evt of
`Actor` / `ThreadLocalActor`) be polled?

Tags carried by future-valued (or future-containing) locals:
    R:<hook>  the callback still has to be raced against the kill signal   (removed by the sink)
    P:<hook>  a panic of the callback would still unwind out                (removed by catch_unwind)
    H:<hook>  provenance only, never removed (used to resolve roles)
`~tag` marks a tag that entered a body through a parameter (context-insensitive inflow); it is used
for checks inside that body but is not re-exported through the body's return summary, where the
symbolic `@i` (parameter i) is substituted per call site instead.
"""
import re
from collections import defaultdict
from .facts import op_place, Call, Site

HOOKS = ("pre_start", "post_start", "post_stop", "handle", "handle_serialized", "handle_supervisor_evt")
SEED_TRAITS = {"ractor::actor::Actor": "S", "ractor::thread_local::ThreadLocalActor": "T", "ractor::Actor": "S"}

ROOT_RX = re.compile(
    r"^(tokio::task::spawn|tokio::task::spawn_local|tokio::task::spawn_blocking|tokio::spawn|"
    r"tokio::task::Builder::<'a>::spawn\w*|tokio::task::Builder::spawn\w*|tokio::task::JoinSet::<T>::spawn\w*|tokio::task::JoinSet::<T>::build_task|"
    r"tokio::task::join_set::Builder::<'a, T>::spawn\w*|"
    r"tokio::task::LocalSet::spawn_local|tokio::task::LocalSet::block_on|tokio::task::LocalSet::run_until|"
    r"tokio::runtime::Runtime::spawn|tokio::runtime::Runtime::block_on|tokio::runtime::Handle::spawn|tokio::runtime::Handle::block_on|"
    r"async_std::task::spawn|async_std::task::spawn_local|async_std::task::block_on|async_std::task::spawn_blocking|"
    r"async_std::task::Builder::spawn\w*|async_std::task::Builder::local|async_std::task::Builder::blocking|"
    r"futures::executor::block_on|futures::executor::\w+::spawn\w*|"
    r"std::thread::spawn|std::thread::Builder::spawn\w*|"
    r"wasm_bindgen_futures::spawn_local|tokio_with_wasm::\S*spawn\w*)$")

CATCH_RX = re.compile(r"(^|::)(FutureExt::catch_unwind|panic::catch_unwind)$")
POLL_RX = re.compile(r"(^|::)Future::poll$")


def strip(t):
    return t[1:] if t.startswith("~") else t


def concrete(tags):
    return set(strip(t) for t in tags if not t.startswith("@"))


class FutFlow:
    def __init__(self, db, crates=("ractor",), sink_ids=()):
        self.db = db
        self.crates = set(crates)
        self.bodies = [f for f in db.fns.values() if f.crate in self.crates]
        self.sink_ids = set(sink_ids)          # fn ids of the sink (async fn shim)
        self.T = defaultdict(lambda: defaultdict(set))       # fn id -> local -> tags
        self.up = defaultdict(lambda: defaultdict(set))      # closure id -> upvar idx -> tags
        self.body_tags = defaultdict(set)                    # tags polled / run inside this body
        self.ret = defaultdict(set)                          # tags of the returned value
        self.roots = {}                                      # (fn id, bb) -> dict
        self.seed_calls = []                                 # (Call, hook id)
        self.sink_calls = {}                                 # (fn id, bb) -> (Call, tags of wrapped future)
        self.catch_calls = {}
        self.exempt = set()
        self._seed_items = {}
        for tr, pre in SEED_TRAITS.items():
            for h in HOOKS:
                self._seed_items[tr + "::" + h] = pre + "." + h
        # bodies implementing a seed trait item (and everything nested in them) are the callbacks
        for f in self.bodies:
            ti = f.raw.get("trait_item")
            if ti in self._seed_items or (f.raw.get("in_trait") in SEED_TRAITS and f.id.split("::")[-1] in HOOKS):
                for g in db.family(f.id):
                    self.exempt.add(g.id)
        for f in self.bodies:
            if f.kind in ("fn", "method"):
                for i in range(1, f.arg_count + 1):
                    self.T[f.id][i].add("@%d" % i)

    # ---------------------------------------------------------------------------------------
    def seed_of(self, c):
        if c.callee in self._seed_items and not c.resolved:
            return self._seed_items[c.callee]
        if c.callee in self._seed_items and c.resolved:
            # resolved to a concrete impl inside the workspace: still a callback invocation
            return self._seed_items[c.callee]
        return None

    def op_tags(self, f, op):
        p = op_place(op)
        if p is None:
            return set()
        return self.place_tags(f, p)

    def place_tags(self, f, p):
        l, proj = p
        if f.kind in ("closure", "coroutine") and l == 1:
            pr = [e for e in proj if e != "*"]
            if pr and pr[0].startswith("f:"):
                return set(self.up[f.id][int(pr[0].split(":")[1])])
            out = set()
            for v in self.up[f.id].values():
                out |= v
            return out
        return set(self.T[f.id][l])

    def rv_tags(self, f, rv):
        k = rv["k"]
        out = set()
        if k in ("use", "cast"):
            out |= self.op_tags(f, rv["op"])
        elif k in ("ref", "rawptr"):
            out |= self.place_tags(f, rv["p"])
        elif k == "agg":
            for o in rv["ops"]:
                out |= self.op_tags(f, o)
        return out

    def add(self, s, tags):
        n = len(s)
        s |= tags
        return len(s) != n

    def inst_ret(self, g, arg_tags):
        out = set()
        for t in self.ret[g.id]:
            if t.startswith("@"):
                i = int(t[1:]) - 1
                if i < len(arg_tags):
                    out |= arg_tags[i]
            elif t.startswith("~"):
                continue
            else:
                out.add(t)
        return out

    def step(self, f):
        ch = False
        Tf = self.T[f.id]
        for site, s in f.stmts():
            if s["k"] != "assign":
                continue
            rv = s["rv"]
            tags = self.rv_tags(f, rv)
            if rv["k"] == "agg" and rv.get("kind") in ("closure", "coroutine", "coroutine_closure"):
                cid = rv.get("def")
                for i, o in enumerate(rv["ops"]):
                    ch |= self.add(self.up[cid][i], self.op_tags(f, o))
                g = self.db.fns.get(cid)
                if g is not None:
                    # the closure/coroutine *value* stands for whatever running it would poll
                    tags = set(tags) | self.body_tags[cid] | set(t for t in self.ret[cid] if not t.startswith("@"))
            l = s["lhs"][0]
            if f.kind in ("closure", "coroutine") and l == 1:
                continue
            ch |= self.add(Tf[l], tags)
        for site, t in f.terms():
            if t["k"] == "yield":
                continue
            if t["k"] != "call":
                continue
            c = Call(f, site.bb, t)
            at = [self.op_tags(f, a) for a in c.args]
            dest = set()
            key = (f.id, site.bb)
            hook = self.seed_of(c)
            names = [n for n in (c.resolved, c.callee) if n]
            local = None
            for n in names:
                g = self.db.fns.get(n)
                if g is not None and g.crate in self.crates:
                    local = g
                    break
            if hook is not None:
                dest |= {"R:" + hook, "P:" + hook, "H:" + hook}
                # the call itself runs the callback's synchronous prefix (a hand-written `fn hook(..) -> impl Future` may
                # do real work, and panic, before it returns its future): whoever polls *this* body runs user code
                # uncontained unless this body is itself polled under catch_unwind
                ch |= self.add(self.body_tags[f.id], {"P:" + hook})
                if not any(x[0].fn.id == f.id and x[0].bb == site.bb for x in self.seed_calls):
                    self.seed_calls.append((c, hook))
            elif any(n in self.sink_ids for n in names):
                wrapped = at[1] if len(at) > 1 else set()
                self.sink_calls[key] = (c, set(wrapped))
                dest |= set(x for x in wrapped if not strip(x).startswith("R:"))
            elif any(CATCH_RX.search(n) for n in names):
                wrapped = at[0] if at else set()
                self.catch_calls[key] = (c, set(wrapped))
                dest |= set(x for x in wrapped if not strip(x).startswith("P:"))
            elif any(POLL_RX.search(n) for n in names) and not (local is not None and local.kind != "coroutine"):
                polled = set(at[0]) if at else set()
                if local is not None and local.kind == "coroutine":
                    polled |= self.body_tags[local.id]
                ch |= self.add(self.body_tags[f.id], polled)
            elif local is not None:
                if local.kind in ("fn", "method"):
                    for i, tg in enumerate(at):
                        inflow = set("~" + strip(x) for x in tg if not x.startswith("@"))
                        ch |= self.add(self.T[local.id][i + 1], inflow)
                    dest |= self.inst_ret(local, at)
                    ch |= self.add(self.body_tags[f.id], set(x for x in self.body_tags[local.id] if not x.startswith("@")))
                else:
                    # direct call of a closure body (Fn* call resolved): running it here
                    ch |= self.add(self.body_tags[f.id], self.body_tags[local.id])
                    dest |= set(x for x in self.ret[local.id] if not x.startswith("@"))
                    for tg in at:
                        dest |= tg
            else:
                allt = set()
                for tg in at:
                    allt |= tg
                nm = c.callee or ""
                if any(ROOT_RX.match(n) for n in names):
                    self.roots[key] = {"call": c, "tags": set(allt)}
                dest |= allt
                # trait-dispatched call of a closure we cannot resolve (FnOnce::call_once on a local closure value)
                if re.search(r"ops::function::Fn(Once|Mut)?::call(_once|_mut)?$", nm) and at:
                    ch |= self.add(self.body_tags[f.id], set(x for x in at[0]))
            dl = c.dest[0]
            if not (f.kind in ("closure", "coroutine") and dl == 1):
                ch |= self.add(Tf[dl], dest)
        ch |= self.add(self.ret[f.id], Tf[0])
        return ch

    def run(self, max_iter=60):
        for it in range(max_iter):
            ch = False
            for f in self.bodies:
                ch |= self.step(f)
            if not ch:
                self.iterations = it + 1
                return self
        self.iterations = max_iter
        return self

    # ---- queries ---------------------------------------------------------------------------
    def violations(self, kind):
        """kind = 'R' or 'P'.  Yields (key, detail, where)"""
        out = []
        pre = kind + ":"
        for key, r in sorted(self.roots.items()):
            fid, bb = key
            if fid in self.exempt:
                continue
            bad = sorted(t for t in concrete(r["tags"]) if t.startswith(pre))
            if bad:
                c = r["call"]
                out.append(("root:%s->%s" % (fid, c.name),
                            "a future carrying %s reaches the task root %s in %s: the callback would run %s" % (
                                bad, c.name, fid,
                                "outside the kill-signal race" if kind == "R" else "without panic containment (a panic would kill the task)"),
                            c.where()))
        for f in self.bodies:
            if f.id in self.exempt or f.kind not in ("fn", "method"):
                continue
            if f.raw.get("vis") != "Public":
                continue
            bad = sorted(t for t in self.ret[f.id] if not t.startswith(("@", "~")) and t.startswith(pre))
            if bad:
                out.append(("pub:%s" % f.id,
                            "public function %s hands out a future carrying %s (callers would poll the callback %s)" % (
                                f.id, bad, "outside the kill-signal race" if kind == "R" else "uncontained"),
                            f.where()))
        return out

"""C12 -- Timers fire once, never early, and die with their target (structural clauses)."""
import re
from .model import *
from .facts import Site, op_place, Call, proj_field_name

EXPLANATION = ("decides necessary structural conditions only: in every one-shot timer body the single effect (send / stop / kill) is dominated by the "
               "completed await of the crate's sleep whose argument is the caller's period, unmodified, and is not in a cycle; send_after's task result is "
               "the send's result; every interval body builds the drift-free interval timer from the unmodified period (no sleep in the cycle, default "
               "burst catch-up behaviour untouched), consumes the immediate first tick before the cycle, and in the cycle awaits one tick before each send, "
               "re-checks that the target is in an active state every iteration and leaves the cycle on a failed send; the ActorRef / DerivedActorRef "
               "twins delegate to (or agree with) the functions of the same name, so kill_after kills and exit_after stops. NOT decided: numeric tick "
               "times, abort/expiry boundary behaviour inside tokio.")
TRUSTED = ["tokio::time::sleep / Interval (Burst) semantics: never completes early; k-th tick at start + k*period", "JoinHandle::abort"]
ASSUMPTIONS = ["a virtual clock is not simulated; only the code shape around the timer primitives is decided"]

DOC = {
 "C12.R1": "one-shot bodies: exactly one effect call, not in a cycle, dominated by the Ready edge of the await of sleep(period) with period originating unmodified from the parameter and performed on every path from there to the end (unconditional); the effect class matches the function's name (send_after->send_message, exit_after->stop, kill_after->kill)",
 "C12.R2": "send_after: the task's result is the send's result (errors are reported through the handle)",
 "C12.R3": "interval bodies: interval(period) from the unmodified parameter; one tick awaited before the cycle; each in-cycle send dominated by an in-cycle tick; cycle guarded by a per-iteration status test (comparisons and/or membership in a constant table whose contents are read from its MIR) that excludes Draining/Stopping/Stopped; failed send leaves the cycle; no sleep in the cycle",
 "C12.R4": "twins: ActorRef/DerivedActorRef::{send_interval,send_after,exit_after,kill_after} delegate to the free function of the same name or contain a body that passes R1/R3 under that name",
 "C12.R6": "every overwrite of a stored timer handle (struct field of type Option<JoinHandle<..>>) with a new timer is dominated by an abort of the old one (directly or through the field's cancel helper)",
 "C12.R5": "the crate's interval() returns the runtime's interval built from its parameter and does not reconfigure it (no set_missed_tick_behavior: default Burst keeps the k-th tick at k periods)",
}

EFFECT = {"send_after": r"::send_message$", "exit_after": r"ActorCell::stop$", "kill_after": r"ActorCell::kill$", "send_interval": r"::send_message$"}
ANY_EFFECT = r"::send_message$|ActorCell::stop$|ActorCell::kill$|::stop_and_wait$|::kill_and_wait$|::drain$|rpc::cast$|::cast$"


def timer_name(fid):
    for nm in ("send_interval", "send_after", "exit_after", "kill_after"):
        if re.search(r"::%s(::|$)" % nm, fid):
            return nm
    return None


def timer_bodies(db):
    """coroutines in ractor::time spawned by the timer API"""
    out = []
    for f in db.crate_fns("ractor"):
        if f.kind == "coroutine" and f.id.startswith("ractor::time::") and timer_name(f.id):
            out.append(f)
    return out


def period_origin_ok(db, f, op):
    roots = deep_origins(db, f, op)
    if not roots:
        return False, "no origin"
    for r in roots:
        if r["k"] != "arg":
            return False, "%s%s" % (r["k"], (":" + r["call"].name) if r["k"] == "call" else "")
        ty = r["fn"].local_ty(r["local"])
        if "Duration" not in ty:
            return False, "parameter of type " + ty
        if r["proj"] or r["trail"]:
            return False, "projected"
    return True, "parameter `period`"


def r1(run, db):
    n = 0
    for f in timer_bodies(db):
        nm = timer_name(f.id)
        if nm == "send_interval":
            continue
        n += 1
        run.saw(len(f.blocks), f)
        key = f.id.replace("ractor::time::", "")
        sl = [c for c in f.calls() if c.callee and re.search(r"concurrency::\w+::sleep$", c.callee)]
        eff = [c for c in f.calls() if c.matches(ANY_EFFECT)]
        run.check(len(sl) == 1, key + "|one-sleep", "one sleep", "%d sleeps" % len(sl), f.where())
        run.check(len(eff) == 1 and eff[0].matches(EFFECT[nm]), key + "|one-effect", "exactly one effect call and it is %s" % (eff[0].name.split("::")[-1] if eff else "?"),
                  "%s performs %s (expected exactly one %s)" % (nm, [c.name.split("::")[-1] for c in eff], EFFECT[nm]), f.where())
        if not (sl and eff):
            continue
        good, why = period_origin_ok(db, f, sl[0].args[0])
        run.check(good, key + "|sleep-period", "sleep's argument is the %s" % why, "sleep's argument is not the unmodified period parameter (%s)" % why, sl[0].where())
        aw = await_of_call(f, sl[0])
        run.check(len(aw) == 1 and aw[0].completes_before(eff[0].site), key + "|effect-after-sleep", "the effect is dominated by the completed sleep (never early)", "the effect can happen before the sleep completed", eff[0].where())
        if len(aw) == 1 and aw[0].ready_edge is not None:
            run.check(f.must_pass(Site(aw[0].ready_edge[1], 0), [eff[0].site]), key + "|effect-unconditional",
                      "once the period has elapsed the effect is performed on every path (no status or other short-cut around it)",
                      "%s can finish without performing its effect after the period elapsed (a path from the completed sleep to the end avoids the %s call): e.g. a target already inside post_stop would never be %s" % (
                          nm, eff[0].name.split("::")[-1], {"kill_after": "killed", "exit_after": "stopped"}.get(nm, "sent the message")), eff[0].where())
        run.check(not f.in_cycle(eff[0].site), key + "|effect-once", "the effect is not in a cycle (fires once)", "the effect is inside a cycle", eff[0].where())
        if nm == "exit_after":
            from .c04 import const_strings
            # reason mentions the period: format_args over period.as_millis()
            ms = [c for c in f.calls() if c.matches(r"Duration::as_millis$")]
            run.check(len(ms) == 1, key + "|reason", "the stop reason is formatted from the period (documented reason)", "stop reason not derived from the period", f.where())
    run.anchor("one-shot timer bodies", n, 4)


def r2(run, db):
    n = 0
    for f in timer_bodies(db):
        if timer_name(f.id) != "send_after":
            continue
        n += 1
        snd = [c for c in f.calls() if c.matches(r"::send_message$")]
        roots = f.origins([0, []])
        good = snd and any(r["k"] == "call" and r["call"].bb == snd[0].bb for r in roots) and len(roots) == 1
        run.check(bool(good), f.id.replace("ractor::time::", "") + "|result", "the task returns the send's own result", "the task's result is not the send's result (a dead target would go unreported)", f.where())
    run.anchor("send_after bodies", n, 2)


def r3(run, db):
    n = 0
    for f in timer_bodies(db):
        if timer_name(f.id) != "send_interval":
            continue
        n += 1
        run.saw(len(f.blocks), f)
        key = f.id.replace("ractor::time::", "")
        iv = [c for c in f.calls() if c.callee and re.search(r"concurrency::\w+::interval$", c.callee)]
        run.check(len(iv) == 1 and not f.in_cycle(iv[0].site), key + "|interval-once", "one interval timer, built outside the cycle", "%d interval constructions" % len(iv), f.where())
        if iv:
            good, why = period_origin_ok(db, f, iv[0].args[0])
            run.check(good, key + "|interval-period", "interval's argument is the %s" % why, "interval's period is not the unmodified parameter (%s)" % why, iv[0].where())
        ticks = [c for c in f.calls() if c.matches(r"Interval::tick$")]
        pre = [c for c in ticks if not f.in_cycle(c.site)]
        inc = [c for c in ticks if f.in_cycle(c.site)]
        run.check(len(pre) == 1 and len(inc) == 1, key + "|ticks", "one tick before the cycle (the immediate one) and one per iteration", "ticks: %d before, %d in the cycle" % (len(pre), len(inc)), f.where())
        snd = [c for c in f.calls() if c.matches(r"::send_message$")]
        run.check(len(snd) == 1 and f.in_cycle(snd[0].site), key + "|send-in-cycle", "one send per iteration", "%d sends" % len(snd), f.where())
        sl = [c for c in f.calls() if c.callee and re.search(r"concurrency::\w+::sleep$|time::sleep$", c.callee)]
        run.check(not sl, key + "|no-sleep", "no sleep in the interval body (no accumulated drift)", "the interval body sleeps: the period drifts by the handling time", f.where())
        if not (inc and snd and pre):
            continue
        aw = await_of_call(f, inc[0])
        awp = await_of_call(f, pre[0])
        run.check(len(aw) == 1 and aw[0].completes_before(snd[0].site), key + "|send-after-tick", "each send is dominated by the completion of that iteration's tick", "a send can precede its tick", snd[0].where())
        run.check(len(awp) == 1 and awp[0].completes_before(inc[0].site), key + "|first-tick-consumed", "the immediate first tick is consumed before the cycle", None, f.where())
        # every way back to the send passes a new tick
        nxt = f.site_succ(snd[0].site)
        run.check(all(f.must_pass(x, [inc[0].site], to_sites=[snd[0].site]) for x in nxt), key + "|tick-per-send", "between two sends there is always a tick", "two sends can happen without a tick in between", f.where())
        # status gate
        adm, desc, ng = admitted_with_tables(db, f, inc[0].site)
        reads_in_cycle = any(f.in_cycle(c.site) for c in f.calls() if c.is_("get_status"))
        late = [v for v in adm if v in ("Draining", "Stopping", "Stopped")]
        early = [v for v in ("Unstarted", "Starting", "Running", "Upgrading") if v not in adm]
        run.check(not early, key + "|gate-admits-not-yet-running", "the interval keeps going for a target that has not left the running states (admits %s)" % adm,
                  "the interval cycle ends at once when the target is %s: a target that is merely not started *yet* (spawn_instant, or any ref obtained before the start task ran) never gets a single tick, although it runs normally afterwards; send_after and plain sends accept such a target" % early, f.where())
        run.check(ng >= 1 and reads_in_cycle and not late, key + "|active-gate",
                  "each iteration re-reads the status and goes on only while it is one of %s (%s)" % (adm, desc),
                  "the interval cycle %s: the timer task keeps ticking (and building messages) for a target that left the running states" % (
                      "continues while the target is %s" % late if ng and reads_in_cycle else "is not guarded by a per-iteration status test"), f.where())
        # failed send leaves the cycle
        ie = [c for c in f.calls() if c.matches(r"Result::<T, E>::is_err$|Result::<T, E>::is_ok$") and any(r["k"] == "call" and r["call"].bb == snd[0].bb for r in f.origins(c.args[0]))]
        good = False
        for c in ie:
            e = true_edge(f, c) if c.matches("is_err") else false_edge(f, c)
            if e and inc[0].site not in edge_path_sites(f, [e]):
                good = True
        run.check(good, key + "|break-on-error", "a failed send leaves the cycle", "a failed send does not end the interval task", f.where())
    run.anchor("interval bodies", n, 2)


def r4(run, db):
    n = 0
    for f in db.crate_fns("ractor"):
        if f.kind != "method" or not f.id.startswith("ractor::time::<impl"):
            continue
        nm = f.id.split("::")[-1]
        if nm not in EFFECT:
            continue
        n += 1
        run.saw(len(f.blocks), f)
        free = "ractor::time::" + nm
        dl = [c for c in f.calls() if c.callee == free]
        own = [g for g in db.family(f.id) if g.kind == "coroutine"]
        other = [c for c in f.calls() if c.callee and c.callee.startswith("ractor::time::") and c.callee != free and c.callee.split("::")[-1] in EFFECT]
        run.check((len(dl) == 1 or own) and not other, "twin:%s" % f.id.replace("ractor::time::", ""), "%s %s" % (f.id.replace("ractor::time::", ""), "delegates to time::" + nm if dl else "has its own body (checked under R1/R3)"),
                  "%s calls %s instead of time::%s" % (f.id, [c.callee for c in other], nm), f.where())
        if dl:
            good, why = period_origin_ok(db, f, dl[0].args[0])
            run.check(good, "twin-period:%s" % f.id.replace("ractor::time::", ""), "passes its period unmodified", "period modified (%s)" % why, dl[0].where())
    run.anchor("ActorRef/DerivedActorRef timer methods", n, 8)


def r5(run, db):
    fs = [f for f in db.crate_fns("ractor") if re.search(r"^ractor::concurrency::\w+::interval$", f.id)]
    run.anchor("crate interval()", len(fs), 1)
    for f in fs:
        run.saw(len(f.blocks), f)
        cs = f.calls()
        ctor = [c for c in cs if c.matches(r"time::interval$|Interval::new$|time::interval::interval$|::interval_at$")]
        own = [(site, s) for site, s in f.aggregates() if (s["rv"].get("adt") or "").endswith("::Interval")]
        if own and not ctor:
            # the crate's own drift-free interval (async-std backend): built from the parameter, first deadline = now
            site, s = own[0]
            vals = dict(zip(s["rv"]["fields"], s["rv"]["ops"]))
            okp = any(all(r["k"] == "arg" for r in f.origins(o)) and f.origins(o) for o in vals.values())
            okn = any(any(r["k"] == "call" and r["call"].matches(r"Instant::now$") for r in f.origins(o)) for o in vals.values())
            run.check(okp and okn, "builds-interval", "interval() builds the crate's own Interval{period, next_tick: now}", "own Interval not built from (period, now)", f.where())
            ticks = [g for g in db.crate_fns("ractor") if re.search(r"concurrency::\w+::Interval::tick::\{closure#0\}$", g.id)]
            run.anchor("own Interval::tick", len(ticks), 1)
            for g in ticks:
                st = [(si, x) for si, x in g.stmts() if x["k"] == "assign" and "next_tick" in [proj_field_name(e) for e in x["lhs"][1] if e.startswith("f:")]]
                adds = [c for c in g.calls() if c.matches(r"AddAssign<\S+>>::add_assign$|ops::AddAssign|Add<\S+>>::add$")]
                good = False
                for c in adds:
                    a = [proj_field_name(e) for r in g.origins(c.args[0]) for e in r.get("proj", []) + r.get("trail", []) if e.startswith("f:")]
                    b = [proj_field_name(e) for r in g.origins(c.args[1]) for e in r.get("proj", []) + r.get("trail", []) if e.startswith("f:")]
                    if "next_tick" in a and "dur" in b:
                        good = True
                run.check(good, "own-tick-drift-free", "tick() advances the deadline by `next_tick += dur` (previous deadline + period, not now + period)", "tick() does not advance the previous deadline by the period (drift)", g.where())
            continue
        other = [c for c in cs if c not in ctor]
        mut = [c for c in other if any("Interval" in f.local_ty(op_place(a)[0]) for a in c.args if op_place(a))]
        run.check(len(ctor) == 1, "builds-interval", "interval() builds the runtime's interval timer (%s)" % [c.name for c in ctor], "interval() no longer builds an interval timer", f.where())
        run.check(not mut, "not-reconfigured", "the timer is returned as built (missed-tick behaviour left at the drift-free default)", "interval() reconfigures the timer with %s: a late poll shifts every later tick" % [c.name for c in mut], f.where())
        if ctor:
            roots = f.origins(ctor[0].args[0])
            run.check(all(r["k"] == "arg" for r in roots) and roots, "period-param", "built from the parameter", "period not the parameter", f.where())


def r6(run, db):
    """`aborting a timer handle before it fires prevents delivery` is what the crate itself relies on wherever it *re-arms* a
    stored timer: dropping a JoinHandle detaches the task, it does not cancel it.  Every overwrite of a field that stores a
    timer handle (type Option<JoinHandle<..>>) with a new timer must be preceded, on every path, by an abort of the old one."""
    n = 0
    for k, a in db.adts.items():
        if a.get("crate") != "ractor" or not a["variants"] or "::tests::" in k:
            continue
        for fld in a["variants"][0]["fields"]:
            if not re.search(r"^std::option::Option<.*JoinHandle<", fld["ty"]):
                continue
            fname = fld["name"]
            # helper(s) that abort the stored handle
            aborters = set()
            for g in db.crate_fns("ractor"):
                if (g.file or "") != (a.get("file") or ""):
                    continue
                for c in g.calls():
                    if c.matches(r"JoinHandle::<T>::abort$|JoinHandle<T>::abort$|::abort$"):
                        names = [proj_field_name(e) for r in g.origins(c.args[0], through=lambda cc: 0 if cc.matches(r"Option::<T>::as_mut$|Option::<T>::as_ref$|Option::<T>::take$|Deref|unwrap") else None) for e in r.get("proj", []) + r.get("trail", []) if e.startswith("f:")]
                        if fname in names:
                            aborters.add(g.id)
            for g in db.crate_fns("ractor"):
                if (g.file or "") != (a.get("file") or "") or "::tests::" in g.id:
                    continue
                for site, st in g.stmts():
                    if st["k"] != "assign" or fname not in [proj_field_name(e) for e in st["lhs"][1] if e.startswith("f:")]:
                        continue
                    # a store of a *new* timer (Some(..) / a call result), not the clearing `= None`
                    v = None
                    if st["rv"]["k"] == "agg":
                        v = st["rv"].get("variant")
                    elif st["rv"]["k"] == "use":
                        for r in g.origins(st["rv"]["op"]):
                            if r["k"] == "agg":
                                v = r["stmt"]["rv"].get("variant")
                            elif r["k"] == "call":
                                v = "call"
                    if v in (None, "None"):
                        continue
                    # only fields that hold *timers*: the new value is (Some of) the result of one of the crate's timer functions
                    TIMER = r"::(send_after|send_interval|exit_after|kill_after)$"
                    def from_timer(op, depth=0):
                        for r in g.origins(op):
                            if r["k"] == "call" and r["call"].matches(TIMER):
                                return True
                            # `opt.as_ref().map(|cfg| cell.send_after(..))`: the timer is armed inside the mapping closure
                            if r["k"] == "call" and r["call"].matches(r"Option::<T>::(map|and_then)$|bool>::then$|<impl bool>::then$") and len(r["call"].args) > 1:
                                for r2 in g.origins(r["call"].args[1]):
                                    if r2["k"] == "agg" and r2["stmt"]["rv"].get("kind") == "closure":
                                        for h in db.family(r2["stmt"]["rv"]["def"]):
                                            if any(x.matches(TIMER) for x in h.calls()):
                                                return True
                            if r["k"] == "agg" and depth < 2 and any(from_timer(o, depth + 1) for o in r["stmt"]["rv"]["ops"]):
                                return True
                        return False
                    src = st["rv"]["op"] if st["rv"]["k"] == "use" else None
                    is_timer = (src is not None and from_timer(src)) or (st["rv"]["k"] == "agg" and any(from_timer(o) for o in st["rv"]["ops"]))
                    if not is_timer:
                        continue
                    n += 1
                    ab = [c.site for c in g.calls() if (c.callee in aborters) or c.matches(r"JoinHandle::<T>::abort$")]
                    good = bool(ab) and any(g.dominates(x, site) for x in ab)
                    if not good:
                        # `if let Some(old) = self.field.take() { old.abort() }`: the field is emptied first and the old timer, if
                        # there was one, is aborted on the way to the store
                        for tk in g.calls():
                            if not tk.matches(r"Option::<T>::take$") or not g.dominates(tk.site, site):
                                continue
                            names = [proj_field_name(e) for r in g.origins(tk.args[0]) for e in r.get("proj", []) + r.get("trail", []) if e.startswith("f:")]
                            if fname not in names:
                                continue
                            se = nested_variant_edge(g, tk, ["Some"])
                            if se and ab and g.must_pass(Site(se[1], 0), ab, to_sites=[site]):
                                good = True
                    run.check(good, "timer-handle-overwrite:%s.%s@%s" % (k.split("::")[-1], fname, g.id.split("::")[-1]), "%s re-arms `%s` only after aborting the timer stored there" % (g.id.split("::")[-1], fname),
                              "%s overwrites the stored timer handle `%s` without aborting the old timer: dropping a JoinHandle detaches the task, so the superseded timer still fires at its old due time" % (g.id.split("::")[-1], fname), g.where(st.get("l")))
    run.anchor("re-armed timer handle stores", n, 1)


Q = ["dflt"]
TH = ["dflt", "rc", "atr", "astd"]
RULES = [{"id": "C12.R%d" % i, "fn": f, "quick": Q, "thorough": TH} for i, f in enumerate([r1, r2, r3, r4, r5, r6], 1)]

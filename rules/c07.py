"""C07 -- Drain processes everything accepted and admits nothing afterwards (structural clauses only)."""
import re
from .model import *
from .facts import Site, op_place, Call, proj_field_name
from .bits import sym, show, cmp_tests, is_masked
from . import c06

EXPLANATION = ("decides necessary structural conditions only: the shape every step of the lock-free admission/drain handshake must have -- admission is a "
               "CAS loop whose closed-bit test is re-evaluated on every value that can reach the CAS `current` operand and whose new value is current+1; "
               "the ticket (RAII) outlives the enqueue in both send paths; its Drop decrements with an RMW and attempts the marker only when the "
               "*previous* value had the closed bit and count 1; the drain marker is constructed and enqueued in one body only, behind the Ok edge of a "
               "CAS that sets the marker bit on a value tested closed, count 0, marker clear; drain = close, then monotone status publish, then marker "
               "attempt; the loop maps the marker to stop(\"Drained\"); refused sends hand the message back. NOT decided: correctness of the handshake "
               "over all interleavings of its atomic steps (a model-checking question; this family does not answer it).")
TRUSTED = ["atomic RMW/CAS semantics of std::sync::atomic", "tokio mpsc is FIFO and lossless"]
ASSUMPTIONS = ["interleaving-level correctness of the admission protocol is NOT decided here (see level_note)"]

DOC = {
 "C07.R1": "drain: close admission, then publish Draining (monotone fetch_update), then attempt the marker -- in dominance order, each unconditional",
 "C07.R2": "marker emitter: the only body that builds/enqueues MuxedMessage::Drain; enqueue on the Ok edge of a CAS(current -> current | MARKER) dominated by closed-set, count==0, marker-clear tests on that same `current`; every redefinition of `current` re-enters the tests",
 "C07.R3": "admission: CAS(current -> current+1); the closed-bit test is applied to `current` and lies on every path from any (re)definition of `current` to the CAS; ticket built only on the CAS Ok edge; no other writer increments the word",
 "C07.R4": "ticket Drop: RMW decrement by 1; marker attempt guarded by closed-bit-set and count==1 on the RMW's returned (previous) value",
 "C07.R5": "both send paths: status gate (>= Draining -> Err) dominates admission dominates enqueue; the ticket is bound to a local that is dropped only after the enqueue",
 "C07.R6": "refused sends return SendErr(original message); the message loop maps the marker to stop(Some(\"Drained\"))",
 "C07.R8": "drain before the loop is up: drain() has no status precondition, therefore the start gate of each runtime admits Draining and link()'s child-side gates admit Draining (a drained cell still starts, works off its mailbox and stops with Drained)",
 "C07.R7": "typed and serialized send paths agree on the gate/ticket/enqueue skeleton (sibling cross-check)",
}


class Adm:
    """roles of the admission protocol"""
    def __init__(self, run, db):
        self.db = db
        props = run.need(db.adt("ractor::actor::actor_properties::ActorProperties") or next((a for k, a in db.adts.items() if k.endswith("::ActorProperties")), None), "ActorProperties ADT")
        fields = props["variants"][0]["fields"]
        au = [f["name"] for f in fields if re.search(r"AtomicUsize|Atomic<usize>", f["ty"])]
        a8 = [f["name"] for f in fields if re.search(r"AtomicU8|Atomic<u8>", f["ty"])]
        if len(au) != 1 or len(a8) != 1:
            raise AnchorLost("admission word / status word fields: %s %s" % (au, a8))
        self.word, self.status = au[0], a8[0]
        self.ops = []      # (fn, Call, method)
        for f in db.crate_fns("ractor"):
            for c in f.calls():
                m = re.search(r"atomic::Atomic::<usize>::(\w+)$|atomic::AtomicUsize::(\w+)$", c.callee or "")
                if not m:
                    continue
                names = [proj_field_name(e) for r in f.origins(c.args[0]) for e in r.get("proj", []) + r.get("trail", []) if e.startswith("f:")]
                if self.word in names:
                    self.ops.append((f, c, m.group(1) or m.group(2)))
        self.emitters = [f for f in db.crate_fns("ractor") if f.aggregates(adt="MuxedMessage", variant="Drain")]
        self.ticket_adt = None
        for im in db.impls:
            if im.get("trait", "").endswith("ops::Drop") and im.get("crate") == "ractor":
                for it in im["items"]:
                    f = db.fns.get(it)
                    if f and any(ff.id == f.id and meth.startswith("fetch_sub") for ff, c, meth in self.ops):
                        self.ticket_adt = im.get("self_adt")
                        self.ticket_drop = f
        if self.ticket_adt is None:
            raise AnchorLost("admission ticket (ADT whose Drop decrements the admission word)")
        self.admit = [f for f in db.crate_fns("ractor") if f.aggregates(adt=self.ticket_adt)]
        self.closers = [(f, c) for f, c, meth in self.ops if meth == "fetch_or"]
        if len(self.closers) != 1:
            raise AnchorLost("close-admission (fetch_or on the admission word): %d sites" % len(self.closers))
        f, c = self.closers[0]
        t = sym(f, c.args[1])
        if t[0] != "c":
            raise AnchorLost("closed mask constant")
        self.CLOSED = t[1]
        self.MARKER = None
        self.COUNT = None


def cas_calls(fn, adm):
    return [c for f, c, meth in adm.ops if f.id == fn.id and meth.startswith("compare_exchange")]


def cas_edges(fn, c):
    """(ok_edge, err_edge) of the switch on a CAS result"""
    sws = switches_on_value_of(fn, c)
    for s in sws:
        if s["path"] == [] and "Ok" in s["info"]["edges"]:
            return (s["site"].bb, s["info"]["edges"]["Ok"]), (s["site"].bb, s["info"]["edges"].get("Err"))
    return None, None


def r1(run, db):
    adm = Adm(run, db)
    dr = [f for f in db.crate_fns("ractor") if f.id.endswith("ActorProperties::drain")]
    run.anchor("ActorProperties::drain", len(dr), 1)
    d = dr[0]
    run.saw(len(d.blocks), d)
    closer_fn = adm.closers[0][0]
    close = [c for c in d.calls() if c.callee == closer_fn.id] or [c for f, c in adm.closers if f.id == d.id]
    upd = [c for c in d.calls() if re.search(r"Atomic::<u8>::fetch_(update|max)$|AtomicU8::fetch_(update|max)$", c.callee or "")]
    em = [c for c in d.calls() if adm.emitters and c.callee == adm.emitters[0].id]
    run.anchor("drain: close call", len(close), 1, d.where())
    run.anchor("drain: status update", len(upd), 1, d.where())
    run.anchor("drain: marker attempt", len(em), 1, d.where())
    if close and upd and em:
        run.check(d.dominates(close[0].site, upd[0].site) and d.dominates(upd[0].site, em[0].site), "close<status<marker",
                  "drain closes admission, then publishes the status, then attempts the marker", "drain's steps are out of order", d.where())
        for nm, c in (("close", close[0]), ("status", upd[0]), ("marker", em[0])):
            run.check(d.must_pass(d.entry(), [c.site]), "unconditional:" + nm, "drain's %s step is on every path" % nm, "drain's %s step can be skipped" % nm, c.where())
    c06.check_status_writers(run, db)


def r2(run, db):
    adm = Adm(run, db)
    run.check(len(adm.emitters) == 1, "single-emitter", "MuxedMessage::Drain is constructed in one body only (%s)" % [f.id for f in adm.emitters], "the drain marker is constructed in %d bodies" % len(adm.emitters))
    if not adm.emitters:
        return
    e = adm.emitters[0]
    run.saw(len(e.blocks), e)
    site, s = e.aggregates(adt="MuxedMessage", variant="Drain")[0]
    sends = [c for c in e.calls() if c.matches(r"UnboundedSender::<T>::send$|Sender::<T>::send$") and any(r["k"] == "agg" and r["site"] == site for r in e.origins(c.args[1]))]
    run.anchor("marker enqueue", len(sends), 1, e.where())
    cas = cas_calls(e, adm)
    run.check(len(cas) == 1, "emitter-cas", "the emitter wins the marker with one CAS on the admission word", "emitter has %d CAS on the admission word (a fetch_or/blind send cannot elect a unique emitter)" % len(cas), e.where())
    if not (sends and cas):
        return
    c = cas[0]
    ok, err = cas_edges(e, c)
    run.check(ok is not None and e.edge_dominates(ok, sends[0].site) and e.edge_dominates(ok, site), "enqueue-on-cas-ok", "the marker is built and enqueued only on the CAS Ok edge", "the marker can be enqueued without winning the CAS (duplicate markers)", sends[0].where())
    run.check(not e.in_cycle(sends[0].site) or True, "enqueue-once", "one enqueue per won CAS", None)
    cur, new = sym(e, c.args[1]), sym(e, c.args[2])
    okcur = cur[0] == "v"
    mk = None
    if new[0] == "bin" and new[1] == "BitOr":
        for x, y in ((new[2], new[3]), (new[3], new[2])):
            if x == cur and y[0] == "c":
                mk = y[1]
    run.check(okcur and mk is not None, "cas-new=cur|MARKER", "CAS(current=%s, new=%s)" % (show(cur), show(new)), "CAS new value is not `current | MARKER`: %s -> %s" % (show(cur), show(new)), c.where())
    if mk is None:
        return
    adm.MARKER = mk
    tests = cmp_tests(e)
    def find(pred):
        return [t for t in tests if pred(t)]
    is_cur = lambda t: t == cur
    closed_t = find(lambda t: t["op"] in ("Eq", "Ne") and is_masked(t["a"], is_cur, adm.CLOSED) and t["b"] == ("c", 0))
    marker_t = find(lambda t: t["op"] in ("Eq", "Ne") and is_masked(t["a"], is_cur, mk) and t["b"] == ("c", 0))
    count_t = find(lambda t: t["op"] in ("Eq", "Ne") and t["a"][0] == "bin" and t["a"][1] == "BitAnd" and t["b"] == ("c", 0) and t not in closed_t and t not in marker_t and (t["a"][2] == cur or t["a"][3] == cur))
    for nm, ts, want_set in (("closed-set", closed_t, True), ("count==0", count_t, False), ("marker-clear", marker_t, False)):
        good = False
        for t in ts:
            # edge on which (word & mask) != 0 is `want_set`
            e_set = t["true_edge"] if t["op"] == "Ne" else t["false_edge"]
            e_clr = t["false_edge"] if t["op"] == "Ne" else t["true_edge"]
            edge = e_set if want_set else e_clr
            if edge and e.edge_dominates(edge, c.site):
                good = True
        run.check(good, "cas-behind:" + nm, "the CAS is dominated by the %s edge of a test on its own `current`" % nm, "the marker CAS is not guarded by %s on the value it compares against" % nm, c.where())
    if count_t:
        cm = count_t[0]["a"][3] if count_t[0]["a"][2] == cur else count_t[0]["a"][2]
        run.check(cm[0] == "c" and cm[1] == mk - 1, "count-mask", "count mask = MARKER-1 (all bits below the marker bit)", "count mask %s is not MARKER-1" % show(cm), e.where())
    # every redefinition of `current` re-enters the tests
    if okcur:
        tsites = [t["site"] for t in closed_t]
        for dsite, kind, payload in e.defs().get(cur[1], []):
            nxt = e.site_succ(dsite)
            good = bool(tsites) and all(e.must_pass(n, tsites, to_sites=[c.site]) for n in nxt)
            run.check(good, "retest-after-redef", "every (re)definition of `current` passes the closed test again before the CAS", "a stale `current` can reach the marker CAS without being re-tested", e.where(payload.get("l")))
    # who calls the emitter: drain and the ticket's Drop
    callers = set(db.root_of(x.fn).id for x in db.calls_of(e.id))
    run.check(callers <= {adm.ticket_drop.id} | set(f.id for f in db.crate_fns("ractor") if f.id.endswith("ActorProperties::drain")), "emitter-callers", "the emitter is called only by drain and the ticket's Drop: %s" % sorted(callers), "unexpected caller of the marker emitter: %s" % sorted(callers))


def r3(run, db):
    adm = Adm(run, db)
    run.check(len(adm.admit) == 1, "single-admit", "tickets are constructed in one body only (%s)" % [f.id for f in adm.admit], "tickets are constructed in %d bodies" % len(adm.admit))
    if not adm.admit:
        return
    a = adm.admit[0]
    run.saw(len(a.blocks), a)
    cas = cas_calls(a, adm)
    run.check(len(cas) == 1, "admit-cas", "admission increments through one CAS", "admission does not use exactly one CAS on the word (found %d): test-and-increment is not atomic" % len(cas), a.where())
    if not cas:
        return
    c = cas[0]
    cur, new = sym(a, c.args[1]), sym(a, c.args[2])
    run.check(cur[0] == "v" and new == ("bin", "Add", cur, ("c", 1)), "cas-new=cur+1", "CAS(current=%s, new=%s)" % (show(cur), show(new)), "admission CAS is not current -> current+1: %s -> %s" % (show(cur), show(new)), c.where())
    ok, err = cas_edges(a, c)
    tsite = [s for s, st in a.aggregates(adt=adm.ticket_adt)]
    run.check(ok is not None and all(a.edge_dominates(ok, s) for s in tsite), "ticket-on-ok", "a ticket exists only on the CAS Ok edge", "a ticket can be created without a successful CAS", a.where())
    tests = cmp_tests(a)
    closed_t = [t for t in tests if t["op"] in ("Eq", "Ne") and is_masked(t["a"], lambda x: x == cur, adm.CLOSED) and t["b"] == ("c", 0)]
    run.check(len(closed_t) >= 1, "closed-test", "admission tests the closed bit of `current`", "admission never tests the closed bit on the value it CASes against", a.where())
    if closed_t and cur[0] == "v":
        t = closed_t[0]
        e_clr = t["false_edge"] if t["op"] == "Ne" else t["true_edge"]
        run.check(e_clr and a.edge_dominates(e_clr, c.site), "cas-on-open", "the CAS is dominated by the closed-bit-clear edge", "CAS reachable with the closed bit set", c.where())
        for dsite, kind, payload in a.defs().get(cur[1], []):
            nxt = a.site_succ(dsite)
            good = all(a.must_pass(n, [t["site"]], to_sites=[c.site]) for n in nxt)
            run.check(good, "retest-after-redef@%s" % kind, "every (re)definition of `current` (initial load, CAS failure) passes the closed test before the CAS",
                      "after a failed CAS the refreshed word reaches the next CAS without the closed test: a sender can be admitted after drain closed admission", a.where(payload.get("l")))
        e_set = t["true_edge"] if t["op"] == "Ne" else t["false_edge"]
        nones = [s for s, st in a.aggregates(adt="std::option::Option", variant="None")]
        run.check(e_set and any(a.edge_dominates(e_set, s) for s in nones), "closed->None", "closed bit set -> None (refused)", None, a.where())
    # no other incrementing writer
    for f, cc, meth in adm.ops:
        okm = meth in ("load", "fetch_or", "fetch_sub") or meth.startswith("compare_exchange")
        run.check(okm, "word-op:%s:%s" % (f.id, meth), "%s uses %s on the admission word" % (f.id, meth), "%s applies %s to the admission word (only load, fetch_or(CLOSED), fetch_sub(1) in the ticket Drop and the two CAS are part of the protocol)" % (f.id, meth), cc.where())
        if meth == "fetch_sub":
            run.check(f.id == adm.ticket_drop.id, "decrement-only-in-drop:%s" % f.id, "decrement happens in the ticket's Drop", "the admission count is decremented outside the ticket's Drop (bypasses the deferred marker)", cc.where())
    run.anchor("admission word operations", len(adm.ops), 6)


def r4(run, db):
    adm = Adm(run, db)
    d = adm.ticket_drop
    run.saw(len(d.blocks), d)
    subs = [c for f, c, meth in adm.ops if f.id == d.id and meth == "fetch_sub"]
    run.check(len(subs) == 1 and sym(d, subs[0].args[1]) == ("c", 1) and d.must_pass(d.entry(), [subs[0].site]), "rmw-decrement", "Drop always decrements by exactly 1 with an RMW", "ticket Drop does not always fetch_sub(1)", d.where())
    if not subs:
        return
    prev = ("call", subs[0], ())
    em = [c for c in d.calls() if adm.emitters and c.callee == adm.emitters[0].id]
    run.anchor("Drop: marker attempt", len(em), 1, d.where())
    if not em:
        return
    tests = cmp_tests(d)
    def on_prev(t):
        return t[0] == "call" and t[1].bb == subs[0].bb
    closed = [t for t in tests if is_masked(t["a"], on_prev, adm.CLOSED) and t["b"] == ("c", 0)]
    good = False
    for t in closed:
        e_set = t["true_edge"] if t["op"] == "Ne" else t["false_edge"]
        if e_set and d.edge_dominates(e_set, em[0].site):
            good = True
    run.check(good, "attempt-if-closed", "marker attempt only if the previous value had the closed bit", "marker attempt not guarded by the closed bit of the RMW's previous value", em[0].where())
    cnt = [t for t in tests if t["a"][0] == "bin" and t["a"][1] == "BitAnd" and (on_prev(t["a"][2]) or on_prev(t["a"][3])) and t["b"] == ("c", 1) and t["op"] == "Eq"]
    good = any(t["true_edge"] and d.edge_dominates(t["true_edge"], em[0].site) for t in cnt)
    run.check(good, "attempt-if-last", "marker attempt only if the previous count was exactly 1 (this was the last in-flight sender)", "marker attempt not guarded by previous-count == 1 (a constant other than 1, or a test on a re-loaded word, loses or duplicates the marker)", em[0].where())
    if cnt:
        m = cnt[0]["a"][3] if on_prev(cnt[0]["a"][2]) else cnt[0]["a"][2]
        run.check(m[0] == "c" and m[1] & adm.CLOSED == 0 and m[1] & (m[1] + 1) == 0, "count-mask", "count mask %s is a low-bit mask disjoint from the closed bit" % show(m), "count mask malformed", d.where())


def send_paths(db, adm):
    """bodies that acquire a ticket and enqueue a MuxedMessage::Message"""
    out = []
    for f in db.crate_fns("ractor"):
        if adm.admit and f.calls_to(adm.admit[0].id) and f.aggregates(adt="MuxedMessage", variant="Message"):
            out.append(f)
    return out


def r5(run, db):
    adm = Adm(run, db)
    sp = send_paths(db, adm)
    run.anchor("send paths", len(sp), 2 if db.tag in ("rc", "clus", "rcatr", "ws") else 1)
    for f in sp:
        run.saw(len(f.blocks), f)
        key = f.id.split("::")[-1]
        adms = f.calls_to(adm.admit[0].id)
        enq = [c for c in f.calls() if c.matches(r"UnboundedSender::<T>::send$")]
        run.check(len(adms) == 1 and len(enq) == 1, key + "|shape", "one admission, one enqueue", "send path shape: %d admissions, %d enqueues" % (len(adms), len(enq)), f.where())
        if not (adms and enq):
            continue
        a, q = adms[0], enq[0]
        gates = status_gates_at(f, a.site)
        admit = admitted_statuses(gates)
        late = [v for v in admit if v in ("Draining", "Stopping", "Stopped")]
        run.check(bool(gates) and not late, key + "|gate<admit", "admission is attempted only while the status is %s (%s)" % (admit, show_gates(gates)),
                  "admission is %s: a %s actor still takes new messages" % ("not behind a fresh status gate" if not gates else "reachable under %s" % show_gates(gates), late or "draining/stopping"), a.where())
        early = [v for v in ("Unstarted", "Starting", "Running", "Upgrading") if v not in admit]
        run.check(not early, key + "|gate-admits-live", "the gate admits every pre-drain status (messages sent before start are queued)", "the status gate refuses messages while the actor is %s" % early, a.where())
        some = nested_variant_edge(f, a, ["Some"])
        run.check(some is not None and f.edge_dominates(some, q.site), key + "|admit<enqueue", "the enqueue is dominated by the Some(ticket) edge of admission", "enqueue without a ticket", q.where())
        run.check(not f.in_cycle(q.site), key + "|enqueue-once", "the enqueue is not in a cycle (at most one enqueue per send)", "enqueue inside a cycle", q.where())
        # ticket liveness: the Some payload must be moved into a local that is still initialised at the enqueue, and all its drops come after the enqueue
        # the Option returned by the admission may be moved as a whole a few times (through a helper's return slot) before
        # its Some payload is bound
        whole = {a.dest[0]}
        for _ in range(4):
            for site, s in f.stmts():
                if s["k"] == "assign" and s["rv"]["k"] == "use" and not s["lhs"][1]:
                    p = op_place(s["rv"]["op"])
                    if p and p[0] in whole and not p[1] and s["rv"]["op"]["k"] == "move":
                        whole.add(s["lhs"][0])
        holders = []
        for site, s in f.stmts():
            if s["k"] == "assign" and s["rv"]["k"] == "use":
                p = op_place(s["rv"]["op"])
                if p and p[0] in whole and any(e.startswith("d:1") for e in p[1]) and s["rv"]["op"]["k"] == "move":
                    holders.append(s["lhs"][0])
        # the bound ticket may be moved on as a whole (`Some(admission) => admission` binds, then initialises `_admission`)
        for _ in range(4):
            for site, s in f.stmts():
                if s["k"] == "assign" and s["rv"]["k"] == "use" and not s["lhs"][1] and s["rv"]["op"].get("k") == "move":
                    p = op_place(s["rv"]["op"])
                    if p and p[0] in holders and not p[1] and s["lhs"][0] not in holders:
                        holders.append(s["lhs"][0])
        live = [h for h in holders if f.maybe_init_at(h, q.site)]
        run.check(len(live) >= 1, key + "|ticket-alive-at-enqueue", "the admission ticket is bound to local _%s which is still alive at the enqueue" % (live[0] if live else "?"),
                  "the admission ticket is not held across the enqueue (e.g. `let Some(_) = ..` drops it at once): a drain between admission and enqueue emits the marker before this message", q.where())
        if not live:
            # the temporary Option is dropped before the enqueue
            continue
        for h in live:
            for dsite, t in f.drops():
                if t["p"][0] == h and not t["p"][1]:
                    run.check(not f.reaches_after(dsite, q.site), key + "|ticket-not-dropped-before-enqueue", "no drop of the ticket lies on a path to the enqueue", "the ticket can be dropped before the enqueue", f.where(t.get("l")))


def r6(run, db):
    adm = Adm(run, db)
    for f in send_paths(db, adm):
        key = f.id.split("::")[-1]
        # every Err(SendErr(x)) built here hands back the parameter
        n = 0
        for site, s in f.aggregates(adt="MessagingErr", variant="SendErr"):
            n += 1
            thr_ = lambda cc: 0 if cc.matches(r"Message::from_boxed$|Result::<T, E>::unwrap$|Option::<T>::unwrap$|Result::<T, E>::expect$") else None
            roots = f.origins(s["rv"]["ops"][0], through=thr_)
            # (the channel's own refusal, written out in the body, hands back what its send() returned in Err: see C02.R2)
            from_chan = lambda r: r["k"] == "call" and r["call"].matches(r"UnboundedSender::<T>::send$") and any(e.startswith("d:1") for e in r.get("proj", []))
            run.check(all((r["k"] == "arg" and r["local"] == 2) or from_chan(r) for r in roots) and roots, key + "|handback", "SendErr carries the original message parameter", "SendErr carries something other than the message parameter", f.where(s.get("l")))
        run.anchor(key + " SendErr constructions", n, 1, f.where())        # one per refusal, or one shared by the refusals
        adms = f.calls_to(adm.admit[0].id)
        if adms:
            errs = [site for site, s in f.aggregates(adt="MessagingErr", variant="SendErr")]
            ne = nested_variant_edge(f, adms[0], ["None"])
            # the complement of the admission gate: some SendErr is built exactly where the status forbids admission
            okg = False
            for e in errs:
                gs = status_gates_at(f, e)
                if gs and set(admitted_statuses(gs)) <= {"Draining", "Stopping", "Stopped"}:
                    okg = True
            if not okg:
                # one refusal shared by both gates: every path from a refusing status edge builds SendErr(message) before the
                # function returns (and does not reach the enqueue)
                late = {"Draining", "Stopping", "Stopped"}
                for t_ in status_tests(f):
                    if not any(r["k"] == "call" and (r["call"].is_("get_status")) for r in t_["subject"]):
                        continue
                    for edge_, pol in ((t_["true_edge"], True), (t_["false_edge"], False)):
                        if not edge_:
                            continue
                        adm_ = set(v for v in STATUS_ORDER if status_sat(t_["op"], t_["const"], v) == pol)
                        if adm_ and adm_ <= late and all_paths_from_edge_pass(f, edge_, errs):
                            okg = True
            run.check(okg, key + "|gate->SendErr", "the refusing edge of the status gate builds SendErr(message)", "a refused send (status) does not hand the message back", f.where())
            okc = bool(ne and any(f.edge_dominates(ne, e) for e in errs))
            if not okc:
                # the admission's refusal may have been merged with the status refusal into one Option: every path from the
                # refusing edge of the admission builds SendErr(message)
                ne2 = ne
                if ne2 is None:
                    tb_ = [b_ for b_ in try_branches_on(f, adms[0]) if b_.get("break_edge")]
                    ne2 = tb_[0]["break_edge"] if len(tb_) == 1 else None
                okc = bool(ne2 and all_paths_from_edge_pass(f, ne2, errs))
            run.check(okc, key + "|closed->SendErr", "refused admission -> SendErr(message)", "a refused send (closed admission) does not hand the message back", f.where())
    m = model(db)
    for rt in m.runtimes():
        pb = m.proc_body(rt)
        lf = [f for f, cor, s in m.listen_fns()]
        lcalls = [c for c in pb.calls() if c.callee in [f.id for f in lf]]
        aw = await_of_call(pb, lcalls[0]) if lcalls else []
        if not aw:
            run.fail("%s|listen" % rt, "listen await not found")
            continue
        e = nested_variant_edge(pb, aw[0].poll, ["Ready", "Ok", "Message", "Drain"])
        from .c03 import loop_result_ctors
        from .c04 import const_strings
        ctors = loop_result_ctors(db)
        stops = [c for c in pb.calls() if c.callee in ctors and ctors[c.callee][0][0] == "stop"]
        on = [c for c in stops if e and pb.edge_dominates(e, c.site)]
        run.check(len(on) == 1 and const_strings(pb, on[0].args[0]) == ['"Drained"'], "%s|Drain->stop(Drained)" % rt, "the drain marker maps to ActorLoopResult::stop(Some(\"Drained\"))",
                  "the drain marker does not map to stop(Some(\"Drained\"))", pb.where())
        hs = [c.site for h in ("handle", "handle_supervisor_evt") for c in m.sink_calls_for(rt + "." + h) if c.fn.id == pb.id]
        run.check(e is not None and not (edge_path_sites(pb, [e]) & set(hs)), "%s|Drain-no-handler" % rt, "no handler starts on the marker edge", None, pb.where())


def r7(run, db):
    adm = Adm(run, db)
    sp = send_paths(db, adm)
    if len(sp) < 2:
        run.ok("single-path", "only the typed send path exists in this configuration")
        return
    def skel(f):
        ev = []
        for c in sorted(f.calls(), key=lambda c: (c.line or 0, c.bb)):
            if c.is_("get_status"):
                ev.append("status")
            elif c.callee == adm.admit[0].id:
                ev.append("admit")
            elif c.matches(r"UnboundedSender::<T>::send$"):
                ev.append("enqueue")
        held = []
        for site, s in f.stmts():
            if s["k"] == "assign" and s["rv"]["k"] == "use":
                p = op_place(s["rv"]["op"])
                if p and any(e.startswith("d:1") for e in p[1]) and "MessageAdmission" in f.local_ty(s["lhs"][0]):
                    held.append("ticket-bound")
        return ev + sorted(set(held))
    a, b = skel(sp[0]), skel(sp[1])
    run.check(a == b, "skeleton", "typed and serialized send agree: %s" % a, "send paths diverge: %s=%s vs %s=%s" % (sp[0].id.split("::")[-1], a, sp[1].id.split("::")[-1], b))


def link_child_gates(run, db):
    """[(insertion call, child-side status gates dominating it, statuses of the child they admit)] for every insertion into a
    child set in SupervisionTree::link.  When the body shows no child-side gate at all (the test may sit in a local closure or a
    private helper) the same question is put to the views that splice those in, so that a hidden test is not mistaken for none."""
    out = []
    dbs = [db]
    if getattr(db, "inline_mode", None) is None:
        dbs += [v for v in (run.view_db(db, w) for w in ("new+c", "aggr+c")) if v is not None]
    for k, d in enumerate(dbs):
        link = d.one(r"SupervisionTree::link$")
        if link is None:
            continue
        ins = [c for c in link.calls() if c.matches(r"HashMap::<K, V, S, A>::insert$")]
        res = []
        for c in ins:
            child_g = []
            for g, pol in status_gates_at(link, c.site):
                for r in g["subject"]:
                    if r["k"] == "call" and 1 in link.origin_args(r["call"].args[0]):
                        child_g.append((g, pol))
            res.append((c, child_g, admitted_statuses(child_g)))
        if k == 0:
            run.anchor("link child-map insertions", len(ins), 1, link.where())
            out = res
        if res and all(g for _, g, _ in res):
            return res
    return out


def r8(run, db):
    """a drain that lands before the message loop is up must not abort the start-up: the messages accepted so far are in the
    mailbox, the marker behind them, and only a started actor can work them off and stop with "Drained".  drain() publishes
    Draining from any earlier status (it has no precondition), so (a) start() has to let a Draining cell through and (b) the
    tree has to accept a Draining *child* when start() links it."""
    m = model(db)
    # premise: from which statuses does drain() publish Draining?  (status word = fetch_update with a guarded closure)
    from .c06 import status_ops
    from .bits import cmp_tests, sym
    early = []
    npub = 0
    for f, c, meth in status_ops(db):
        if not re.search(r"ActorProperties::drain$", f.id) or meth != "fetch_update":
            continue
        for r in f.origins(c.args[3]):
            if not (r["k"] == "agg" and r["stmt"]["rv"].get("kind") == "closure"):
                continue
            cl = db.fns.get(r["stmt"]["rv"]["def"])
            if cl is None:
                continue
            for site, st in cl.aggregates(adt="std::option::Option", variant="Some"):
                k2 = sym(cl, st["rv"]["ops"][0])
                if k2[0] != "c" or k2[1] != STATUS_ORDER.index("Draining"):
                    continue
                npub += 1
                adm = []
                for v in range(len(STATUS_ORDER)):
                    ok = True
                    for t in cmp_tests(cl):
                        a, b, op = t["a"], t["b"], t["op"]
                        if not (a[0] == "arg" and b[0] == "c"):
                            continue
                        val = {"Lt": v < b[1], "Le": v <= b[1], "Eq": v == b[1], "Ne": v != b[1], "Ge": v >= b[1], "Gt": v > b[1]}.get(op)
                        if val is None:
                            continue
                        if t["true_edge"] and cl.edge_dominates(t["true_edge"], site) and not val:
                            ok = False
                        if t["false_edge"] and cl.edge_dominates(t["false_edge"], site) and val:
                            ok = False
                    if ok:
                        adm.append(STATUS_ORDER[v])
                early += [v for v in ("Unstarted", "Starting") if v in adm]
    run.anchor("drain's status publication", npub, 1)
    if not early:
        run.ok("drain-needs-running", "drain() publishes Draining only for actors past start-up; nothing to show")
        return
    run.ok("drain-any-status", "drain() publishes Draining also while the actor is %s" % sorted(set(early)))
    for rt in m.runtimes():
        sb = m.start_body(rt)
        cs = [c for c in m.sink_calls_for(rt + ".pre_start")]
        run.anchor("%s pre_start race" % rt, len(cs), 1, sb.where())
        for c in cs:
            gs_ = status_gates_in_chain(db, sb, c.site)
            adm = admitted_statuses(gs_)
            run.check("Draining" in adm, "%s|start-admits-drained-cell" % rt, "start() lets a cell through that was drained before it started (admits %s)" % adm,
                      "start() admits only %s, but drain() can publish Draining on an Unstarted cell: the start-up then fails (\"already started\"), the mailbox with every accepted message is dropped and nobody ever sees \"Drained\"" % adm, c.where())
    for c, child_g, adm in link_child_gates(run, db):
        run.check("Draining" in adm, "link-admits-draining-child", "a Draining child can be linked (child-side gates admit %s)" % adm,
                  "link() refuses a child that is Draining (child-side gates admit %s): an actor drained during its own start-up fails to start (\"Supervisor is shutting down\") and its accepted messages are dropped" % adm, c.where())


Q = ["dflt", "rc"]
TH = ["dflt", "rc", "atr", "astd", "mon"]
RULES = [{"id": "C07.R%d" % i, "fn": f, "quick": Q, "thorough": TH} for i, f in enumerate([r1, r2, r3, r4, r5, r6, r7, r8], 1)]

"""Fact database over the driver's JSON dumps: bodies, CFGs, dominance, slicing, call graph.

Everything here is derived from the *type-checked, pre-coroutine-transform MIR* that the
rustc_private driver printed for /repo's current working tree.  No rule in this directory
matches source text or positions; line numbers are carried only for reports.
"""
import json, os, re, sys
from collections import defaultdict, deque

# ---------------------------------------------------------------------------------------
# places / operands helpers
# ---------------------------------------------------------------------------------------

def pl_local(p):
    return p[0]

def pl_proj(p):
    return p[1]

def proj_field_name(e):
    # "f:3:name" -> name ; "f:3" -> "3"
    parts = e.split(":")
    if parts[0] != "f":
        return None
    return parts[2] if len(parts) > 2 else parts[1]

def proj_variant_name(e):
    parts = e.split(":")
    if parts[0] != "d":
        return None
    return parts[2] if len(parts) > 2 else parts[1]

def place_str(p):
    s = "_%d" % p[0]
    for e in p[1]:
        if e == "*":
            s = "(*%s)" % s
        elif e.startswith("f:"):
            s += "." + proj_field_name(e)
        elif e.startswith("d:"):
            s += " as " + proj_variant_name(e)
        else:
            s += "[" + e + "]"
    return s

def op_place(op):
    if op and op.get("k") in ("copy", "move"):
        return op["p"]
    return None

def op_local(op):
    p = op_place(op)
    return p[0] if p else None

def op_is_const(op):
    return op.get("k") == "const"

def const_val(op):
    return op.get("val") if op.get("k") == "const" else None

def const_int(op):
    if op.get("k") == "const" and "int" in op:
        return int(op["int"])
    return None

def op_str(op):
    if op is None:
        return "?"
    if op["k"] in ("copy", "move"):
        return op["k"] + " " + place_str(op["p"])
    if op["k"] == "const":
        return "const " + op.get("val", "?")
    return op.get("text", "?")


class Site(tuple):
    """(bb, idx) -- idx == len(stmts) denotes the terminator."""
    __slots__ = ()
    def __new__(cls, bb, idx):
        return tuple.__new__(cls, (bb, idx))
    @property
    def bb(self):
        return self[0]
    @property
    def idx(self):
        return self[1]


class Call:
    __slots__ = ("fn", "bb", "term", "callee", "resolved", "gargs", "args", "dest", "target",
                 "line", "info", "func")
    def __init__(self, fn, bb, term):
        self.fn = fn
        self.bb = bb
        self.term = term
        self.func = term["func"]
        info = self.func.get("fn") if self.func.get("k") == "const" else None
        self.info = info or {}
        self.callee = self.info.get("def")          # None => indirect call
        self.resolved = self.info.get("resolved")
        self.gargs = self.info.get("gargs", [])
        self.args = term["args"]
        self.dest = term["dest"]
        self.target = term.get("target")
        self.line = term.get("l")
    @property
    def site(self):
        return Site(self.bb, len(self.fn.blocks[self.bb]["stmts"]))
    @property
    def name(self):
        return self.resolved or self.callee or "<indirect>"
    @property
    def self_ty(self):
        return self.info.get("self_ty") or self.info.get("impl_self")
    @property
    def trait(self):
        return self.info.get("trait") or self.info.get("impl_trait")
    def is_(self, *names):
        """callee or resolved callee equals / ends with one of names"""
        for n in names:
            for c in (self.callee, self.resolved):
                if c and (c == n or c.endswith("::" + n)):
                    return True
        return False
    def matches(self, rx):
        for c in (self.callee, self.resolved):
            if c and re.search(rx, c):
                return True
        return False
    def where(self):
        return "%s:%s" % (self.fn.file, self.line)
    def __repr__(self):
        return "<call %s @%s bb%d>" % (self.name, self.where(), self.bb)


class Fn:
    def __init__(self, db, raw):
        self.db = db
        self.raw = raw
        self.id = raw["id"]
        self.kind = raw["kind"]
        self.parent = raw.get("parent")
        self.file = raw.get("file")
        self.lo = raw.get("lo")
        self.hi = raw.get("hi")
        self.locals = raw["locals"]
        self.debug = raw["debug"]
        self.blocks = raw["blocks"]
        self.arg_count = raw.get("arg_count", 0)
        self.from_expansion = raw.get("from_expansion", False)
        for b in self.blocks:
            b["stmts"] = [s for s in b["stmts"] if s["k"] not in ("live", "dead")]
        self._succ = None
        self._pred = None
        self._calls = None
        self._defs = None
        self._names = None
        self._reach_cache = {}

    # ---- meta ------------------------------------------------------------------------
    def __repr__(self):
        return "<fn %s>" % self.id
    def where(self, line=None):
        return "%s:%s" % (self.file, line if line is not None else self.lo)
    @property
    def short(self):
        return self.id
    def local_ty(self, i):
        return self.locals[i]["ty"]
    def local_name(self, i):
        if self._names is None:
            self._names = {}
            for d in self.debug:
                if not d["p"][1]:
                    self._names.setdefault(d["p"][0], d["name"])
        return self._names.get(i)
    def named_local(self, name):
        for d in self.debug:
            if d["name"] == name and not d["p"][1]:
                return d["p"][0]
        return None
    def named_place(self, name):
        for d in self.debug:
            if d["name"] == name:
                return d["p"]
        return None
    def locals_of_type(self, rx):
        return [i for i, l in enumerate(self.locals) if re.search(rx, l["ty"])]

    # ---- CFG (no unwind edges) ------------------------------------------------------
    def term(self, bb):
        return self.blocks[bb]["term"]
    def nstmts(self, bb):
        return len(self.blocks[bb]["stmts"])
    def term_site(self, bb):
        return Site(bb, self.nstmts(bb))
    def bsucc(self, bb):
        if self._succ is None:
            self._succ = []
            for b in self.blocks:
                t = b["term"]
                k = t["k"]
                out = []
                if k == "goto":
                    out = [t["target"]]
                elif k == "switch":
                    out = [x[1] for x in t["targets"]] + [t["otherwise"]]
                elif k in ("drop", "assert", "yield"):
                    out = [t["target"]]
                elif k == "call":
                    if "target" in t:
                        out = [t["target"]]
                # dedupe, keep order
                seen = []
                for o in out:
                    if o not in seen:
                        seen.append(o)
                self._succ.append(seen)
        return self._succ[bb]
    def bpred(self, bb):
        if self._pred is None:
            self._pred = [[] for _ in self.blocks]
            for i in range(len(self.blocks)):
                for s in self.bsucc(i):
                    self._pred[s].append(i)
        return self._pred[bb]
    def reachable_blocks(self, start=0, no_nodes=(), no_edges=()):
        no_nodes = set(no_nodes)
        no_edges = set(no_edges)
        if start in no_nodes:
            return set()
        seen = {start}
        dq = deque([start])
        while dq:
            b = dq.popleft()
            for s in self.bsucc(b):
                if s in seen or s in no_nodes or (b, s) in no_edges:
                    continue
                seen.add(s)
                dq.append(s)
        return seen
    def live_blocks(self):
        k = ("live",)
        if k not in self._reach_cache:
            self._reach_cache[k] = self.reachable_blocks(0)
        return self._reach_cache[k]

    # ---- site-level reachability / dominance -----------------------------------------
    # Graph nodes are Sites. Edges: (bb,i)->(bb,i+1); terminator -> (succ,0).
    def site_succ(self, s):
        bb, i = s
        if i < self.nstmts(bb):
            return [Site(bb, i + 1)]
        return [Site(t, 0) for t in self.bsucc(bb)]
    def reach(self, start, no_sites=(), no_edges=(), stop=None):
        """set of sites reachable from `start` (inclusive) without entering any site in
        no_sites and without taking block edges in no_edges."""
        no_sites = set(no_sites)
        no_edges = set(no_edges)
        if start in no_sites:
            return set()
        seen = {start}
        dq = deque([start])
        while dq:
            s = dq.popleft()
            bb, i = s
            if i < self.nstmts(bb):
                nxt = [Site(bb, i + 1)]
            else:
                nxt = [Site(t, 0) for t in self.bsucc(bb) if (bb, t) not in no_edges]
            for n in nxt:
                if n in seen or n in no_sites:
                    continue
                seen.add(n)
                dq.append(n)
        return seen
    # ---- feasibility: correlated branches on values built in this body -------------------
    _STD_VARIANTS = {"Ok": 0, "Err": 1, "None": 0, "Some": 1, "Continue": 0, "Break": 1}

    def _variant_index(self, adt, variant):
        a = self.db.adts.get(adt) if self.db is not None else None
        if a is not None:
            for i, v in enumerate(a.get("variants", [])):
                if v.get("name") == variant:
                    return v.get("discr", i) if isinstance(v.get("discr", i), int) else i
        if re.search(r"(^|::)(Result|Option|ControlFlow)$", adt or "") and variant in self._STD_VARIANTS:
            return self._STD_VARIANTS[variant]
        return None

    def feasible_blocks_from(self, start_bb, stop_blocks=()):
        """Blocks reachable from the head of `start_bb` when branches on values *constructed on the way* are followed
        consistently: a local assigned `Err(..)` / `Ok(..)` / `true` / `false` on the path keeps that variant through moves,
        `Try::branch`, `discriminant()`, and a switch on it takes only the matching edge.  Everything not tracked is
        unknown (all edges feasible): the result over-approximates the feasible paths and is a subset of plain reachability."""
        # locals that are ever mutably borrowed (or whose address is taken) can change variant behind the analysis' back
        # (`opt.take()`): never tracked
        volatile = self.volatile_locals()
        states = {start_bb: {}}
        work = deque([start_bb])
        def join(a, b):
            return {k: v for k, v in a.items() if b.get(k) == v}
        def simple(op):
            pl = op_place(op)
            if pl is not None and not pl[1]:
                return pl[0]
            return None
        while work:
            bb = work.popleft()
            st = dict(states[bb])
            b = self.blocks[bb]
            for s in b["stmts"]:
                if s["k"] != "assign":
                    continue
                l, proj = s["lhs"]
                if proj:
                    if "*" in proj:
                        pass
                    continue
                rv = s["rv"]
                val = None
                if rv["k"] == "agg" and rv.get("kind") == "adt" and rv.get("variant") is not None:
                    vi = rv.get("vidx") if isinstance(rv.get("vidx"), int) else self._variant_index(rv.get("adt"), rv.get("variant"))
                    if vi is not None:
                        # remember what a single payload is known to be (`Poll::Ready(Err(e))`)
                        inner = None
                        if len(rv.get("ops", [])) == 1:
                            src = simple(rv["ops"][0])
                            if src is not None and src in st:
                                inner = st[src]
                        val = ("v", vi, inner)
                elif rv["k"] == "use":
                    op = rv["op"]
                    if op.get("k") == "const" and op.get("val") in ("true", "false") and op.get("ty") == "bool":
                        val = ("i", 1 if op["val"] == "true" else 0)
                    else:
                        src = simple(op)
                        if src is not None and src in st:
                            val = st[src]
                        elif src is None:
                            # `(x as Ready).0` of a value whose payload is known
                            pl = op_place(op)
                            if pl is not None and len(pl[1]) == 2 and pl[1][0].startswith("d:") and pl[1][1].startswith("f:0") and pl[0] in st:
                                b_ = st[pl[0]]
                                if b_[0] == "v" and len(b_) > 2 and b_[2] is not None and str(b_[1]) == pl[1][0].split(":")[1]:
                                    val = b_[2]
                elif rv["k"] == "disc":
                    src = rv.get("p")
                    if src is not None and not src[1] and st.get(src[0], (None,))[0] == "v":
                        val = ("i", st[src[0]][1])
                elif rv["k"] == "un" and rv.get("op") == "Not":
                    src = simple(rv["a"])
                    if src is not None and st.get(src, (None,))[0] == "i":
                        val = ("i", 1 - st[src][1])
                if val is None or l in volatile:
                    st.pop(l, None)
                else:
                    st[l] = val
            t = b["term"]
            succs = list(self.bsucc(bb))
            if t["k"] == "call":
                d, dproj = t["dest"]
                val = None
                fnc = t.get("func") or {}
                info = fnc.get("fn") if fnc.get("k") == "const" else None
                name = (info or {}).get("def") or ""
                if not dproj and re.search(r"FromResidual>?::from_residual$|Try>?::from_output$", name):
                    # `?` on the way out builds the failure variant of the result type, `from_output` the success variant
                    ty = self.local_ty(d)
                    fail = name.endswith("from_residual")
                    if re.match(r"^(std|core)::result::Result<", ty):
                        val = ("v", 1 if fail else 0, None)
                    elif re.match(r"^(std|core)::option::Option<", ty):
                        val = ("v", 0 if fail else 1, None)
                if not dproj and re.search(r"ops::Try>?::branch$|ops::try_trait::Try::branch$", name) and t["args"]:
                    src = simple(t["args"][0])
                    if src is not None and st.get(src, (None,))[0] == "v":
                        val = ("v", st[src][1])       # Ok/Some -> Continue (0), Err/None -> Break (1): same index
                        ty = self.local_ty(src)
                        if "Option<" in ty.split("::")[-1] or re.match(r"(std|core)::option::Option<", ty):
                            val = ("v", 1 - st[src][1])   # None(0) -> Break(1), Some(1) -> Continue(0)
                if not dproj:
                    if val is None or d in volatile:
                        st.pop(d, None)
                    else:
                        st[d] = val
                # a call may write through any &mut it was given: forget locals whose address was taken (conservative: all
                # locals passed by reference are temporaries of refs, the tracked locals are only ever moved)
            elif t["k"] == "switch":
                src = simple(t["discr"])
                if src is not None and st.get(src, (None,))[0] == "i":
                    want = st[src][1]
                    tgt = None
                    for v, x in t["targets"]:
                        try:
                            if int(v) == want:
                                tgt = x
                        except ValueError:
                            pass
                    if tgt is None:
                        tgt = t.get("otherwise")
                    if tgt is not None:
                        succs = [tgt]
            elif t["k"] == "yield":
                d, dproj = t["resume_arg"]
                if not dproj:
                    st.pop(d, None)
            if bb in stop_blocks and bb != start_bb:
                continue
            for n in succs:
                if n not in states:
                    states[n] = dict(st)
                    work.append(n)
                else:
                    j = join(states[n], st)
                    if j != states[n]:
                        states[n] = j
                        work.append(n)
        return set(states)

    def entry(self):
        return Site(0, 0)
    def can_reach(self, a, b, no_sites=(), no_edges=()):
        return b in self.reach(a, no_sites, no_edges)
    def dominates(self, a, b):
        """every path entry -> b passes through site a (a == b counts)"""
        if a == b:
            return True
        return b not in self.reach(self.entry(), no_sites=[a])
    def any_dominates(self, sites, b):
        """every path entry -> b passes through at least one of `sites`"""
        if b in sites:
            return True
        return b not in self.reach(self.entry(), no_sites=list(sites))
    def _reach_without_edge(self, edge):
        k = ("rwe", edge)
        r = self._reach_cache.get(k)
        if r is None:
            if len(self._reach_cache) > 600:
                for kk in [kk for kk in self._reach_cache if isinstance(kk, tuple) and kk and kk[0] == "rwe"][:300]:
                    del self._reach_cache[kk]
            r = self.reach(self.entry(), no_edges=[edge])
            self._reach_cache[k] = r
        return r
    def edge_dominates_plain(self, edge, b):
        """every path entry -> b takes block edge `edge` (a_bb, b_bb)"""
        return b not in self._reach_without_edge(tuple(edge))
    def flag_switches(self):
        """bool switches on a local with several definitions at least one of which is a constant: the lowering of
        `a && b`, `matches!`, `let flag = ..` decisions.  [(site, term, local, negated, defs)]"""
        fs = getattr(self, "_flag_switches", None)
        if fs is None:
            from .model import _flag_defs
            fs = []
            for site, t in self.switches():
                if t["dty"] != "bool":
                    continue
                p = op_place(t["discr"])
                if p is None or p[1]:
                    continue
                local, neg, ds = _flag_defs(self, p[0])
                if len(ds) < 2:
                    continue
                if not any(k == "assign" and st["rv"]["k"] == "use" and st["rv"]["op"].get("k") == "const" for _s, k, st in ds):
                    continue
                fs.append((site, t, local, neg, ds))
            self._flag_switches = fs
        return fs
    def edge_dominates(self, edge, b):
        """`b` executes only if block edge `edge` was taken: plain edge dominance, or dominance through a bool that records
        the decision and is tested later (`let due = closed && count == 0; if due {..}`, `matches!`, `if !(a || b)`):
        see model.edge_guards."""
        if b not in self._reach_without_edge(tuple(edge)):
            return True
        if os.environ.get("VERIF_NO_FLAGS") or not (self.flag_switches() or self.enum_flag_switches()):
            return False
        k = (tuple(edge), b)
        c = self._reach_cache.get(("eg", k))
        if c is None:
            from .model import edge_guards
            c = bool(edge_guards(self, edge, b))
            self._reach_cache[("eg", k)] = c
        return c
    def enum_flag_switches(self):
        """switches on the discriminant of a local all of whose definitions are enum aggregates built in this body
        (`let next = if c { Step::A } else { Step::B }; match next {..}`): [(site, switch_info, local, {variant: [def sites]})]"""
        fs = getattr(self, "_enum_flag_switches", None)
        if fs is None:
            fs = []
            vol = self.volatile_locals()
            for site, t in self.switches():
                if t["dty"] == "bool":
                    continue
                info = self.switch_info(site)
                if info.get("kind") != "enum" or "disc_place" not in info:
                    continue
                l, proj = info["disc_place"]
                if proj == ["*"] and l not in vol:
                    # the discriminant is read through a reference taken in this body (`x.is_ok()` presented as a match)
                    rl = l
                    for _ in range(4):
                        rds = [d for d in self.defs().get(rl, []) if d[1] in ("assign", "call")]
                        if len(rds) != 1 or rds[0][1] != "assign":
                            break
                        rv_ = rds[0][2]["rv"]
                        if rv_["k"] == "ref" and not rv_["p"][1]:
                            l, proj = rv_["p"][0], []
                            break
                        if rv_["k"] == "use" and op_place(rv_["op"]) is not None and not op_place(rv_["op"])[1]:
                            rl = op_place(rv_["op"])[0]
                            continue
                        break
                if proj or l in vol:
                    continue
                # look through whole-local moves, `Try::branch(x)` (Continue <-> Ok/Some, Break <-> Err/None) and a payload read
                # back from a value that was wrapped in this body (`(Poll::Ready(x) as Ready).0`, also several layers deep)
                whole = lambda loc: [d for d in self.defs().get(loc, []) if d[1] in ("assign", "call", "resume")]
                state = {"translate": None}
                def resolve(loc, depth=0):
                    """the local whose definitions decide the variant of `loc`"""
                    for _ in range(10):
                        if loc in vol or depth > 6:
                            return loc
                        dd = whole(loc)
                        if len(dd) != 1:
                            return loc
                        dsite, kind, st = dd[0]
                        if kind == "assign" and st["rv"]["k"] == "use" and op_place(st["rv"]["op"]) is not None:
                            pl = op_place(st["rv"]["op"])
                            if not pl[1]:
                                loc = pl[0]
                                continue
                            if len(pl[1]) == 2 and pl[1][0].startswith("d:") and pl[1][1].startswith("f:0"):
                                base = resolve(pl[0], depth + 1)
                                if base in vol:
                                    return loc
                                bds = whole(base)
                                vname_ = pl[1][0].split(":")[2] if len(pl[1][0].split(":")) > 2 else None
                                same = [d_ for d_ in bds if d_[1] == "assign" and d_[2]["rv"]["k"] == "agg" and d_[2]["rv"].get("variant") == vname_]
                                others_ok = all((d_[1] == "assign" and d_[2]["rv"]["k"] == "agg" and d_[2]["rv"].get("variant") not in (None, vname_)) or
                                                (d_[1] == "call" and ((((d_[2].get("func") or {}).get("fn") or {}).get("def") or "").endswith("FromResidual::from_residual")) and vname_ in ("Ok", "Some"))
                                                for d_ in bds if d_ not in same)
                                if len(same) == 1 and others_ok and len(same[0][2]["rv"].get("ops", [])) == 1:
                                    ip = op_place(same[0][2]["rv"]["ops"][0])
                                    if ip is not None and not ip[1]:
                                        loc = ip[0]
                                        continue
                            return loc
                        if kind == "call":
                            fnc = st.get("func") or {}
                            nm = ((fnc.get("fn") or {}).get("def") or "") if fnc.get("k") == "const" else ""
                            if re.search(r"ops::Try>?::branch$|ops::try_trait::Try::branch$", nm) and st.get("args") and state["translate"] is None and depth == 0:
                                ap = op_place(st["args"][0])
                                if ap is not None and not ap[1]:
                                    state["translate"] = {"Continue": ("Ok", "Some"), "Break": ("Err", "None")}
                                    loc = ap[0]
                                    continue
                        return loc
                    return loc
                l = resolve(l)
                translate = state["translate"]
                ds = whole(l)
                if len(ds) < 2:
                    continue
                byv = {}
                ok = True
                for dsite, kind, st in ds:
                    if kind == "call":
                        # `x?` on the way out: `from_residual` builds the failure variant (None / Err) of the result type
                        fnc = st.get("func") or {}
                        nm = ((fnc.get("fn") or {}).get("def") or "") if fnc.get("k") == "const" else ""
                        ty = self.local_ty(l)
                        if nm.endswith("FromResidual::from_residual") and re.match(r"^(std|core)::option::Option<", ty):
                            byv.setdefault("None", []).append(dsite)
                            continue
                        if nm.endswith("FromResidual::from_residual") and re.match(r"^(std|core)::result::Result<", ty):
                            byv.setdefault("Err", []).append(dsite)
                            continue
                        byv.setdefault("?", []).append(dsite)      # some other call: any variant
                        continue
                    if kind != "assign" or st["rv"]["k"] != "agg" or st["rv"].get("kind") != "adt" or st["rv"].get("variant") is None:
                        if kind == "assign":
                            byv.setdefault("?", []).append(dsite)  # a value of unknown variant
                            continue
                        ok = False
                        break
                    byv.setdefault(st["rv"]["variant"], []).append(dsite)
                if ok and not [k_ for k_ in byv if k_ != "?"]:
                    ok = False
                if ok:
                    if translate:
                        # present the switch's Continue / Break edges under the names of the variants they stand for
                        info = dict(info)
                        e2 = {}
                        for nm_, tgt in info["edges"].items():
                            reals = translate.get(nm_, (nm_,))
                            # (Ok / Some resp. Err / None: keep the spelling that occurs among the definitions, else the first)
                            hit = [r_ for r_ in reals if r_ in byv] or [reals[0]]
                            for real in hit:
                                e2[real] = tgt
                        info["edges"] = e2
                    fs.append((site, info, l, byv))
            self._enum_flag_switches = fs
        return fs
    def volatile_locals(self):
        """locals that are mutably borrowed / address-taken somewhere in the body: they can change behind a flow-insensitive
        reading of their definitions"""
        v = getattr(self, "_volatile", None)
        if v is None:
            v = set()
            for _site, s in self.stmts():
                if s["k"] == "assign" and s["rv"]["k"] in ("ref", "rawptr") and (s["rv"].get("mut") or s["rv"]["k"] == "rawptr"):
                    v.add(s["rv"]["p"][0])
            self._volatile = v
        return v
    def edges_dominate(self, edges, b):
        """`b` executes only if one of `edges` was taken (plain, or through a recorded decision: model.edge_guards)"""
        edges = [tuple(e) for e in edges if e]
        if not edges:
            return False
        if b not in self.reach(self.entry(), no_edges=edges):
            return True
        if os.environ.get("VERIF_NO_FLAGS") or not (self.flag_switches() or self.enum_flag_switches()):
            return False
        from .model import edge_guards
        return bool(edge_guards(self, edges, b))
    def after(self, a):
        """sites strictly reachable after a (via at least one step)"""
        out = set()
        for n in self.site_succ(a):
            out |= self.reach(n)
        return out
    def reaches_after(self, a, b):
        return b in self.after(a)
    def in_cycle(self, s):
        return s in self.after(s)
    def exits(self):
        """terminator sites that leave the function normally (return / coroutine end)"""
        out = []
        for bb in self.live_blocks():
            if self.term(bb)["k"] in ("return", "coroutine_drop"):
                out.append(self.term_site(bb))
        return out
    def must_pass(self, start, through, to_sites=None, no_edges=()):
        """every path from `start` to a normal exit (or to any of to_sites) contains a site in
        `through`.  Paths that end in diverging calls / unreachable are ignored."""
        targets = set(to_sites) if to_sites is not None else set(self.exits())
        r = self.reach(start, no_sites=list(through), no_edges=no_edges)
        return not (r & targets)

    # ---- statements / calls ----------------------------------------------------------
    def calls(self):
        if self._calls is None:
            self._calls = []
            live = self.live_blocks()
            for i, b in enumerate(self.blocks):
                if b["cleanup"] or i not in live:
                    continue
                if b["term"]["k"] == "call":
                    self._calls.append(Call(self, i, b["term"]))
        return self._calls
    def calls_to(self, *names):
        return [c for c in self.calls() if c.is_(*names)]
    def calls_matching(self, rx):
        return [c for c in self.calls() if c.matches(rx)]
    def call_at(self, bb):
        t = self.term(bb)
        if t["k"] == "call":
            return Call(self, bb, t)
        return None
    def stmts(self):
        """yield (Site, stmt) for live non-cleanup blocks"""
        live = self.live_blocks()
        for i, b in enumerate(self.blocks):
            if b["cleanup"] or i not in live:
                continue
            for j, s in enumerate(b["stmts"]):
                yield Site(i, j), s
    def terms(self):
        live = self.live_blocks()
        for i, b in enumerate(self.blocks):
            if b["cleanup"] or i not in live:
                continue
            yield self.term_site(i), b["term"]
    def aggregates(self, adt=None, variant=None, kind=None):
        out = []
        for site, s in self.stmts():
            if s["k"] != "assign":
                continue
            rv = s["rv"]
            if rv["k"] != "agg":
                continue
            if kind and rv.get("kind") != kind:
                continue
            if adt and not (rv.get("adt") == adt or (rv.get("adt") or "").endswith("::" + adt)):
                continue
            if variant and rv.get("variant") != variant:
                continue
            out.append((site, s))
        return out
    def switches(self):
        out = []
        for site, t in self.terms():
            if t["k"] == "switch":
                out.append((site, t))
        return out
    def yields(self):
        return [(site, t) for site, t in self.terms() if t["k"] == "yield"]
    def drops(self):
        return [(site, t) for site, t in self.terms() if t["k"] == "drop"]

    # ---- definitions of locals --------------------------------------------------------
    def defs(self):
        """local -> list of (Site, kind, payload) for whole-local definitions; partial writes
        (with projection) are listed with kind 'partial'."""
        if self._defs is None:
            d = defaultdict(list)
            for site, s in self.stmts():
                if s["k"] == "assign":
                    l, proj = s["lhs"]
                    d[l].append((site, "assign" if not proj else "partial", s))
            for site, t in self.terms():
                if t["k"] == "call":
                    l, proj = t["dest"]
                    d[l].append((site, "call" if not proj else "partial_call", t))
                elif t["k"] == "yield":
                    l, proj = t["resume_arg"]
                    d[l].append((site, "resume", t))
            self._defs = d
        return self._defs

    # ---- backward slice (field sensitive) ---------------------------------------------
    def origins(self, op_or_place, through=None, max_nodes=4000, clone_through=True):
        """Backward, field-sensitive, flow-insensitive slice of a value.
        Returns a list of roots; each root is a dict:
          {'k':'arg','local':n,'proj':[...]}
          {'k':'call','call':Call,'proj':[...]}          (call not in `through`)
          {'k':'const','op':operand}
          {'k':'agg','site':Site,'stmt':stmt,'proj':[...]}   (aggregate not decomposable)
          {'k':'ref_static'...}, {'k':'disc','place':..}, {'k':'bin',...}, {'k':'other',...}
          {'k':'upvar','field':i,'proj':[...]}           (closure/coroutine capture)
          {'k':'resume'}                                   (value produced by an await point)
        `through(call)` -> index of the argument to follow (or list of indices) when the call is
        an identity-like wrapper; None to stop at the call."""
        if isinstance(op_or_place, dict):
            if op_or_place.get("k") == "const":
                return [{"k": "const", "op": op_or_place}]
            place = op_place(op_or_place)
            if place is None:
                return [{"k": "other", "op": op_or_place}]
        else:
            place = op_or_place
        roots = []
        seen = set()
        work = [(place[0], tuple(place[1]), ())]
        defs = self.defs()
        n = 0
        is_closure = self.kind in ("closure", "coroutine")
        while work:
            n += 1
            if n > max_nodes:
                roots.append({"k": "other", "why": "slice budget"})
                break
            item = work.pop()
            local, proj = item[0], item[1]
            trail = item[2] if len(item) > 2 else ()
            self._trail = trail
            key = (local, proj)
            if key in seen:
                continue
            seen.add(key)
            nroots = len(roots)
            nwork = len(work)
            if is_closure and local == 1:
                # captured variable: (*_1).f:i or _1.f:i
                pr = list(proj)
                while pr and pr[0] == "*":
                    pr = pr[1:]
                if pr and pr[0].startswith("f:"):
                    roots.append({"k": "upvar", "field": int(pr[0].split(":")[1]), "proj": pr[1:], "trail": list(trail)})
                else:
                    roots.append({"k": "arg", "local": 1, "proj": list(proj), "trail": list(trail)})
                continue
            dl = [x for x in defs.get(local, []) if x[1] in ("assign", "call", "resume")]
            partial = [x for x in defs.get(local, []) if x[1] in ("partial", "partial_call")]
            if 1 <= local <= self.arg_count and not dl:
                roots.append({"k": "arg", "local": local, "proj": list(proj), "trail": list(trail)})
                # an argument may still be partially overwritten; ignore
                continue
            if not dl and not partial:
                roots.append({"k": "undef", "local": local, "proj": list(proj), "trail": list(trail)})
                continue
            # partial writes matching the projection prefix
            for site, kind, s in partial:
                lp = tuple(s["lhs"][1]) if kind == "partial" else tuple(s["dest"][1])
                # if the written sub-place is a prefix of (or equal to) what we read, or vice versa
                m = min(len(lp), len(proj))
                if lp[:m] == proj[:m]:
                    rest = proj[len(lp):] if len(proj) >= len(lp) else ()
                    if kind == "partial":
                        self._slice_rvalue(s["rv"], rest, site, s, work, roots, through)
                    else:
                        c = Call(self, site.bb, s)
                        self._slice_call(c, rest, work, roots, through)
            for site, kind, s in dl:
                if kind == "assign":
                    self._slice_rvalue(s["rv"], proj, site, s, work, roots, through)
                elif kind == "call":
                    c = Call(self, site.bb, s)
                    self._slice_call(c, proj, work, roots, through)
                else:
                    roots.append({"k": "resume", "site": site})
            for r in roots[nroots:]:
                r.setdefault("trail", list(trail))
            for i in range(nwork, len(work)):
                w = work[i]
                extra = w[2] if len(w) > 2 else ()
                work[i] = (w[0], w[1], tuple(trail) + tuple(extra))
        for r in roots:
            r.setdefault("trail", [])
        return roots

    def _slice_call(self, c, proj, work, roots, through):
        idx = through(c) if through else None
        if idx is None:
            roots.append({"k": "call", "call": c, "proj": list(proj)})
            return
        if isinstance(idx, int):
            idx = [idx]
        for i in idx:
            if i < len(c.args):
                a = c.args[i]
                p = op_place(a)
                if p is not None:
                    # wrapper results keep no field correspondence: the projection moves to the trail
                    work.append((p[0], tuple(p[1]), tuple(proj)))
                else:
                    roots.append({"k": "const", "op": a})

    def _slice_rvalue(self, rv, proj, site, stmt, work, roots, through):
        k = rv["k"]
        if k == "use":
            op = rv["op"]
            p = op_place(op)
            if p is not None:
                work.append((p[0], tuple(p[1]) + tuple(proj)))
            else:
                roots.append({"k": "const", "op": op, "proj": list(proj)})
        elif k == "ref" or k == "rawptr":
            p = rv["p"]
            pr = list(proj)
            if pr and pr[0] == "*":
                pr = pr[1:]
            work.append((p[0], tuple(p[1]) + tuple(pr)))
        elif k == "cast":
            op = rv["op"]
            p = op_place(op)
            if p is not None:
                work.append((p[0], tuple(p[1]) + tuple(proj)))
            else:
                roots.append({"k": "const", "op": op, "proj": list(proj)})
        elif k == "agg":
            pr = list(proj)
            # strip a matching downcast
            if pr and pr[0].startswith("d:"):
                if rv.get("kind") == "adt" and str(rv.get("vidx")) == pr[0].split(":")[1]:
                    pr = pr[1:]
                else:
                    return  # different variant: this definition cannot supply that field
            if pr and pr[0].startswith("f:"):
                fi = int(pr[0].split(":")[1])
                ops = rv["ops"]
                if fi < len(ops):
                    op = ops[fi]
                    p = op_place(op)
                    if p is not None:
                        work.append((p[0], tuple(p[1]) + tuple(pr[1:])))
                    else:
                        roots.append({"k": "const", "op": op, "proj": pr[1:]})
                    return
            roots.append({"k": "agg", "site": site, "stmt": stmt, "proj": pr})
        elif k == "disc":
            roots.append({"k": "disc", "place": rv["p"], "site": site, "rv": rv})
        elif k == "bin":
            roots.append({"k": "bin", "op": rv["op"], "a": rv["a"], "b": rv["b"], "site": site})
        elif k == "un":
            roots.append({"k": "un", "op": rv["op"], "a": rv["a"], "site": site})
        else:
            roots.append({"k": "other", "rv": rv, "site": site})

    # convenience
    def origin_calls(self, op, through=None):
        return [r["call"] for r in self.origins(op, through) if r["k"] == "call"]
    def origin_args(self, op, through=None):
        return [r["local"] for r in self.origins(op, through) if r["k"] == "arg"]
    def origin_consts(self, op, through=None):
        return [r["op"] for r in self.origins(op, through) if r["k"] == "const"]

    # ---- forward: uses of a local -------------------------------------------------------
    def uses(self, local):
        """sites where `local` is read (as operand, in a place, as call arg, dropped)"""
        out = []
        def ops_in_rv(rv):
            k = rv["k"]
            if k in ("use", "cast"):
                return [rv["op"]]
            if k in ("ref", "rawptr", "disc"):
                return [{"k": "copy", "p": rv["p"], "_ref": True}]
            if k == "bin":
                return [rv["a"], rv["b"]]
            if k == "un":
                return [rv["a"]]
            if k == "agg":
                return rv["ops"]
            return []
        for site, s in self.stmts():
            if s["k"] == "assign":
                for o in ops_in_rv(s["rv"]):
                    if op_local(o) == local:
                        out.append((site, "stmt", s, o))
                if s["lhs"][0] == local and s["lhs"][1]:
                    out.append((site, "partial_write", s, None))
        for site, t in self.terms():
            k = t["k"]
            if k == "call":
                for i, a in enumerate(t["args"]):
                    if op_local(a) == local:
                        out.append((site, "arg%d" % i, t, a))
                if op_local(t["func"]) == local:
                    out.append((site, "func", t, t["func"]))
            elif k == "switch":
                if op_local(t["discr"]) == local:
                    out.append((site, "switch", t, t["discr"]))
            elif k == "drop":
                if t["p"][0] == local:
                    out.append((site, "drop", t, None))
            elif k == "yield":
                if op_local(t["value"]) == local:
                    out.append((site, "yield", t, t["value"]))
            elif k == "assert":
                if op_local(t["cond"]) == local:
                    out.append((site, "assert", t, t["cond"]))
        return out

    def flows_forward(self, local, through=None, max_nodes=2000):
        """Forward closure of locals that (may) carry the value of `local` via moves/copies,
        refs, aggregates, and wrapper calls.  Returns (set_of_locals, list_of_uses) where uses
        are all (site, kind, payload, operand) of any local in the set."""
        seen = {local}
        work = [local]
        alluses = []
        n = 0
        while work:
            n += 1
            if n > max_nodes:
                break
            l = work.pop()
            for u in self.uses(l):
                alluses.append(u)
                site, kind, payload, o = u
                if kind == "stmt":
                    tgt = payload["lhs"][0]
                    if tgt not in seen:
                        seen.add(tgt)
                        work.append(tgt)
                elif kind.startswith("arg") and through is not None:
                    c = Call(self, site.bb, payload)
                    idx = through(c)
                    if idx is not None:
                        idxs = [idx] if isinstance(idx, int) else idx
                        if int(kind[3:]) in idxs:
                            tgt = payload["dest"][0]
                            if tgt not in seen:
                                seen.add(tgt)
                                work.append(tgt)
        return seen, alluses

    # ---- maybe-initialised (for "real" drops) --------------------------------------------
    def maybe_init_at(self, local, site):
        """May `local` hold an (un-moved) value when control reaches `site`?  Forward
        may-analysis: gen at whole-local definitions, kill at whole-local moves."""
        key = ("mi", local)
        if key not in self._reach_cache:
            # compute set of sites at whose *entry* local may be initialised
            gens = set()
            kills = set()
            for s, kind, payload in self.defs().get(local, []):
                if kind in ("assign", "call", "resume", "partial", "partial_call"):
                    gens.add(s)
            for u in self.uses(local):
                s, kind, payload, o = u
                if o is not None and o.get("k") == "move" and not o["p"][1] and not o.get("_ref"):
                    kills.add(s)
                if kind == "drop" and not payload["p"][1]:
                    kills.add(s)
            init_entry = set()
            start_init = 1 <= local <= self.arg_count
            # state: site -> bool maybe-init at entry; propagate
            dq = deque()
            st = {}
            e = self.entry()
            st[e] = start_init
            dq.append(e)
            while dq:
                s = dq.popleft()
                v = st[s]
                # effect of s
                out = v
                if s in kills:
                    out = False
                if s in gens:
                    # call dest is initialised on the success edge; assign immediately
                    out = True
                for nx in self.site_succ(s):
                    old = st.get(nx)
                    new = out or (old or False)
                    if old is None or new != old:
                        st[nx] = new
                        dq.append(nx)
            self._reach_cache[key] = st
        return self._reach_cache[key].get(site, False)

    # ---- promoted constants ----------------------------------------------------------------
    def promoted_value(self, idx):
        """Render the value of promoted[idx] (`&CONST` temporaries): returns a string such as
        'ractor::actor::actor_cell::ActorStatus::Stopped' or 'const 3_u8' or None."""
        pr = self.raw.get("promoted") or []
        if idx >= len(pr):
            return None
        blocks = pr[idx]
        assigns = {}
        for b in blocks:
            for s in b["stmts"]:
                if s["k"] == "assign" and not s["lhs"][1]:
                    assigns[s["lhs"][0]] = s["rv"]
        def val(local, depth=0):
            rv = assigns.get(local)
            if rv is None or depth > 6:
                return None
            k = rv["k"]
            if k == "ref":
                return val(rv["p"][0], depth + 1)
            if k == "use":
                o = rv["op"]
                if o["k"] == "const":
                    return o.get("val")
                return val(o["p"][0], depth + 1)
            if k == "agg":
                nm = rv.get("adt") or rv.get("kind")
                if rv.get("variant") and rv.get("kind") == "adt":
                    nm = nm + "::" + rv["variant"]
                if rv["ops"]:
                    inner = []
                    for o in rv["ops"]:
                        if o["k"] == "const":
                            inner.append(o.get("val"))
                        else:
                            inner.append(val(o["p"][0], depth + 1))
                    nm += "(" + ", ".join(str(x) for x in inner) + ")"
                return nm
            return rv_str(rv)
        return val(0)
    def const_repr(self, op):
        """string value of a const operand; promoted references are resolved"""
        if op.get("k") != "const":
            return None
        if "promoted" in op:
            v = self.promoted_value(op["promoted"])
            if v is not None:
                return v
        v = op.get("val")
        # a named constant item (`const REASON: &str = "Drained"`): read its value from its own body
        if isinstance(v, str) and self.db is not None and re.fullmatch(r"[A-Za-z_][\w:<>, ]*", v) and "::" in v:
            g = self.db.fns.get(v)
            if g is not None and g.kind == "const" and g.id != self.id:
                vals = []
                for r in g.origins([0, []]):
                    if r["k"] == "const":
                        vals.append(g.const_repr(r["op"]))
                    else:
                        vals.append(None)
                if len(vals) == 1 and vals[0] is not None:
                    return vals[0]
        return v
    def value_consts(self, op_or_place, through=None):
        """all constant renderings a value may originate from"""
        out = []
        for r in self.origins(op_or_place, through):
            if r["k"] == "const":
                out.append(self.const_repr(r["op"]))
            elif r["k"] == "agg" and r["stmt"]["rv"].get("kind") == "adt" and not r["stmt"]["rv"]["ops"]:
                rv = r["stmt"]["rv"]
                out.append(rv["adt"] + "::" + rv["variant"])
        return out

    # ---- switch helpers --------------------------------------------------------------------
    def switch_info(self, site):
        """Describe the switch at `site`: what is tested and the edge for each value.
        Returns dict {kind:'bool'|'enum'|'int', 'edges': {label: target_bb}, 'other': bb,
                      'subject': origin roots of the discriminant}"""
        t = self.term(site.bb)
        assert t["k"] == "switch"
        discr = t["discr"]
        info = {"targets": t["targets"], "otherwise": t["otherwise"], "dty": t["dty"],
                "discr": discr, "site": site}
        # find the defining statement of the discriminant local
        roots = self.origins(discr)
        info["roots"] = roots
        variants = None
        for r in roots:
            if r["k"] == "disc":
                variants = r["rv"].get("variants")
                info["disc_place"] = r["place"]
                info["disc_ty"] = r["rv"].get("ty")
                info["disc_adt"] = r["rv"].get("adt")
        edges = {}
        if variants:
            vmap = {v[1]: v[0] for v in variants}
            listed = set()
            for val, tgt in t["targets"]:
                nm = vmap.get(val, val)
                edges[nm] = tgt
                listed.add(val)
            rest = [v[0] for v in variants if v[1] not in listed]
            info["kind"] = "enum"
            info["rest"] = rest
            for nm in rest:
                edges.setdefault(nm, t["otherwise"])
        elif t["dty"] == "bool":
            info["kind"] = "bool"
            for val, tgt in t["targets"]:
                edges["false" if val == "0" else "true"] = tgt
            if "false" in edges and "true" not in edges:
                edges["true"] = t["otherwise"]
            if "true" in edges and "false" not in edges:
                edges["false"] = t["otherwise"]
        else:
            info["kind"] = "int"
            for val, tgt in t["targets"]:
                edges[val] = tgt
            edges["otherwise"] = t["otherwise"]
        info["edges"] = edges
        return info

    def edge_of(self, site, label):
        """block edge (from_bb, to_bb) of a switch for a label (variant name, 'true'/'false')"""
        info = self.switch_info(site)
        if label not in info["edges"]:
            return None
        return (site.bb, info["edges"][label])

    def guarded_by_edge(self, site_switch, label, target_site):
        """is target_site dominated by the `label` edge of the switch at site_switch?
        (exact: removing that edge makes the target unreachable from entry, and if several labels
        share one block edge the test is about that block edge)"""
        info = self.switch_info(site_switch)
        if label not in info["edges"]:
            return False
        tgt = info["edges"][label]
        # other labels going to the same block would make the edge ambiguous
        same = [l for l, b in info["edges"].items() if b == tgt and l != label]
        if same:
            return False
        return self.edge_dominates((site_switch.bb, tgt), target_site)

    def dump(self, out=sys.stdout, cleanup=False):
        print("fn %s  [%s] %s:%s-%s" % (self.id, self.kind, self.file, self.lo, self.hi), file=out)
        for i, l in enumerate(self.locals):
            nm = self.local_name(i)
            print("   _%d: %s%s" % (i, l["ty"][:160], ("  // " + nm) if nm else ""), file=out)
        for i, b in enumerate(self.blocks):
            if b["cleanup"] and not cleanup:
                continue
            print(" bb%d%s:" % (i, " (cleanup)" if b["cleanup"] else ""), file=out)
            for s in b["stmts"]:
                if s["k"] == "assign":
                    print("     %s = %s   // L%s" % (place_str(s["lhs"]), rv_str(s["rv"]), s.get("l")), file=out)
                else:
                    print("     %s" % json.dumps(s)[:200], file=out)
            t = b["term"]
            print("     -> %s   // L%s" % (term_str(t), t.get("l")), file=out)


def rv_str(rv):
    k = rv["k"]
    if k == "use":
        return op_str(rv["op"])
    if k == "ref":
        return ("&mut " if rv.get("mut") else "&") + place_str(rv["p"])
    if k == "rawptr":
        return "&raw " + place_str(rv["p"])
    if k == "disc":
        return "discriminant(%s)" % place_str(rv["p"])
    if k == "bin":
        return "%s(%s, %s)" % (rv["op"], op_str(rv["a"]), op_str(rv["b"]))
    if k == "un":
        return "%s(%s)" % (rv["op"], op_str(rv["a"]))
    if k == "cast":
        return "%s as %s (%s)" % (op_str(rv["op"]), rv["ty"][:60], rv["kind"][:30])
    if k == "agg":
        nm = rv.get("adt") or rv.get("def") or rv.get("kind")
        if rv.get("variant"):
            nm += "::" + rv["variant"]
        return "%s{%s}" % (nm, ", ".join(op_str(o) for o in rv["ops"]))
    return rv.get("text", "?")[:200]


def term_str(t):
    k = t["k"]
    if k == "call":
        f = t["func"]
        nm = (f.get("fn") or {}).get("def") if f.get("k") == "const" else op_str(f)
        res = (f.get("fn") or {}).get("resolved") if f.get("k") == "const" else None
        return "%s = call %s%s(%s) -> bb%s" % (place_str(t["dest"]), nm, (" [=> %s]" % res) if res else "",
                                              ", ".join(op_str(a) for a in t["args"]), t.get("target"))
    if k == "switch":
        return "switch %s [%s] else bb%s" % (op_str(t["discr"]), ", ".join("%s:bb%s" % (v, b) for v, b in t["targets"]), t["otherwise"])
    if k == "drop":
        return "drop(%s) -> bb%s" % (place_str(t["p"]), t["target"])
    if k == "yield":
        return "yield %s -> bb%s (resume %s)" % (op_str(t["value"]), t["target"], place_str(t["resume_arg"]))
    if k == "goto":
        return "goto bb%s" % t["target"]
    if k == "assert":
        return "assert(%s == %s) [%s] -> bb%s" % (op_str(t["cond"]), t["expected"], t["akind"], t["target"])
    return k


def fn_signature(f):
    """what identifies a function besides its name: container, signature, the multiset of its direct callees"""
    callees = {}
    for c in f.calls():
        n = c.callee or c.resolved or "?"
        callees[n] = callees.get(n, 0) + 1
    return {"container": f.id.rsplit("::", 1)[0], "inputs": f.raw.get("inputs", []), "output": f.raw.get("output"), "is_async": bool(f.raw.get("is_async")),
            "public": f.raw.get("vis") == "Public", "trait": bool(f.raw.get("trait_item") or f.raw.get("in_trait")), "callees": callees, "nblocks": len(f.raw["blocks"])}


_REFERENCE = None


def reference():
    global _REFERENCE
    if _REFERENCE is None:
        try:
            _REFERENCE = json.load(open(os.path.join(os.path.dirname(os.path.abspath(__file__)), "reference.json")))
        except (OSError, ValueError):
            _REFERENCE = {}
    return _REFERENCE


def _rename_strings(x, fmap, pmap):
    """rewrite, everywhere in a raw fact tree, function ids (exact or as a `::`-prefix) and field projection names"""
    if isinstance(x, dict):
        out = {}
        for k, v in x.items():
            if k == "fields" and pmap and isinstance(v, list) and all(isinstance(e, str) for e in v):
                out[k] = [pmap.get(e, e) for e in v]        # field names of an aggregate
            elif k == "name" and pmap and isinstance(v, str) and v in pmap and "p" in x:
                out[k] = v                                   # (debug-info names are left alone)
            else:
                out[k] = _rename_strings(v, fmap, pmap)
        return out
    if isinstance(x, list):
        return [_rename_strings(v, fmap, pmap) for v in x]
    if isinstance(x, str):
        if pmap and x.startswith("f:"):
            parts = x.split(":")
            if len(parts) > 2 and parts[2] in pmap:
                parts[2] = pmap[parts[2]]
                return ":".join(parts)
        if fmap:
            for new, old in fmap:
                if x == new:
                    return old
                if x.startswith(new + "::"):
                    return old + x[len(new):]
        return x
    return x


class DB:
    """All facts of one build configuration (tag): one or more crates."""
    def __init__(self, tag, files, inline=None):
        self.tag = tag
        self.view = inline or "base"
        self.inline_mode = inline
        self.fns = {}
        self.adts = {}
        self.impls = []
        self.statics = {}
        self.traits = {}
        self.crates = []
        self.files = files
        self.renamed = {"fns": [], "fields": []}
        for f in files:
            with open(f) as fh:
                raw = json.load(fh)
            if inline:
                raw = self._rename_back(raw)
            self.crates.append(raw["crate"])
            for r in raw["fns"]:
                fn = Fn(self, r)
                fn.crate = raw["crate"]
                # several targets of one package may define the same path; keep first
                self.fns.setdefault(fn.id, fn)
            for a in raw["adts"]:
                a["crate"] = raw["crate"]
                self.adts.setdefault(a["id"], a)
            for i in raw["impls"]:
                i["crate"] = raw["crate"]
                self.impls.append(i)
            for s in raw["statics"]:
                self.statics.setdefault(s["id"], s)
            for t in raw["traits"]:
                self.traits.setdefault(t["id"], t)
        self._callers = None
        self._children = None
        self._by_trait_item = None
        self._normalize_flag_enums()
        self._desugar_std_combinators()
        self.inlined = []
        self.ctor_inlined = []
        if inline:
            self._inline_private_helpers(inline)

    def _rename_back(self, raw):
        """(views only) a private function or a field that a change merely renamed is presented under the name it has on
        the reference tree (rules/reference.json): same container, same signature, not public API, unique match -- for
        several candidates the one whose direct callees agree best.  Rules that look a role up by name then find it; a wrong
        match can only make a rule examine the wrong body, which it reports."""
        ref = reference().get(self.tag)
        if not ref or not (raw.get("crate") or "").startswith("ractor"):
            return raw
        cur = {}
        for r in raw["fns"]:
            if r.get("kind") in ("fn", "method"):
                cur[r["id"]] = r
        crate_prefix = raw["crate"] + "::"
        lost = [k for k in ref["fns"] if k not in cur and (k.startswith(crate_prefix) or k.startswith("<" + crate_prefix))]
        new = [k for k in cur if k not in ref["fns"]]
        fmap = []
        if lost and new:
            def sig_of_raw(r):
                callees = {}
                for b in r["blocks"]:
                    t = b["term"]
                    if t["k"] == "call":
                        info = (t.get("func") or {}).get("fn") or {}
                        n = info.get("def") or info.get("resolved") or "?"
                        callees[n] = callees.get(n, 0) + 1
                return {"container": r["id"].rsplit("::", 1)[0], "inputs": r.get("inputs", []), "output": r.get("output"), "is_async": bool(r.get("is_async")),
                        "public": r.get("vis") == "Public", "trait": bool(r.get("trait_item") or r.get("in_trait")), "callees": callees}
            newsig = {k: sig_of_raw(cur[k]) for k in new}
            def sim(a, b):
                keys = set(a) | set(b)
                if not keys:
                    return 1.0
                inter = sum(min(a.get(k, 0), b.get(k, 0)) for k in keys)
                union = sum(max(a.get(k, 0), b.get(k, 0)) for k in keys)
                return inter / union if union else 1.0
            cand = {}
            for L in lost:
                ls = ref["fns"][L]
                if ls.get("trait"):
                    continue
                cs = [N for N in new if all(newsig[N][k] == ls.get(k) for k in ("container", "inputs", "output", "is_async")) and not newsig[N]["trait"]]
                if cs:
                    cand[L] = cs
            used = set()
            for L in sorted(cand, key=lambda L: len(cand[L])):
                cs = [N for N in cand[L] if N not in used]
                if not cs:
                    continue
                # callees may themselves be renamed: compare on the last path segment only if exact names disagree
                scored = sorted(((sim(ref["fns"][L]["callees"], newsig[N]["callees"]), N) for N in cs), reverse=True)
                contested = [L2 for L2 in cand if L2 != L and any(N in cand[L2] for N in cs)]
                if len(cs) == 1 and not contested:
                    best = cs[0]
                elif scored[0][0] >= 0.5 and (len(scored) == 1 or scored[0][0] > scored[1][0] + 0.15):
                    best = scored[0][1]
                    # the best candidate must not fit a contesting lost function better
                    if any(sim(ref["fns"][L2]["callees"], newsig[best]["callees"]) > scored[0][0] for L2 in contested):
                        continue
                else:
                    continue
                used.add(best)
                fmap.append((best, L))
        # fields: same ADT, same shape, same types, other names
        pmap = {}
        ref_names = set(n for a in ref["adts"].values() for v in a for n, _t in v)
        for a in raw.get("adts", []):
            ra = ref["adts"].get(a["id"])
            if ra is None or len(ra) != len(a.get("variants", [])):
                continue
            for v, rv in zip(a["variants"], ra):
                fl = v.get("fields", [])
                if len(fl) != len(rv):
                    continue
                for fcur, (rname, rty) in zip(fl, rv):
                    if fcur["name"] != rname and not fcur["name"].isdigit() and fcur["name"] not in ref_names:
                        # the type may mention renamed things; require equality to stay on the safe side
                        if fcur["ty"] == rty:
                            pmap[fcur["name"]] = rname
        if not fmap and not pmap:
            return raw
        # longest ids first so that `a::bc` is not rewritten by the rule for `a::b`
        fmap.sort(key=lambda p: -len(p[0]))
        out = _rename_strings(raw, fmap, pmap)
        if pmap:
            for a in out.get("adts", []):
                for v in a.get("variants", []):
                    for fl in v.get("fields", []):
                        if fl["name"] in pmap:
                            fl["name"] = pmap[fl["name"]]
        self.renamed["fns"] += fmap
        self.renamed["fields"] += sorted(pmap.items())
        return out

    def _desugar_std_combinators(self):
        """first-order std combinators are presented as the control flow they stand for, so that rules see one form:
             d = bool::then_some(c, v)      =>   switch c { true: d = Some(v), false: d = None }
        (combinators taking closures are not touched: their closure is a separate body)"""
        n = 0
        for f in self.fns.values():
            if not (f.crate or "").startswith("ractor"):
                continue
            blocks = f.raw["blocks"]
            for bi in range(len(blocks)):
                t = blocks[bi]["term"]
                if t["k"] != "call" or t.get("target") is None:
                    continue
                fnc = t.get("func") or {}
                info = fnc.get("fn") if fnc.get("k") == "const" else None
                if not info or info.get("def") != "core::bool::<impl bool>::then_some" or len(t["args"]) != 2:
                    continue
                cond, val = t["args"]
                if op_place(cond) is None:
                    continue
                tb, fb = len(blocks), len(blocks) + 1
                cl = blocks[bi].get("cleanup", False)
                blocks.append({"cleanup": cl, "stmts": [{"k": "assign", "l": t.get("l"), "lhs": t["dest"], "desugared": "then_some",
                               "rv": {"k": "agg", "kind": "adt", "adt": "std::option::Option", "variant": "Some", "vidx": 1, "fields": ["0"], "ops": [val]}}],
                               "term": {"k": "goto", "target": t["target"], "l": t.get("l")}})
                blocks.append({"cleanup": cl, "stmts": [{"k": "assign", "l": t.get("l"), "lhs": t["dest"], "desugared": "then_some",
                               "rv": {"k": "agg", "kind": "adt", "adt": "std::option::Option", "variant": "None", "vidx": 0, "fields": [], "ops": []}}],
                               "term": {"k": "goto", "target": t["target"], "l": t.get("l")}})
                blocks[bi]["term"] = {"l": t.get("l"), "k": "switch", "discr": cond, "dty": "bool", "targets": [["0", fb]], "otherwise": tb, "desugared": "then_some"}
                n += 1
            if n:
                f._reach_cache = {}
        self.desugared = n

    def _normalize_flag_enums(self):
        """A crate-private enum with exactly two field-less variants is a bool by another name (`armed: bool` <->
        `state: CleanupState { Pending, Done }`).  Rules about flags speak of two-valued fields, tests on them and constant
        stores into them, so such enums are presented as bool: variant #0 -> false, variant #1 -> true; `discriminant(x)` becomes
        `x`, a switch on it a bool switch, `E::V` a constant.  (Rules never rely on *which* variant is which: they compare with
        the field's initial value.)"""
        flags = {}
        for k, a in self.adts.items():
            if a.get("kind") != "Enum" or a.get("vis") == "Public" or not (a.get("crate") or "").startswith("ractor"):
                continue
            vs = a.get("variants") or []
            if len(vs) == 2 and all(not v.get("fields") for v in vs):
                flags[k] = [v["name"] for v in vs]
        self.flag_enums = flags
        if not flags:
            return
        for a in self.adts.values():
            for v in a.get("variants") or []:
                for fld in v.get("fields") or []:
                    if fld.get("ty") in flags:
                        fld["enum_ty"] = fld["ty"]
                        fld["ty"] = "bool"
        for f in self.fns.values():
            touched = False
            disc_locals = set()
            for l in f.locals:
                if l.get("ty") in flags:
                    l["enum_ty"] = l["ty"]
                    l["ty"] = "bool"
                    touched = True
            for b in f.blocks:
                for st in b["stmts"]:
                    if st.get("k") != "assign":
                        continue
                    rv = st["rv"]
                    if rv.get("k") == "agg" and rv.get("adt") in flags and not rv.get("ops"):
                        idx = rv.get("vidx")
                        if idx is None:
                            idx = flags[rv["adt"]].index(rv.get("variant")) if rv.get("variant") in flags[rv["adt"]] else 0
                        st["rv"] = {"k": "use", "op": {"k": "const", "ty": "bool", "val": "true" if int(idx) == 1 else "false"}, "was_enum": rv.get("adt"), "variant": rv.get("variant")}
                        touched = True
                    elif rv.get("k") == "disc" and rv.get("adt") in flags:
                        st["rv"] = {"k": "use", "op": {"k": "copy", "p": rv["p"]}, "was_disc": rv.get("adt")}
                        if not st["lhs"][1]:
                            disc_locals.add(st["lhs"][0])
                        touched = True
            # constants of the enum that were promoted (`&CleanupState::Pending` as an operand of `==`)
            for pb_ in (f.raw.get("promoted") or []):
                for b in (pb_ if isinstance(pb_, list) else pb_.get("blocks", [])):
                    for st in b.get("stmts", []):
                        rv = st.get("rv") or {}
                        if st.get("k") == "assign" and rv.get("k") == "agg" and rv.get("adt") in flags and not rv.get("ops"):
                            idx = rv.get("vidx")
                            if idx is None:
                                idx = flags[rv["adt"]].index(rv.get("variant")) if rv.get("variant") in flags[rv["adt"]] else 0
                            st["rv"] = {"k": "use", "op": {"k": "const", "ty": "bool", "val": "true" if int(idx) == 1 else "false"}, "was_enum": rv.get("adt"), "variant": rv.get("variant")}
                            touched = True
            # the derived `==` / `!=` of the enum: a comparison of two bools; against a constant it is the flag or its negation
            def single_def(l):
                ds = []
                for b in f.blocks:
                    for st in b["stmts"]:
                        if st.get("k") == "assign" and st["lhs"] == [l, []]:
                            ds.append(st)
                    if b["term"].get("k") == "call" and b["term"].get("dest") == [l, []]:
                        ds.append(None)
                return ds[0] if len(ds) == 1 else None
            def const_of_ref(op):
                """value of `&CONST` operands: a reference to a promoted constant, or to a local assigned a constant"""
                pl = op.get("p") if op.get("k") in ("copy", "move") else None
                for _ in range(4):
                    if pl is None or pl[1]:
                        return None
                    st = single_def(pl[0])
                    if st is None:
                        return None
                    rv = st["rv"]
                    if rv["k"] == "ref":
                        tgt = rv["p"]
                        if tgt[1] == ["*"]:
                            pl = [tgt[0], []]
                            continue
                        if not tgt[1]:
                            st2 = single_def(tgt[0])
                            if st2 is not None and st2["rv"]["k"] == "use" and st2["rv"]["op"].get("k") == "const" and st2["rv"]["op"].get("val") in ("true", "false"):
                                return st2["rv"]["op"]["val"]
                        return None
                    if rv["k"] == "use":
                        o2 = rv["op"]
                        if o2.get("k") == "const" and "promoted" in o2:
                            prom = f.raw.get("promoted") or []
                            i = o2["promoted"]
                            if isinstance(i, int) and i < len(prom):
                                pbk = prom[i] if isinstance(prom[i], list) else prom[i].get("blocks", [])
                                for b in pbk:
                                    for s2 in b.get("stmts", []):
                                        rv2 = s2.get("rv") or {}
                                        if s2.get("k") == "assign" and rv2.get("k") == "use" and rv2["op"].get("k") == "const" and rv2["op"].get("val") in ("true", "false"):
                                            return rv2["op"]["val"]
                            return None
                        pl = o2.get("p") if o2.get("k") in ("copy", "move") else None
                        continue
                    return None
                return None
            for b in f.blocks:
                t = b["term"]
                if t.get("k") != "call" or t.get("target") is None or len(t.get("args", [])) != 2:
                    continue
                info = (t.get("func") or {}).get("fn") or {}
                if info.get("def") not in ("std::cmp::PartialEq::eq", "std::cmp::PartialEq::ne") or info.get("self_ty") not in flags:
                    continue
                a0, a1 = t["args"]
                if a0.get("k") not in ("copy", "move") or a1.get("k") not in ("copy", "move") or a0["p"][1] or a1["p"][1]:
                    continue
                is_ne = info["def"].endswith("::ne")
                c1, c0 = const_of_ref(a1), const_of_ref(a0)
                other = a0 if c1 is not None else (a1 if c0 is not None else None)
                cval = c1 if c1 is not None else c0
                if other is not None:
                    same = (cval == "true") != is_ne          # result == flag ?
                    src = {"k": "copy", "p": [other["p"][0], ["*"]]}
                    rv = {"k": "use", "op": src} if same else {"k": "un", "op": "Not", "a": src}
                else:
                    rv = {"k": "bin", "op": "Ne" if is_ne else "Eq", "a": {"k": "copy", "p": [a0["p"][0], ["*"]]}, "b": {"k": "copy", "p": [a1["p"][0], ["*"]]}}
                rv["was_enum_eq"] = info.get("self_ty")
                b["stmts"].append({"k": "assign", "l": t.get("l"), "lhs": t["dest"], "rv": rv})
                b["term"] = {"l": t.get("l"), "k": "goto", "target": t["target"], "was_call": info["def"]}
                touched = True
            if disc_locals:
                for l in disc_locals:
                    f.locals[l]["ty"] = "bool"
                for b in f.blocks:
                    t = b["term"]
                    if t.get("k") == "switch" and t["discr"].get("k") in ("copy", "move") and not t["discr"]["p"][1] and t["discr"]["p"][0] in disc_locals:
                        tg = {str(v): x for v, x in t["targets"]}
                        t0 = tg.get("0", t["otherwise"])
                        t1 = tg.get("1", t["otherwise"])
                        t["targets"] = [["0", t0]]
                        t["otherwise"] = t1
                        t["dty"] = "bool"
            if touched:
                f._succ = f._pred = f._calls = f._defs = None
                f._reach_cache = {}

    def _inline_private_helpers(self, mode):
        """replace each workspace body by the view in which its private, synchronous, non-anchor helpers are spliced in
        (rules/inline.py); the helpers' own bodies stay"""
        from .inline import inline_body
        originals = dict(self.fns)
        for fid, f in list(originals.items()):
            if not (f.crate or "").startswith("ractor"):
                continue
            raw = inline_body(self, f, originals, self.inlined, mode)
            if raw is not None:
                if not os.environ.get("VERIF_NO_SPECIALISE"):
                    from .inline import specialise_captured_callables
                    extra = []
                    st_ = []
                    if specialise_captured_callables(self, raw, fid, originals, extra, st_):
                        for cid, craw, q in extra:
                            cf = Fn(self, craw)
                            cf.crate = q.crate
                            cf.uninlined = q
                            cf.specialised_from = q.id
                            self.fns[cid] = cf
                        for _o, cq in st_:
                            self.inlined.append((extra[0][0] if extra else fid, cq))
                nf = Fn(self, raw)
                nf.crate = f.crate
                nf.uninlined = f
                self.fns[fid] = nf
        # a private helper whose every call site was spliced into its caller no longer exists as a separate body in this
        # view (who-may-call questions are then asked of the callers, which now contain its code)
        from .inline import inlinable
        gone = set(g for _, g in self.inlined)
        # helpers first, closures afterwards (a closure spliced into a helper that itself disappears has one owner less)
        order = sorted(gone, key=lambda x: (1 if (originals.get(x) is not None and originals[x].kind == "closure") else 0, x))
        for gid in order + order:        # (second pass: a helper whose last caller was a helper removed in the first pass)
            if gid not in self.fns:
                continue
            g = originals.get(gid)
            if g is None:
                continue
            still_called = False
            for f in self.fns.values():
                if f.id == gid:
                    continue
                for c in f.calls():
                    if c.callee == gid or c.resolved == gid:
                        still_called = True
                        break
                if still_called:
                    break
            if not still_called:
                if g.raw.get("is_async") and any(q == gid for _o, q in self.ctor_inlined):
                    # only the creation of the helper's future was spliced in: its body lives on as an async block of the
                    # (single) body that creates it
                    owners = set(o for o, q in self.inlined if q == gid and o in self.fns)
                    if len(owners) != 1:
                        continue
                    for x in self.fns.values():
                        if getattr(x, "parent", None) == gid:
                            x.parent = list(owners)[0]
                    self.fns.pop(gid, None)
                    self.removed_helpers = getattr(self, "removed_helpers", []) + [gid]
                    continue
                if g.raw.get("is_async"):
                    # the coroutine body goes with its async fn; closures / async blocks nested in it now belong to the body
                    # it was spliced into (if that is a single one)
                    cors = [x for x in self.fns.values() if getattr(x, "parent", None) == gid]
                    kids = [y for x in cors for y in self.fns.values() if getattr(y, "parent", None) == x.id]
                    if kids:
                        owners = set(o for o, q in self.inlined if q == gid and o in self.fns)
                        if len(owners) != 1:
                            continue
                        for y in kids:
                            y.parent = list(owners)[0]
                    for x in cors:
                        self.fns.pop(x.id, None)
                if g.kind == "closure":
                    # a closure spliced into its user (`for_each`): closures nested in it now belong to that body
                    owners = [o for o, q in self.inlined if q == gid and o in self.fns]
                    has_kids = any(getattr(x, "parent", None) == gid for x in self.fns.values())
                    if len(set(owners)) != 1 and has_kids:
                        continue
                    if not owners:
                        continue
                    for x in self.fns.values():
                        if getattr(x, "parent", None) == gid:
                            x.parent = owners[0]
                self.fns.pop(gid, None)
                self.removed_helpers = getattr(self, "removed_helpers", []) + [gid]
        self._children = None
        self._callers = None

    # lookups --------------------------------------------------------------------------
    def fn(self, id):
        return self.fns.get(id)
    def find(self, rx, crate=None):
        r = re.compile(rx)
        return [f for f in self.fns.values() if r.search(f.id) and (crate is None or f.crate == crate)]
    def one(self, rx, crate=None):
        l = self.find(rx, crate)
        return l[0] if len(l) == 1 else None
    def crate_fns(self, crate):
        return [f for f in self.fns.values() if f.crate == crate]
    def adt(self, id):
        return self.adts.get(id)
    def impls_of(self, adt_id, trait=None):
        return [i for i in self.impls if i.get("self_adt") == adt_id and (trait is None or i.get("trait") == trait)]
    def has_impl(self, adt_id, trait):
        return bool(self.impls_of(adt_id, trait))
    def children(self, fn_id):
        """closures / coroutines whose parent is fn_id (direct)"""
        if self._children is None:
            self._children = defaultdict(list)
            for f in self.fns.values():
                if f.kind in ("closure", "coroutine") and f.parent:
                    self._children[f.parent].append(f)
            if self.inline_mode:
                # in a view a body also owns the closures / async blocks whose *creation* was spliced into it (a helper
                # spliced into several callers is created in each of them)
                for f in self.fns.values():
                    if not (f.crate or "").startswith("ractor") or not getattr(f, "uninlined", None):
                        continue
                    have = set(x.id for x in self._children.get(f.id, []))
                    for _site, st in f.stmts():
                        if st["k"] == "assign" and st["rv"]["k"] == "agg" and st["rv"].get("kind") in ("closure", "coroutine", "coroutine_closure"):
                            g = self.fns.get(st["rv"].get("def"))
                            if g is not None and g.id not in have and g.id != f.id:
                                have.add(g.id)
                                self._children[f.id].append(g)
        return self._children.get(fn_id, [])
    def family(self, fn_id):
        """fn plus all nested closures/coroutines, transitively"""
        out = []
        f = self.fns.get(fn_id)
        if f is None:
            return out
        st = [f]
        while st:
            x = st.pop()
            out.append(x)
            st.extend(self.children(x.id))
        return out
    def root_of(self, fn):
        """outermost fn/method containing a closure/coroutine body"""
        while fn is not None and fn.kind in ("closure", "coroutine"):
            fn = self.fns.get(fn.parent)
        return fn
    def coroutine_of(self, fn_id):
        """the coroutine body of an `async fn` (its single child coroutine)"""
        ch = [c for c in self.children(fn_id) if c.kind == "coroutine"]
        if len(ch) == 1:
            return ch[0]
        # async fn body: first block is aggregate coroutine
        return ch[0] if ch else None

    def impl_fns_of_trait_item(self, trait_item):
        if self._by_trait_item is None:
            self._by_trait_item = defaultdict(list)
            for f in self.fns.values():
                ti = f.raw.get("trait_item")
                if ti:
                    self._by_trait_item[ti].append(f)
        return self._by_trait_item.get(trait_item, [])

    # call graph --------------------------------------------------------------------------
    def all_calls(self, crate=None):
        for f in self.fns.values():
            if crate is not None and f.crate != crate:
                continue
            for c in f.calls():
                yield c
    def callers(self):
        """callee def path -> list of Call (both declared callee and resolved target indexed)"""
        if self._callers is None:
            self._callers = defaultdict(list)
            for c in self.all_calls():
                if c.callee:
                    self._callers[c.callee].append(c)
                if c.resolved and c.resolved != c.callee:
                    self._callers[c.resolved].append(c)
        return self._callers
    def calls_of(self, *names):
        out = []
        cs = self.callers()
        for k, v in cs.items():
            for n in names:
                if k == n or k.endswith("::" + n):
                    out.extend(v)
                    break
        # dedupe
        seen = set()
        res = []
        for c in out:
            key = (c.fn.id, c.bb)
            if key not in seen:
                seen.add(key)
                res.append(c)
        return res
    def callees(self, fn, include_nested=True):
        """set of workspace fn ids that `fn` may invoke: direct calls (declared+resolved; trait
        methods fan out to all workspace impls), plus closures/coroutines it creates."""
        out = set()
        for c in fn.calls():
            for nm in (c.resolved, c.callee):
                if nm and nm in self.fns:
                    out.add(nm)
            if c.callee and c.info.get("trait") and not c.resolved:
                for f in self.impl_fns_of_trait_item(c.callee):
                    out.add(f.id)
        if include_nested:
            for site, s in fn.aggregates():
                d = s["rv"].get("def")
                if d and d in self.fns:
                    out.add(d)
        return out
    def reach_fns(self, start_ids, stop=None):
        seen = set()
        st = list(start_ids)
        while st:
            x = st.pop()
            if x in seen or x not in self.fns:
                continue
            if stop and stop(x):
                continue
            seen.add(x)
            st.extend(self.callees(self.fns[x]))
        return seen
    def external_calls_reachable(self, start_ids, stop=None):
        """all Call objects in bodies reachable from start_ids"""
        out = []
        for fid in self.reach_fns(start_ids, stop):
            out.extend(self.fns[fid].calls())
        return out

"""C18 -- Cluster: duplicate connections converge on one and the same link (structural clauses)."""
import re
from .model import *
from .facts import Site, op_place, Call, proj_field_name
from .c17 import RC
from .fields import fields

EXPLANATION = ("decides necessary structural conditions only: inside the election function the candidate vector is touched only through order-insensitive "
               "reductions (len, any/all, filter_map/map + min, retain with element-local predicates, into_iter+map+collect), so the elected *set* cannot "
               "depend on the order in which candidates are examined; every gathering of competitors passes the literal authenticated_only = true and the one "
               "extra candidate check_candidate may add is the caller itself, so an unauthenticated session can neither displace nor veto; on commit every "
               "loser is stopped on every path (also when the committing session itself lost), the authenticated/ready callbacks sit on the survives/elected "
               "edges, and the session stops itself when the post-auth check is not one of the two `continues` replies; the direction rule compares the peer's "
               "and this node's names and the nonce minimum ranges over non-zero nonces only. NOT decided: that the two endpoints elect the *same* physical "
               "connection -- a semantic property of a pure function over all candidate multisets (needs enumeration or a solver, another family).")
TRUSTED = ["names and nonces are exchanged unmodified by the handshake (C17/C20 plumbing)"]
ASSUMPTIONS = ["agreement of both endpoints is NOT decided here"]

DOC = {
 "C18.R1": "election: every use of the candidate vector (and of iterators derived from it) is in the order-insensitive allow-list; any positional / first-match access is reported",
 "C18.R2": "every call of candidates_for_peer passes the constant authenticated_only = true; check_candidate pushes at most the caller's own id",
 "C18.R3": "commit: every path from the Some(election) edge reaches the loop that stops the losers (before any early return); authenticated callback on the survives edge; ready callback on the is_elected edge; the session stops itself when not elected",
 "C18.R5": "check_session: the compatibility answer from the authenticated topology (and every direct Duplicate/This/Other answer) is dominated by the true edge of `matching registrations is empty`; a unique registration goes to check_candidate",
 "C18.R6": "a session casts ConnectionReady only on a transition into Ready (the dominating ReadyState match arms exclude Ready)",
 "C18.R7": "elect_sessions orders candidates by their (node-local) actor ids only on the true edge of `all candidates are server-side`, evaluated after the narrowing retains",
 "C18.R4": "direction by comparing the peer name with this node's name (both parameters); nonce minimum over Some nonces; zero nonce maps to None via NonZeroU64::new",
}

ALLOWED = re.compile(
    r"Vec::<T, A>::(len|retain|is_empty)$|Vec<T, A> as std::iter::IntoIterator>::into_iter$|Vec<T, A> as std::ops::Deref>::deref$|slice::<impl \[T\]>::(iter|len|is_empty|contains)$|"
    r"Iterator>::(any|all)$|Iterator::(any|all|map|filter_map|filter|min|max|collect|count|copied|cloned)$|Option::<T>::(expect|is_some|is_none|is_some_and|is_none_or|map|map_or|unwrap_or|unwrap_or_default|and_then|copied|cloned|as_ref|zip|xor|or|and|filter)$|"
    r"str::traits::<impl std::cmp::Ord for str>::cmp$|cmp::Ord::cmp$|PartialEq>::(eq|ne)$|PartialEq::(eq|ne)$|PartialOrd::|IntoIterator>::into_iter$|IntoIterator::into_iter$")
POSITIONAL = re.compile(r"::(first|last|pop|swap_remove|remove|get|get_mut|split_first|split_last|sort\w*|binary_search\w*|position|rposition|find|find_map|next|nth|max_by_key|min_by_key|max_by|min_by|last_mut|first_mut|truncate|drain|split_off|dedup\w*|reverse|rev|skip|take|step_by|peek|index|index_mut|insert|push)$")


def r1(run, db):
    el = run.need(db.fn("ractor_cluster::node::elect_sessions"), "elect_sessions")
    fam = db.family(el.id)
    n = 0
    bad = []
    for f in fam:
        run.saw(len(f.blocks), f)
        for c in f.calls():
            nm = c.name
            if re.search(r"tracing|fmt::|panicking", nm):
                continue
            n += 1
            if ALLOWED.search(c.callee or "") or (c.resolved and ALLOWED.search(c.resolved)):
                continue
            if c.callee and c.callee in db.fns and db.fns[c.callee].kind == "closure":
                continue
            bad.append((c, nm))
    for c, nm in bad:
        pos = POSITIONAL.search(nm) is not None
        run.fail("election-op:%s" % nm.split("::")[-1], "elect_sessions uses %s%s: the outcome may depend on the order in which candidates are examined" % (nm, " (positional / first-match access)" if pos else " (not in the order-insensitive allow-list)"), c.where())
    run.check(not bad, "order-insensitive", "all %d operations in elect_sessions and its %d closures are order-insensitive reductions" % (n, len(fam) - 1), "see individual operations")
    # no indexing statements on the vector (Index lowers to a call; slices index lowers to projections)
    for f in fam:
        for site, s in f.stmts():
            if s["k"] == "assign":
                ps = [s["lhs"]] + ([s["rv"]["p"]] if s["rv"]["k"] in ("ref", "disc") else []) + ([op_place(s["rv"]["op"])] if s["rv"]["k"] in ("use", "cast") and op_place(s["rv"]["op"]) else [])
                for p in ps:
                    if any(e.startswith(("i:", "ci:", "ss:")) for e in p[1]):
                        run.fail("election-index:%s" % f.id.split("::")[-1], "elect_sessions indexes into a sequence (positional access)", f.where(s.get("l")))
    # retain predicates are element-local: closures passed to retain read only their argument and captured scalars
    rets = [c for c in el.calls() if c.matches(r"Vec::<T, A>::retain$")]
    run.anchor("retain steps", len(rets), 3, el.where())
    for c in rets:
        for r in el.origins(c.args[1]):
            if r["k"] == "agg" and r["stmt"]["rv"].get("kind") == "closure":
                cl = db.fns.get(r["stmt"]["rv"]["def"])
                caps = [place_ty(db, el, op_place(o)) if op_place(o) else "const" for o in r["stmt"]["rv"]["ops"]]
                okc = all(re.search(r"^&?(bool|std::num::NonZero|core::num::NonZero|ractor::ActorId|ractor::actor::actor_id::ActorId|u64|std::option::Option<std::num::NonZero)", t) or t == "const" for t in caps)
                run.check(okc and cl is not None and not [x for x in cl.calls() if not ALLOWED.search(x.callee or "")], "retain-predicate-local:%s" % cl.id.split("::")[-1], "retain predicate %s reads only its element and captured scalars %s" % (cl.id.split("::")[-1], caps), "retain predicate captures %s" % caps, cl.where())
    # the result is the surviving candidates' ids
    ret = el.origins([0, []])
    run.check(all(r["k"] == "call" and r["call"].matches(r"Iterator::collect$") for r in ret), "returns-survivor-set", "the result is collected from the surviving candidates", None, el.where())


def r2(run, db):
    cf = run.need(db.one(r"NodeServerState::candidates_for_peer$"), "candidates_for_peer")
    cs = db.calls_of(cf.id)
    run.anchor("candidates_for_peer call sites", len(cs), 2)      # every call site is checked; callers may share a wrapper
    for c in cs:
        v = c.fn.value_consts(c.args[2])
        run.check(v == ["true"], "authenticated-only:%s" % c.fn.id.split("::")[-1], "%s gathers competitors with authenticated_only = true" % c.fn.id.split("::")[-1],
                  "%s gathers competitors with authenticated_only = %s: a session that merely claims the peer's name takes part in the election" % (c.fn.id, v or "a non-constant"), c.where())
    # the filter really uses the flag
    fl = db.family(cf.id)        # the filter closure, or the loop written out in the body
    okf = any(any(x.matches(r"HashSet::<T, S, A>::contains$") for x in g.calls()) for g in fl)
    run.check(okf, "filter-consults-authenticated-set", "the candidate filter consults authenticated_sessions", "candidate filter no longer consults the authenticated set", cf.where())
    cc = run.need(db.one(r"NodeServerState::check_candidate$"), "check_candidate")
    ps = [c for c in cc.calls() if c.matches(r"Vec::<T, A>::push$")]
    run.check(len(ps) == 1, "check_candidate|one-push", "check_candidate adds at most one extra candidate", "%d pushes" % len(ps), cc.where())
    for c in ps:
        ag = [r for r in cc.origins(c.args[1]) if r["k"] == "agg"]
        okid = bool(ag) and all(any(x["k"] == "arg" and x["local"] == 2 for x in cc.origins(dict(zip(r["stmt"]["rv"]["fields"], r["stmt"]["rv"]["ops"]))["actor_id"])) for r in ag)
        ct = [x for x in cc.calls() if x.matches(r"HashSet::<T, S, A>::contains$")]
        okg = any(false_edge(cc, x) and cc.edge_dominates(false_edge(cc, x), c.site) for x in ct)
        run.check(okid and okg, "check_candidate|extra-is-caller", "the extra candidate is the caller itself, added only while it is not yet in the authenticated set", "extra candidate is not the (unauthenticated) caller", c.where())
    cm = run.need(db.one(r"NodeServerState::commit_authenticated$"), "commit_authenticated")
    # losers are drawn from authenticated sessions only
    okl = False
    for g in db.family(cm.id):
        hs_ = [x for x in g.calls() if x.matches(r"HashSet::<T, S, A>::contains$")]
        sl_ = [x for x in g.calls() if x.matches(r"slice::<impl \[T\]>::contains$|Vec::<T, A>::contains$")]
        if not (hs_ and sl_):
            continue
        if g.kind == "closure":
            okl = True          # the filter predicate of the loser selection
        else:
            # written as a loop: a loser is recorded only on `authenticated.contains(id)` true and `elected.contains(id)` false
            for p_ in [x for x in g.calls() if x.matches(r"Vec::<T, A>::push$")]:
                if any(true_edge(g, h) and g.edge_dominates(true_edge(g, h), p_.site) for h in hs_) and any(false_edge(g, e_) and g.edge_dominates(false_edge(g, e_), p_.site) for e_ in sl_):
                    okl = True
    run.check(okl, "commit|losers-authenticated", "losers are sessions in the authenticated set that were not elected", "loser filter changed", cm.where())


def r3(run, db):
    hs = [f for f in db.crate_fns(RC) if re.search(r"NodeServer as ractor::Actor>::handle::\{closure#0\}$", f.id)]
    run.anchor("NodeServer::handle", len(hs), 1)
    f = hs[0]
    run.saw(len(f.blocks), f)
    cm = [c for c in f.calls() if c.callee and c.callee.endswith("::commit_authenticated")]
    run.anchor("commit call", len(cm), 1)
    if cm:
        se = nested_variant_edge(f, cm[0], ["Some"])
        stops = [c for c in f.calls() if c.matches(r"ActorCell::stop$") and f.in_cycle(c.site) and se and f.edge_dominates(se, c.site)]
        run.check(len(stops) == 1, "commit|loser-stop-loop", "the losers are stopped in a loop on the Some(election) edge", "loser stop loop not found", f.where())
        if stops:
            # loop head: the into_iter over election.losers
            heads = [c for c in f.calls() if c.matches(r"IntoIterator>::into_iter$|IntoIterator::into_iter$") and f.dominates(c.site, stops[0].site) and se and f.edge_dominates(se, c.site)
                     and any(fields(db).se_losers in [proj_field_name(e) for e in r.get("proj", []) + r.get("trail", []) if e.startswith("f:")] for r in f.origins(c.args[0]))]
            run.check(len(heads) == 1 and all_paths_from_edge_pass(f, se, [heads[0].site]), "commit|losers-always-stopped", "every path from Some(election) enters the loser loop (also when the committing session itself lost)",
                      "a path (e.g. the early return for a losing candidate) skips stopping the losers: with indistinguishable nonces both physical connections stay open", f.where())
            okarg = any(any(proj_field_name(e) == fields(db).se_losers for e in r.get("proj", []) + r.get("trail", []) if e.startswith("f:")) for r in f.origins(stops[0].args[0], through=lambda cc: 0 if cc.matches(r"Iterator>::next$|IntoIterator>::into_iter$|Deref>::deref$") else None))
            run.check(okarg, "commit|stops-the-losers", "the sessions stopped are election.losers", None, stops[0].where())
        auth_cb = [c for c in f.calls() if c.matches(r"NodeEventSubscription::node_session_authenticated$")]
        sv = []
        for site, t in f.switches():
            if t["dty"] == "bool":
                roots = f.origins(t["discr"])
                if any(any(proj_field_name(e) == fields(db).se_survives for e in r.get("proj", []) + r.get("trail", []) if e.startswith("f:")) for r in roots):
                    sv.append(site)
        good = bool(auth_cb) and bool(sv) and any((f.edge_of(s, "true") and f.edge_dominates(f.edge_of(s, "true"), auth_cb[0].site)) for s in sv)
        run.check(good, "commit|authenticated-cb-on-survives", "node_session_authenticated is reported only if the candidate survives", "authenticated callback not gated by candidate_survives", f.where())
    rd = [c for c in f.calls() if c.matches(r"NodeEventSubscription::node_session_ready$")]
    ie = [c for c in f.calls() if c.callee and c.callee.endswith("::is_elected")]
    run.check(len(rd) == 1 and len(ie) == 1 and true_edge(f, ie[0]) and f.edge_dominates(true_edge(f, ie[0]), rd[0].site), "ready|only-if-elected", "node_session_ready is reported only on the true edge of is_elected()", "ready callback not gated by is_elected()", f.where())
    ss = [g for g in db.crate_fns(RC) if re.search(r"NodeSession as ractor::Actor>::handle::\{closure#0\}$", g.id)]
    for g in ss:
        aa = [c for c in g.calls() if c.callee and c.callee.endswith("NodeSession::after_authenticated")]
        st = [c for c in g.calls() if c.matches(r"ActorCell::stop$")]
        sw = None
        for site, t in g.switches():
            if t["dty"] == "bool" and aa:
                te, fe = g.edge_of(site, "true"), g.edge_of(site, "false")
                if te and fe and g.edge_dominates(te, aa[0].site) and any(g.edge_dominates(fe, s.site) for s in st):
                    sw = site
        run.check(sw is not None, "session|stops-if-not-elected", "after the post-auth check the session either synchronises (elected) or stops itself (not elected)", "a session that lost the election keeps running", g.where())
        if sw is not None:
            ft = flag_true_sites(g, sw)
            # elected := matches!(reply, Ok(Success(NoOtherConnection | ThisConnectionContinues)))
            names = set()
            if ft:
                for site, t in g.switches():
                    info = g.switch_info(site)
                    if info.get("kind") == "enum" and (info.get("disc_adt") or "").endswith("SessionCheckReply"):
                        for nm, b in info["edges"].items():
                            if any(g.edge_dominates((site.bb, b), s) for s in ft[0]) and not any(g.edge_dominates((site.bb, b), s) for s in ft[1]):
                                names.add(nm)
            run.check(names == {"NoOtherConnection", "ThisConnectionContinues"}, "session|elected-replies", "elected iff the reply is NoOtherConnection or ThisConnectionContinues", "elected on replies %s" % sorted(names), g.where())


def r4(run, db):
    el = run.need(db.fn("ractor_cluster::node::elect_sessions"), "elect_sessions")
    cmpc = [c for c in el.calls() if c.matches(r"impl std::cmp::Ord for str>::cmp$|cmp::Ord::cmp$")]
    run.check(len(cmpc) == 1, "name-compare", "one name comparison", "%d name comparisons" % len(cmpc), el.where())
    if cmpc:
        a = set(r["local"] for r in el.origins(cmpc[0].args[0]) if r["k"] == "arg")
        b = set(r["local"] for r in el.origins(cmpc[0].args[1]) if r["k"] == "arg")
        run.check(a and b and a != b and (a | b) == {1, 2}, "name-compare-operands", "the direction rule compares the peer name with this node's name (parameters %s and %s)" % (sorted(a), sorted(b)), "name comparison operands %s %s" % (a, b), cmpc[0].where())
    # min over filter_map(connection_id)
    mins = [c for c in el.calls() if c.matches(r"Iterator::min$")]
    fm = [c for c in el.calls() if c.matches(r"Iterator::filter_map$")]
    good = any(any(r["k"] == "call" and r["call"].bb == f_.bb for r in el.origins(m.args[0])) for m in mins for f_ in fm)
    run.check(good, "nonce-min-over-some", "the nonce minimum is taken over filter_map(connection_id) (Some nonces only)", "nonce minimum not over Some nonces only", el.where())
    rs = run.need(db.one(r"NodeServerState::register_session$"), "register_session")
    nz = [c for c in rs.calls() if c.matches(r"NonZero::<u64>::new$|NonZeroU64::new$|num::nonzero::NonZero::<T>::new$|NonZero::<T>::new$")]
    ins = [c for c in rs.calls() if c.matches(r"HashMap::<K, V, S, A>::insert$")]
    good = bool(nz) and any(any(r["k"] == "call" and r["call"].bb == nz[0].bb for r in rs.origins(c.args[2])) for c in ins)
    run.check(good, "zero-nonce-is-none", "a zero (legacy) nonce is stored as None via NonZeroU64::new", "legacy zero nonce not mapped to None", rs.where())


def r5(run, db):
    """check_session: the read-only compatibility answer (computed from the authenticated topology without knowing who asks)
    is given only to callers with *no* registration.  A caller that is registered -- uniquely (check_candidate) or ambiguously
    (repeated / legacy nonce) -- must never be answered from a candidate set that may contain itself: an unauthenticated
    registration with the same name and nonce would make an authenticated connection see itself as its own competitor and
    stand down (C18-3: veto by an unauthenticated connection)."""
    f = run.need(db.fn("ractor_cluster::node::NodeServerState::check_session"), "NodeServerState::check_session")
    run.saw(len(f.blocks), f)
    # the vector of registrations matching (name, nonce): collected from node_sessions
    emp = []
    for c in f.calls():
        if c.matches(r"Vec::<T, A>::is_empty$|\[T\]>::is_empty$"):
            roots = f.origins(c.args[0], through=lambda cc: 0 if cc.matches(r"Deref>::deref$|Vec::<T, A>::as_slice$") else None)
            if roots and all(r["k"] == "call" and r["call"].matches(r"Iterator::collect$") for r in roots):
                emp.append(c)
    from .bits import zero_edges
    thr_v = lambda cc: 0 if cc.matches(r"Deref>::deref$|Vec::<T, A>::as_slice$|Deref::deref$") else None
    def is_reg_len(x):
        # len of the matching-registration vector: `v.len()` or the length read by a slice pattern (`match v.as_slice() { [] => .. }`)
        if x[0] == "call" and x[1].matches(r"::len$"):
            roots = f.origins(x[1].args[0], through=thr_v)
            return bool(roots) and all(r["k"] == "call" and r["call"].matches(r"Iterator::collect$") for r in roots)
        if x[0] == "un" and x[1] == "PtrMetadata":
            inner = x[2]
            if inner[0] == "call":
                roots = f.origins({"k": "copy", "p": [inner[1].dest[0], []]}, through=thr_v)
                return bool(roots) and all(r["k"] == "call" and r["call"].matches(r"Iterator::collect$") for r in roots)
            if inner[0] in ("v", "arg"):
                roots = f.origins({"k": "copy", "p": [inner[1], []]}, through=thr_v)
                return bool(roots) and all(r["k"] == "call" and r["call"].matches(r"Iterator::collect$") for r in roots)
        return False
    empty_edges = [true_edge(f, c) for c in emp if true_edge(f, c)] + zero_edges(f, is_reg_len)
    run.check(len(empty_edges) >= 1, "registration-emptiness-test", "check_session tests whether the caller has any registration", "check_session has %d emptiness tests of the matching-registration vector" % len(empty_edges), f.where())
    cand = [c for c in f.calls() if c.callee and c.callee.endswith("::candidates_for_peer")]
    run.anchor("compatibility-path topology reads", len(cand), 1, f.where())
    if empty_edges:
        class _E:
            pass
        te = empty_edges
        _dom = f.edge_dominates
        # (any of the emptiness edges)
        f_edge_dominates = lambda edges, site: any(_dom(e_, site) for e_ in edges)
        for c in cand:
            run.check(te is not None and f_edge_dominates(te, c.site), "compat-only-for-unregistered@cand", "the authenticated topology is consulted only when the caller has no registration",
                      "check_session answers a *registered* caller (ambiguous nonce) from the authenticated candidate set, which can contain the caller itself: an unauthenticated duplicate registration makes an authenticated connection stand down", c.where())
        n = 0
        for site, st in f.aggregates(adt="SessionCheckReply"):
            v = st["rv"].get("variant")
            if v == "NoOtherConnection":
                continue
            n += 1
            run.check(te is not None and f_edge_dominates(te, site), "compat-only-for-unregistered@%s" % v, "%s is answered directly only to unregistered callers" % v,
                      "check_session can answer %s to a registered caller without identifying it" % v, f.where(st.get("l")))
        run.anchor("direct non-neutral answers", n, 3, f.where())
    # a unique registration is delegated to check_candidate
    cc = [c for c in f.calls() if c.callee and c.callee.endswith("::check_candidate")]
    run.check(len(cc) == 1, "unique->check_candidate", "a uniquely identified caller is judged by check_candidate", "check_candidate calls: %d" % len(cc), f.where())


def r6(run, db):
    """`node events report exactly one ready session per peer`: the node server emits one ready event per ConnectionReady it
    receives from an elected session, so a session must cast ConnectionReady once -- only on the transition into Ready, never
    when it is already Ready (a duplicated Ready frame from the peer must stay without effect)."""
    RS = ["Open", "SyncSent", "SyncReceived", "Ready"]
    n = 0
    for f in db.crate_fns(RC):
        if "::tests::" in f.id or "node_session" not in (f.file or ""):
            continue
        for site, st in f.aggregates(adt="NodeServerMessage", variant="ConnectionReady"):
            n += 1
            adm = set(RS)
            gates = 0
            for sw_site, t in f.switches():
                info = f.switch_info(sw_site)
                if info.get("kind") != "enum" or not str(info.get("disc_adt") or info.get("disc_ty") or "").endswith("ReadyState"):
                    continue
                by_t = {}
                for nm, tgt in info["edges"].items():
                    if nm in RS:
                        by_t.setdefault(tgt, set()).add(nm)
                for tgt, names in by_t.items():
                    if f.edge_dominates((sw_site.bb, tgt), site):
                        gates += 1
                        adm &= names
            aa = [c for c in f.calls() if c.callee and c.callee.endswith("::after_authenticated")]
            if aa and any(f.dominates(c.site, site) for c in aa):
                run.ok("ready-cast-after-authentication:%s" % f.id.split("::")[-2], "ConnectionReady is cast right after after_authenticated(), which runs once per session (C17.R3: only on the not-authenticated -> authenticated transition)", f.where(st.get("l")))
                continue
            run.check(gates >= 1 and "Ready" not in adm, "ready-cast-only-on-transition:%s" % f.id.split("::")[-2], "ConnectionReady is cast only from the states %s (never when the session is already Ready)" % sorted(adm),
                      "ConnectionReady is cast %s: a duplicated Ready frame makes the node report the same session ready again (two ready sessions for one peer)" % ("also when the session is already Ready" if gates else "without testing the ready state"), f.where(st.get("l")))
    run.anchor("ConnectionReady cast sites", n, 2)


def r7(run, db):
    """actor ids are local to a node, so an order on them is not the same on both ends of a link.  They may decide between
    candidates only where the other end defers to this decision: on the accepting side, i.e. when *every* remaining
    candidate is a server-side session (the accept reply tells the initiator which connection survived).  If the initiating
    side also breaks such a tie by its own ids, each node closes the connection the other kept."""
    f = run.need(db.fn("ractor_cluster::node::elect_sessions"), "node::elect_sessions")
    run.saw(len(f.blocks), f)
    def closure_returns_field(call, argi, field, negated=False):
        for r in f.origins(call.args[argi]):
            g = db.fns.get(r["stmt"]["rv"].get("def")) if r["k"] == "agg" else None
            if g is None:
                continue
            rets = g.origins([0, []])
            for rr in rets:
                names = [proj_field_name(e) for e in rr.get("proj", []) + rr.get("trail", []) if e.startswith("f:")]
                if field in names and not g.switches():
                    return True
        return False
    mins = [c for c in f.calls() if c.matches(r"Iterator::(min|max|min_by_key|max_by_key|min_by|max_by)$") and any(
        r["k"] == "call" and r["call"].matches(r"Iterator::map$") and closure_returns_field(r["call"], 1, "actor_id") for r in f.origins(c.args[0]))]
    run.anchor("order on local actor ids", len(mins), 1, f.where())
    alls = [c for c in f.calls() if c.matches(r"Iterator::all$") and closure_returns_field(c, 1, "is_server")]
    # `!candidates.iter().any(|c| !c.is_server)` is the same test
    def closure_returns_not_field(call, argi, field):
        for r in f.origins(call.args[argi]):
            g = db.fns.get(r["stmt"]["rv"].get("def")) if r["k"] == "agg" else None
            if g is None or g.switches():
                continue
            for rr in g.origins([0, []]):
                if rr["k"] == "un" and rr["op"] == "Not":
                    inner = g.origins(rr["a"])
                    if any(field in [proj_field_name(e) for e in x.get("proj", []) + x.get("trail", []) if e.startswith("f:")] for x in inner):
                        return True
        return False
    none_client = [c for c in f.calls() if c.matches(r"Iterator::any$") and closure_returns_not_field(c, 1, "is_server")]
    retains = [c for c in f.calls() if c.matches(r"Vec::<T, A>::retain$")]
    for c in mins:
        good2 = [a for a in none_client if false_edge(f, a) and f.edge_dominates(false_edge(f, a), c.site) and all(f.reaches_after(r.site, a.site) for r in retains if f.reaches_after(r.site, c.site) and not f.dominates(c.site, r.site) and r.site != c.site)]
        good = good2 + [a for a in alls if true_edge(f, a) and f.edge_dominates(true_edge(f, a), c.site) and all(f.reaches_after(r.site, a.site) for r in retains if f.reaches_after(r.site, c.site) and not f.reaches_after(c.site, r.site) and r.site != c.site and not f.dominates(c.site, r.site))]
        run.check(bool(good), "id-order-only-among-accepted", "the order on local actor ids is used only when all remaining candidates are server-side sessions (tested after the narrowing)",
                  "elect_sessions breaks a tie by local actor ids without having established that every remaining candidate is an accepted (server-side) connection: the initiating node then decides by its own ids, the acceptor by its own, and each closes the connection the other kept", c.where())


Q = ["rc"]
TH = ["rc", "rcatr"]
RULES = [{"id": "C18.R%d" % i, "fn": f, "quick": Q, "thorough": TH} for i, f in enumerate([r1, r2, r3, r4, r5, r6, r7], 1)]
from .positive import control
RULES.append({"id": "C18.P", "fn": control('positional'), "quick": ["pos"], "thorough": ["pos"]})
DOC["C18.P"] = 'positive control: planted positional/first-match election must be reported by the order-sensitivity detector'

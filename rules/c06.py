"""C06 -- Shutdown waits are accurate and never miss the wake-up."""
import re
from .model import *
from .facts import Site, op_place, Call, proj_field_name
from .bits import sym, show, cmp_tests
from .locks import acquisitions, yields_under_guard
from . import c05

EXPLANATION = ("Lost-wake-up freedom and accuracy are decided from code shape: in wait(), the `Notified` future is created before the status is read and "
               "is the very future awaited on the not-Stopped edge; the broadcast (notify_waiters + one stored permit) is issued only from set_status, "
               "elected by the previous value returned by the atomic RMW, only for the first transition to Stopped; Stopped is the last action of the "
               "exit cleanup (after post_stop, subtree kill, supervisor notification, unlink); every writer of the status word is a monotone RMW "
               "(fetch_max, or fetch_update whose closure can only return a value >= every value it can be applied to); registry/pid/pg cleanup is "
               "elected once by the RMW's previous value after the status is published; waiting has no effect on the actor; no std/DashMap guard is held "
               "across an await and the lock-order graph is acyclic.")
TRUSTED = ["tokio::sync::Notify: a Notified created before notify_waiters() is woken by it; notify_one stores one permit", "atomic RMW semantics"]
ASSUMPTIONS = ["liveness under a scheduler that never runs the actor task is not decided"]

DOC = {
 "C06.R1": "wait(): notified() dominates the status read, which dominates the await of that same Notified on the `!= Stopped` edge",
 "C06.R2": "stop broadcast only from set_status, guarded by status == Stopped and previous < Stopped where previous is the RMW's return value; it calls notify_waiters and stores one permit",
 "C06.R3": "= C05.R1: Stopped is stored last in the exit cleanup; finish is dominated by completion of the processing loop",
 "C06.R4": "status word writers: only load / fetch_max / fetch_update with a monotone closure (Some(K2) only under f < K1 with K2 >= K1-1); no store/swap/fetch_min/CAS",
 "C06.R5": "registry / pid / pg cleanup is guarded by status >= Stopping and previous < Stopping (RMW's return) and dominated by the RMW (status published first); contents present",
 "C06.R6": "waiting has no effect: wait()'s call closure contains no actor-mutating function; *_and_wait issue their request once before wait; timeout variants only wrap the same future",
 "C06.R8": "= C04.R7: mark_running after pre_start Ok / the link and before the loop task is created (a task cancelled before its first poll still reports to the supervisor)",
 "C06.R7": "no std::sync / DashMap guard is live across a yield; the lock-order graph of the crate is acyclic",
}

MUTATING = re.compile(r"::(send_signal|send_stop|drain|set_status|kill|stop|terminate|send_message|unlink|link|try_link)$")


def status_field(db):
    props = db.adt("ractor::actor::actor_properties::ActorProperties")
    fields = props["variants"][0]["fields"]
    a8 = [f["name"] for f in fields if re.search(r"AtomicU8|Atomic<u8>", f["ty"])]
    nt = [f["name"] for f in fields if re.search(r"Notify", f["ty"])]
    if len(a8) != 1 or len(nt) != 1:
        raise AnchorLost("status word / wait handle fields: %s %s" % (a8, nt))
    return a8[0], nt[0]


def status_ops(db):
    sw, _ = status_field(db)
    out = []
    for f in db.crate_fns("ractor"):
        for c in f.calls():
            m = re.search(r"atomic::Atomic::<u8>::(\w+)$|atomic::AtomicU8::(\w+)$", c.callee or "")
            if not m:
                continue
            names = [proj_field_name(e) for r in f.origins(c.args[0]) for e in r.get("proj", []) + r.get("trail", []) if e.startswith("f:")]
            if sw in names:
                out.append((f, c, m.group(1) or m.group(2)))
    return out


def closure_monotone(db, f, c):
    """fetch_update(.., closure): closure returns Some(K2) only on the true edge of `x < K1` (x = its argument) with K2 >= K1-1"""
    for r in f.origins(c.args[3]):
        if r["k"] == "agg" and r["stmt"]["rv"].get("kind") == "closure":
            cl = db.fns.get(r["stmt"]["rv"]["def"])
            if cl is None:
                return False, "closure body not found"
            somes = cl.aggregates(adt="std::option::Option", variant="Some")
            if not somes:
                return True, "closure never returns Some (no write)"
            tests = cmp_tests(cl)
            for site, s in somes:
                k2 = sym(cl, s["rv"]["ops"][0])
                if k2[0] != "c":
                    return False, "new value %s is not a constant" % show(k2)
                bound = None
                for t in tests:
                    a, b, op = t["a"], t["b"], t["op"]
                    if a[0] == "arg" and a[1] == 2 and b[0] == "c":
                        # on which edge is the Some?
                        if t["true_edge"] and cl.edge_dominates(t["true_edge"], site):
                            mx = {"Lt": b[1] - 1, "Le": b[1], "Eq": b[1]}.get(op)
                        elif t["false_edge"] and cl.edge_dominates(t["false_edge"], site):
                            mx = {"Ge": b[1] - 1, "Gt": b[1], "Ne": b[1]}.get(op)
                        else:
                            mx = None
                        if mx is not None:
                            bound = mx if bound is None else min(bound, mx)
                if bound is None:
                    return False, "Some(%s) is not guarded by an upper bound on the current value" % show(k2)
                if k2[1] < bound:
                    return False, "closure can write %d over a current value as large as %d (status would move backwards)" % (k2[1], bound)
            return True, "Some(K2) only when current <= %d <= K2=%d" % (bound, k2[1])
    return False, "closure not found"


def check_status_writers(run, db):
    ops = status_ops(db)
    run.anchor("status word operations", len(ops), 3)
    for f, c, meth in ops:
        run.saw(1, f)
        if meth == "load":
            run.ok("status-op:%s:load" % f.id, "%s reads the status" % f.id, c.where())
        elif meth == "fetch_max":
            run.ok("status-op:%s:fetch_max" % f.id, "%s advances the status with fetch_max (monotone)" % f.id, c.where())
        elif meth == "fetch_update":
            good, why = closure_monotone(db, f, c)
            run.check(good, "status-op:%s:fetch_update" % f.id, "%s: fetch_update closure is monotone: %s" % (f.id, why), "%s: fetch_update can move the status backwards: %s" % (f.id, why), c.where())
        elif meth == "new":
            continue
        else:
            run.fail("status-op:%s:%s" % (f.id, meth), "%s applies %s to the status word: only load/fetch_max/monotone fetch_update keep the lifecycle monotone" % (f.id, meth), c.where())


def r1(run, db):
    _, nt = status_field(db)
    ws = [f for f in db.crate_fns("ractor") if f.kind == "coroutine" and any(c.matches(r"Notify::notified$") for c in f.calls())]
    ws = [f for f in ws if "actor_properties" in f.id or "ActorProperties" in f.id]
    run.anchor("wait coroutine", len(ws), 1)
    for w in ws:
        run.saw(len(w.blocks), w)
        nc = [c for c in w.calls() if c.matches(r"Notify::notified$")]
        gs = [c for c in w.calls() if c.is_("get_status")]
        run.check(len(nc) == 1 and len(gs) >= 1, "shape", "one notified() and a status read", "wait has %d notified() and %d status reads" % (len(nc), len(gs)), w.where())
        if not (nc and gs):
            continue
        n = nc[0]
        names = [proj_field_name(e) for r in w.origins(n.args[0]) for e in r.get("proj", []) + r.get("trail", []) if e.startswith("f:")]
        run.check(nt in names, "notified-on-wait-handle", "notified() is taken on the actor's wait handle field `%s`" % nt, "notified() on another Notify: %s" % names, n.where())
        for g in gs:
            run.check(w.dominates(n.site, g.site), "notified-before-status", "notified() is created before the status is read (no lost wake-up window)",
                      "the status is read before the Notified future exists: a stop between the read and notified() is missed forever", g.where())
        aws = [a for a in awaits(w) if any(c.bb == n.bb for c in a.future_calls())]
        run.check(len(aws) == 1, "await-same-notified", "the future awaited is the Notified created first", "the awaited future does not originate from the early notified() call", w.where())
        sts = [s for s in status_tests(w) if s["const"] == "Stopped" and s["op"] in ("!=", "==")]
        if aws and len(sts) != 1:
            # any other spelling of the same decision (`matches!(status, Stopped)`, `status < Stopped`, an early return):
            # the await is reachable exactly for the statuses other than Stopped
            gates = status_gates_at(w, aws[0].poll.site)
            adm = admitted_statuses(gates)
            run.check(bool(gates) and adm == STATUS_ORDER[:-1], "await-on-not-stopped", "the await is reachable exactly while the status read is not Stopped (%s)" % show_gates(gates),
                      "the wait is entered for statuses %s" % adm, w.where())
            continue
        run.check(len(sts) == 1, "stopped-test", "status compared with Stopped", "wait has %d comparisons with Stopped" % len(sts), w.where())
        if aws and sts:
            s = sts[0]
            e = s["true_edge"] if s["op"] == "!=" else s["false_edge"]
            run.check(e and w.edge_dominates(e, aws[0].poll.site), "await-on-not-stopped", "the await lies on the not-Stopped edge", "await not on the not-Stopped edge", w.where())
            e2 = s["false_edge"] if s["op"] == "!=" else s["true_edge"]
            run.check(e2 and aws[0].poll.site not in edge_path_sites(w, [e2]), "return-if-stopped", "an already stopped actor returns at once", None, w.where())


def r2(run, db):
    _, nt = status_field(db)
    bcast = []
    for f in db.crate_fns("ractor"):
        cs = [c for c in f.calls() if c.matches(r"Notify::notify_waiters$")]
        if cs:
            bcast.append(f)
    run.check(len(bcast) == 1, "single-broadcast", "notify_waiters is called in one body (%s)" % [f.id for f in bcast], "notify_waiters is called in %d bodies" % len(bcast))
    if not bcast:
        return
    b = bcast[0]
    run.saw(len(b.blocks), b)
    run.check(len([c for c in b.calls() if c.matches(r"Notify::notify_one$")]) == 1, "stores-permit", "the broadcast also stores one permit (notify_one) for a waiter created later",
              "the broadcast no longer stores a permit: a waiter created after the stop would hang", b.where())
    w = [c for c in b.calls() if c.matches(r"Notify::notify_waiters$")][0]
    run.check(b.must_pass(b.entry(), [w.site]), "broadcast-unconditional", "notify_waiters on every path of the broadcast fn", None, b.where())
    callers = db.calls_of(b.id)
    run.check(len(callers) == 1 and callers[0].fn.id.endswith("ActorCell::set_status"), "broadcast-caller", "the broadcast is called only from ActorCell::set_status", "broadcast callers: %s" % [c.fn.id for c in callers])
    if not callers:
        return
    c = callers[0]
    f = c.fn
    run.saw(len(f.blocks), f)
    sts = status_tests(f)
    def prev_from_rmw(s):
        return any(r["k"] == "call" and r["call"].is_("ActorProperties::set_status") for r in s["subject"])
    def on_param(s):
        return any(r["k"] == "arg" and r["local"] == 2 for r in s["subject"])
    gp = status_gates_at(f, c.site, subject=on_param)
    gr = status_gates_at(f, c.site, subject=prev_from_rmw)
    run.check(bool(gp) and admitted_statuses(gp) == ["Stopped"], "guard:status==Stopped", "broadcast reachable only when the requested status is Stopped (%s)" % show_gates(gp),
              "broadcast reachable for requested status %s" % (admitted_statuses(gp) if gp else "any (no guard)"), c.where())
    run.check(bool(gr) and admitted_statuses(gr) == STATUS_ORDER[:-1], "guard:previous<Stopped", "broadcast elected by the atomic RMW's previous value being below Stopped (%s)" % show_gates(gr),
              "broadcast not elected by the RMW's previous value being < Stopped (admits %s): every set_status(Stopped) would notify / or none" % (admitted_statuses(gr) if gr else "no guard"), c.where())
    # inner set_status = fetch_max returning previous
    inner = [x for x in db.crate_fns("ractor") if x.id.endswith("ActorProperties::set_status")]
    if inner:
        i = inner[0]
        fm = [cc for cc in i.calls() if cc.matches(r"Atomic::<u8>::fetch_max$|AtomicU8::fetch_max$")]
        okret = fm and any(r["k"] == "call" and r["call"].bb == fm[0].bb for r in i.origins([0, []], through=lambda cc: 0 if cc.is_("status_from_u8") else None))
        run.check(bool(okret), "previous=rmw-return", "ActorProperties::set_status returns the fetch_max result (the previous status)", "inner set_status does not return the RMW's previous value", i.where())


def r3(run, db):
    c05.r1(run, db)
    m = model(db)
    fin = m.guard_finish()
    for rt in m.runtimes():
        blk = m.spawn_block(rt)
        lp_root = db.root_of(m.loop_body(rt))
        lc = [x for x in blk.calls() if x.callee == lp_root.id]
        aw = await_of_call(blk, lc[0]) if lc else []
        fc = [c for c in blk.calls() if c.callee == fin.id]
        run.check(bool(aw) and bool(fc) and aw[0].completes_before(fc[0].site), "%s|finish-after-loop" % rt, "finish (hence Stopped and the broadcast) is dominated by completion of the processing loop, which contains post_stop",
                  "finish can run before the processing loop (and post_stop) completed", blk.where())


def r4(run, db):
    check_status_writers(run, db)
    # the status field is only touched inside actor_properties
    sw, _ = status_field(db)
    for f in db.crate_fns("ractor"):
        for site, s in f.stmts():
            if s["k"] == "assign" and s["rv"]["k"] == "ref":
                names = [proj_field_name(e) for e in s["rv"]["p"][1] if e.startswith("f:")]
                if sw in names and "ActorProperties" in " ".join(f.local_ty(s["rv"]["p"][0]) for _ in [0]):
                    run.check("ActorProperties" in f.id or "actor_properties" in f.id, "status-field-access:%s" % f.id, "%s accesses the status word inside ActorProperties" % f.id, "%s touches the status word directly" % f.id, f.where(s.get("l")))


def r5(run, db):
    fs = [f for f in db.crate_fns("ractor") if f.id.endswith("ActorCell::set_status")]
    run.anchor("ActorCell::set_status", len(fs), 1)
    f = fs[0]
    run.saw(len(f.blocks), f)
    rmw = [c for c in f.calls() if c.is_("ActorProperties::set_status")]
    run.anchor("set_status RMW call", len(rmw), 1)
    if not rmw:
        return
    sts = status_tests(f)
    ge = [s for s in sts if s["op"] == ">=" and s["const"] == "Stopping" and any(r["k"] == "arg" and r["local"] == 2 for r in s["subject"])]
    lt = [s for s in sts if s["op"] == "<" and s["const"] == "Stopping" and any(r["k"] == "call" and r["call"].bb == rmw[0].bb for r in s["subject"])]
    cleanup = [c for c in f.calls() if c.matches(r"registry::unregister$|pid_registry::unregister_pid$|pid_registry::demonitor$|pg::demonitor_all$|pg::leave_all$")]
    want = 5 if db.tag in ("rc", "clus", "rcatr", "ws") else 3
    run.anchor("exit cleanup calls", len(cleanup), want, f.where())
    for c in cleanup:
        nm = c.name.split("::")[-1]
        run.check(f.dominates(rmw[0].site, c.site), "published-first:" + nm, "%s runs after the status RMW (status published before the reverse indexes are drained)" % nm, "%s can run before the status is published" % nm, c.where())
        gp = status_gates_at(f, c.site, subject=lambda s: any(r["k"] == "arg" and r["local"] == 2 for r in s["subject"]))
        gr = status_gates_at(f, c.site, subject=lambda s: any(r["k"] == "call" and r["call"].bb == rmw[0].bb for r in s["subject"]))
        run.check(bool(gp) and admitted_statuses(gp) == ["Stopping", "Stopped"], "guard>=Stopping:" + nm, "%s reachable exactly when the requested status is Stopping or Stopped" % nm,
                  "%s reachable for requested status %s" % (nm, admitted_statuses(gp) if gp else "any (no guard)"), c.where())
        run.check(bool(gr) and admitted_statuses(gr) == STATUS_ORDER[:5], "elected-once:" + nm, "%s elected by the RMW's previous value being below Stopping: runs once, on the first transition" % nm,
                  "%s is not elected by the RMW's previous value being < Stopping (admits %s): the cleanup can run twice and hit a successor's registration, or not at all" % (nm, admitted_statuses(gr) if gr else "no guard"), c.where())
    # the process-group cleanup applies to every cell, remote-actor proxies included (they join and monitor groups like any
    # other cell); only the *name* release is local-only (C10.R6)
    for c in cleanup:
        if c.matches(r"pg::demonitor_all$|pg::leave_all$"):
            loc = [x for x in f.calls() if x.matches(r"ActorId::is_local$")]
            gated = [x for x in loc if any(e and f.edge_dominates(e, c.site) for e in (true_edge(f, x), false_edge(f, x)))]
            run.check(not gated, "pg-cleanup-for-every-cell:" + c.name.split("::")[-1], "%s is not restricted to local cells" % c.name.split("::")[-1],
                      "%s runs only for local ids: a remote-actor proxy that exits stays a member / monitor of its groups after its wait() returned" % c.name.split("::")[-1], c.where())
    # unregister takes this actor's own name / id
    for c in cleanup:
        if c.matches(r"registry::unregister$"):
            okn = any(r["k"] == "call" and r["call"].is_("get_name") for r in f.origins(c.args[0]))
            run.check(okn, "unregister-own-name", "unregister(name) uses this cell's own name", "unregister uses a foreign name", c.where())


def r6(run, db):
    ws = [f for f in db.crate_fns("ractor") if f.id.endswith("ActorProperties::wait")]
    run.anchor("ActorProperties::wait", len(ws), 1)
    reach = db.reach_fns([ws[0].id])
    bad = [x for x in reach if MUTATING.search(x)]
    run.check(not bad, "wait-pure", "wait()'s call closure (%d bodies) contains no actor-mutating function" % len(reach), "wait() reaches %s" % bad, ws[0].where())
    for nm, req in (("send_stop_and_wait", "send_stop"), ("send_signal_and_wait", "send_signal"), ("drain_and_wait", "drain")):
        fs = [f for f in db.crate_fns("ractor") if re.search(r"ActorProperties::%s::\{closure#0\}$" % nm, f.id)]
        run.anchor(nm, len(fs), 1)
        for f in fs:
            rq = [c for c in f.calls() if c.callee and c.callee.endswith("ActorProperties::" + req)]
            wt = [c for c in f.calls() if c.callee == ws[0].id]
            good = len(rq) == 1 and len(wt) == 1 and not f.in_cycle(rq[0].site) and f.reaches_after(rq[0].site, wt[0].site) and not f.reaches_after(wt[0].site, rq[0].site)
            run.check(good, nm + "|request-once-then-wait", "%s issues %s once and then waits" % (nm, req), "%s: %d requests, %d waits" % (nm, len(rq), len(wt)), f.where())
            if wt:
                aw = await_of_call(f, wt[0])
                # the Ok values that become this function's result (an intermediate Ok -- the request's own result -- is not one)
                oks = ok_return_sites(f) or [site for site, s_ in f.aggregates(adt="std::result::Result", variant="Ok")]
                okd = bool(aw) and bool(oks) and all(aw[0].completes_before(s_) for s_ in oks)
                run.check(okd, nm + "|ok-only-after-wait", "%s returns Ok only after wait() completed (an Ok always means the actor has fully stopped)" % nm,
                          "%s can return Ok(()) without having waited (e.g. when the one-shot port was already consumed): a repeated/late call reports success while the actor is still running post_stop" % nm, f.where())
    # timeout variants: the inner future is the argument of the crate's timeout; the timeout arm performs no request
    for nm in ("kill_and_wait", "stop_and_wait", "drain_and_wait", "wait"):
        fs = [f for f in db.crate_fns("ractor") if re.search(r"ActorCell::%s::\{closure#0\}$" % nm, f.id)]
        run.anchor("ActorCell::" + nm, len(fs), 1)
        for f in fs:
            tos = [c for c in f.calls() if c.callee and re.search(r"concurrency::\w+::timeout$", c.callee)]
            run.check(len(tos) == 1, nm + "|one-timeout", "one timeout wrapper", "%d timeout wrappers" % len(tos), f.where())
            muts = [c for c in f.calls() if MUTATING.search(c.callee or "") and not (c.callee or "").endswith("_and_wait")]
            run.check(not muts, nm + "|no-effect-on-timeout", "%s performs no actor mutation of its own (a timeout only reports)" % nm, "%s calls %s" % (nm, [c.name for c in muts]), f.where())


def lock_graph(db, crate="ractor"):
    """edges lockA -> lockB when B is acquired (directly or in a callee) while A is held"""
    acq_by_fn = {}
    for f in db.crate_fns(crate):
        a = acquisitions(f)
        if a:
            acq_by_fn[f.id] = a
    # transitive locks acquired by a function
    memo = {}
    def locks_of(fid, stack=()):
        if fid in memo:
            return memo[fid]
        if fid in stack:
            return set()
        out = set()
        for a in acq_by_fn.get(fid, []):
            out |= set(a.lock_ids)
        f = db.fns.get(fid)
        if f is not None:
            for g in db.callees(f):
                out |= locks_of(g, stack + (fid,))
        memo[fid] = out
        return out
    edges = {}
    for fid, acqs in acq_by_fn.items():
        f = db.fns[fid]
        for a in acqs:
            if a.transient:
                continue
            def held_here(site):
                hs = set()
                for o in acqs:
                    if not o.transient and site in o.held:
                        hs |= set(o.lock_ids)
                return hs
            for b in acqs:
                if b is not a and b.call.site in a.held:
                    for x in a.lock_ids:
                        for y in b.lock_ids:
                            edges.setdefault((x, y), []).append((f, b.call, held_here(b.call.site)))
            for c in f.calls():
                if c.site in a.held:
                    for nm in (c.resolved, c.callee):
                        if nm and nm in db.fns and db.fns[nm].crate == crate:
                            for y in locks_of(nm):
                                for x in a.lock_ids:
                                    edges.setdefault((x, y), []).append((f, c, held_here(c.site)))
    return edges, acq_by_fn


def norm_lock(i):
    i = re.sub(r"^call:.*?\.", "field:", i) if i.startswith("call:") and "." in i and "get_monitor" not in i and "get_actor_registry" not in i and "get_pid" not in i else i
    i = i.replace(".inner", "").replace(".0", "")
    return i


def r7(run, db):
    edges, acq_by_fn = lock_graph(db)
    n = 0
    for fid in acq_by_fn:
        f = db.fns[fid]
        n += len(acq_by_fn[fid])
        run.saw(1, f)
        for a, y in yields_under_guard(f, acq_by_fn[fid]):
            run.fail("yield-under-guard:%s:%s" % (fid, ",".join(a.lock_ids)), "%s awaits while holding a guard of %s (a blocked task would stall every exit/waiter needing that lock)" % (fid, a.lock_ids), a.call.where())
    run.anchor("lock acquisitions analysed", n, 30)
    g = {}
    gate = {}
    for (x, y), wit in edges.items():
        x2, y2 = norm_lock(x), norm_lock(y)
        g.setdefault(x2, {}).setdefault(y2, wit[0])
        # locks held at *every* witness of this edge (other than x itself): a global static among them serialises the edge
        common = None
        for w in wit:
            hs = set(norm_lock(h) for h in w[2]) - {x2}
            common = hs if common is None else (common & hs)
        gate[(x2, y2)] = set(h for h in (common or set()) if h.startswith("static:"))
    full = g
    # H: edges not serialised by a global gatekeeper lock.  A deadlock cycle can contain at most one edge per gatekeeper.
    H = {}
    for u, vs in full.items():
        for v, w in vs.items():
            if not gate.get((u, v)):
                H.setdefault(u, {})[v] = w
    def path(src, dst):
        seen, st = {src}, [src]
        while st:
            a_ = st.pop()
            if a_ == dst:
                return True
            for b_ in H.get(a_, {}):
                if b_ not in seen and b_ != a_:
                    seen.add(b_)
                    st.append(b_)
        return False
    for (u, v), gk in gate.items():
        if gk and u != v and path(v, u):
            run.fail("lock-cycle:%s->%s" % (u, v), "the edge %s -> %s (serialised by %s) closes a cycle with un-serialised acquisitions" % (u, v, sorted(gk)), None)
    n_gated = len([1 for k_, v_ in gate.items() if v_])
    run.ok("gatekept-edges", "%d nested acquisitions are serialised by a global lock (%s); each was checked against the un-serialised graph" % (n_gated, sorted(set(x for v_ in gate.values() for x in v_))))
    g = H
    cyc = []
    color = {}
    def dfs(u, path):
        color[u] = 1
        for v in g.get(u, {}):
            if v == u:
                continue
            if color.get(v) == 1:
                cyc.append(path + [u, v])
            elif color.get(v) is None:
                dfs(v, path + [u])
        color[u] = 2
    for u in list(g):
        if color.get(u) is None:
            dfs(u, [])
    for c in cyc:
        run.fail("lock-cycle:" + "->".join(c[-2:]), "lock-order cycle: %s" % " -> ".join(c), None)
    run.check(not cyc, "lock-order-acyclic", "lock-order graph over %d locks / %d edges is acyclic (self-edges between per-actor locks are serialised by the global tree lock)" % (len(g), sum(len(v) for v in g.values())), "lock-order cycle found")
    # self edges: allowed only for per-actor fields taken under the tree lock
    for u, vs in g.items():
        if u in vs:
            f, c = vs[u]
            tree_held = any(any("TREE_MUTATION_LOCK" in i for i in a.lock_ids) and c.site in a.held for a in acq_by_fn.get(f.id, []))
            okself = tree_held or u.startswith("field:") and not u.startswith("static:")
            run.check(okself and ("dashmap" not in u), "self-edge:%s" % u, "nested acquisition of two instances of %s is ordered by the tree lock" % u, "re-entrant acquisition of %s" % u, c.where())


def r8(run, db):
    """= C04.R7: `its supervisor has been sent the terminal event` also when the actor's task is cancelled before it ever ran:
    the lifecycle guard is armed (mark_running) before the loop task exists"""
    from . import c04
    c04.r7(run, db)


Q = ["dflt", "rc"]
TH = ["dflt", "rc", "atr", "astd", "mon"]
RULES = [{"id": "C06.R%d" % i, "fn": f, "quick": Q, "thorough": TH} for i, f in enumerate([r1, r2, r3, r4, r5, r6, r7, r8], 1)]

"""C14 -- Factory routing keeps its promises about where a job runs (structural clauses)."""
import re
from .model import *
from .facts import Site, op_place, Call, proj_field_name
from .bits import sym, show, cmp_tests, nonzero_edges
from . import c13
from .fields import fields

EXPLANATION = ("decides necessary structural conditions only: `a worker handles one job at a time` as an induction over the only writer of the in-flight "
               "map (insertions happen only in dispatch_job, and every call site of dispatch_job is dominated by an emptiness witness: is_empty() true edge, "
               "a mem::take of the map, or the matched-removal edge); custom hashing reduces the user hash modulo the non-zero pool size and filters by pool "
               "membership; key-persistent routing consults the pending-key table before hashing; sticky routing scans for a worker already processing the "
               "key before any availability-based choice; the pending-key table is written only by its track/untrack pair, tracked on every accepted "
               "enqueue and untracked on every path that retires a job; a finishing worker gets more work only if it is not draining, and idle events are "
               "followed by a pull from the factory queue. NOT decided: affinity/order across resize and replacement histories; idle-vs-backlog at quiescence.")
TRUSTED = ["C01 for worker actors (a worker actor handles one message at a time)", "HashMap semantics"]
ASSUMPTIONS = ["custom hash functions are arbitrary total functions"]

DOC = {
 "C14.R1": "|in-flight| <= 1 by induction: in-flight insertion only in dispatch_job (on the cast Ok edge); every dispatch_job call site is dominated by an emptiness witness",
 "C14.R2": "custom routing: the hasher's result is used only as the left operand of `% pool_size`, behind the pool_size == 0 return, and filtered by contains_key; hash_with_max reduces modulo its bound; key-persistent passes pool_size under the same guard",
 "C14.R3": "affinity first: key-persistent returns the worker holding a pending job of the key before hashing; sticky: every availability-based choice is dominated by the failed scan for a worker processing the key, and the hint is accepted early only if it is processing the key",
 "C14.R4": "pending-key table: mutated only by track/untrack (+constructor); track dominated by accept on the enqueue path; untrack on completion match, expiry, oldest-shed, abandoned in-flight, non-returnable failed hand-over",
 "C14.R5": "= C13.R7 + shrink: a finishing draining worker is not given work; shrink marks working workers draining and removes idle ones from both maps",
 "C14.R6": "idle events pull: completion (not draining), replacement and growth are followed on their path by try_route_next_active_job and the availability callback",
 "C14.R8": "= C13.R5: submission order per key on one worker needs a bounced job to return to the queue *front* and a replacement to re-drive the queue head",
 "C14.R9": "= C13.R6: the ActorTerminated and ActorFailed arms agree (replacement inserted, queue re-driven, availability announced)",
 "C14.R7": "round-robin: the cursor advances on every non-hinted choice and wraps at pool_size; pool_size == 0 returns None first",
}

WP = r"WorkerProperties::<TKey, TMsg>::"


def wp(db, name):
    f = db.one(WP + name + "$")
    if f is None:
        raise AnchorLost("WorkerProperties::" + name)
    return f


def field_of(fn, op):
    out = []
    for r in fn.origins(op, through=lambda c: 0 if c.matches(r"Deref>::deref$|DerefMut>::deref_mut$") else None):
        for e in r.get("proj", []) + r.get("trail", []):
            if e.startswith("f:") and proj_field_name(e):
                out.append(proj_field_name(e))
    return out


def r1(run, db):
    dj = wp(db, "dispatch_job")
    ins = []
    for f in db.crate_fns("ractor"):
        for c in f.calls():
            if c.matches(r"HashMap::<K, V, S, A>::(insert|entry|extend|get_mut)$|Extend") and fields(db).wp_inflight in field_of(f, c.args[0]):
                ins.append(c)
    run.check(len(ins) == 1 and ins[0].fn.id == dj.id, "single-inflight-writer", "the in-flight map gains entries only in dispatch_job", "in-flight map written at %s" % [c.fn.id for c in ins])
    calls = db.calls_of(dj.id)
    run.anchor("dispatch_job call sites", len(calls), 4)
    for c in calls:
        f = c.fn
        run.saw(1, f)
        wit = None
        for x in f.calls():
            if x.matches(r"HashMap::<K, V, S, A>::is_empty$") and fields(db).wp_inflight in field_of(f, x.args[0]):
                te = true_edge(f, x)
                if te and f.edge_dominates(te, c.site):
                    wit = "true edge of curr_jobs.is_empty()"
            if x.matches(r"mem::take$") and fields(db).wp_inflight in field_of(f, x.args[0]) and f.dominates(x.site, c.site):
                wit = "mem::take(&mut curr_jobs)"
            if x.matches(r"HashMap::<K, V, S, A>::remove$") and fields(db).wp_inflight in field_of(f, x.args[0]):
                se = nested_variant_edge(f, x, ["Some"])
                iss = [y for y in f.calls() if y.matches(r"Option::<T>::is_some$") and any(r["k"] == "call" and r["call"].bb == x.bb for r in f.origins(y.args[0]))]
                if (se and f.edge_dominates(se, c.site)) or any(true_edge(f, y) and f.edge_dominates(true_edge(f, y), c.site) for y in iss):
                    wit = "matched removal from curr_jobs (inductive step: <=1 before, 0 after)"
        # no second dispatch on the same path after the witness
        others = [o for o in calls if o.fn.id == f.id and o.bb != c.bb and (f.reaches_after(c.site, o.site))]
        run.check(wit is not None and not others, "dispatch-on-empty:%s@%s" % (f.id.split("::")[-1], "x"), "dispatch_job in %s is dominated by: %s" % (f.id.split("::")[-1], wit),
                  "dispatch_job in %s is not dominated by an emptiness witness of the in-flight map (two jobs could be in flight on one worker)%s" % (f.id, " / two dispatches on one path" if others else ""), c.where())


def r2(run, db):
    cr = [f for f in db.crate_fns("ractor") if f.raw.get("trait_item", "").endswith("Router::choose_target_worker") and "CustomRouting" in (f.raw.get("impl_self") or "")]
    run.anchor("CustomRouting::choose_target_worker", len(cr), 1)
    for f in cr:
        run.saw(len(f.blocks), f)
        hs = [c for c in f.calls() if c.matches(r"CustomHashFunction::hash$")]
        run.check(len(hs) == 1, "custom|one-hash", "one user-hash call", "%d user-hash calls" % len(hs), f.where())
        if not hs:
            continue
        h = hs[0]
        uses = f.flows_forward(h.dest[0])[1]
        rems = []
        bad = []
        for site, kind, payload, o in uses:
            if kind == "stmt" and payload["rv"]["k"] == "bin":
                rv = payload["rv"]
                if rv["op"] == "Rem" and op_place(rv["a"]) is not None:
                    rems.append((site, rv))
                elif rv["op"] in ("Eq",) and const_is_zero(rv):
                    pass
                else:
                    bad.append(rv["op"])
            elif kind.startswith("arg"):
                cc = Call(f, site.bb, payload)
                if not cc.matches(r"contains_key$|bool>::then_some$|<impl bool>::then_some$"):
                    bad.append(cc.name)
        rem_ok = False
        for site, rv in rems:
            d = sym(f, rv["b"])
            if d[0] == "arg" and "usize" in f.local_ty(d[1]):
                rem_ok = True
        run.check(rem_ok, "custom|mod-pool-size", "the user hash is reduced `% pool_size` (the pool_size parameter)", "the user hash is not reduced modulo the pool_size parameter", h.where())
        zt = [t for t in cmp_tests(f) if t["op"] == "Eq" and t["a"][0] == "arg" and t["b"] == ("c", 0)]
        run.check(any(f.edge_dominates(e_, h.site) for e_ in nonzero_edges(f, lambda x: x[0] == "arg")), "custom|zero-guard", "`pool_size == 0` returns before hashing (no remainder by zero)", "no pool_size == 0 guard before the modulo", f.where())
        ck = [c for c in f.calls() if c.matches(r"HashMap::<K, V, S, A>::contains_key$")]
        run.check(len(ck) == 1 and f.reaches_after(h.site, ck[0].site), "custom|membership-filter", "the reduced index is filtered by worker_pool.contains_key", "the chosen index is not checked against the pool", f.where())
        # result derives from the reduced value only
        ret = f.origins([0, []], through=lambda c: 1 if c.matches(r"then_some$") else None)
        okret = all(r["k"] in ("bin", "agg", "const") or (r["k"] == "call") for r in ret)
        run.check(okret, "custom|returns-reduced", "the returned id derives from the reduced hash (or None)", None, f.where())
    hw = db.fn("ractor::factory::hash::hash_with_max")
    run.check(hw is not None, "hash_with_max", "hash_with_max found", "hash_with_max not found")
    if hw:
        rets = hw.origins([0, []])
        okm = False
        for site, s in hw.stmts():
            if s["k"] == "assign" and s["rv"]["k"] == "bin" and s["rv"]["op"] == "Rem":
                d = sym(hw, s["rv"]["b"])
                okm = okm or (d[0] == "arg" and d[1] == 2)
        run.check(okm, "hash_with_max|mod-bound", "hash_with_max reduces the hash modulo its bound parameter", "hash_with_max does not reduce modulo its bound", hw.where())
    kp = [f for f in db.crate_fns("ractor") if f.raw.get("trait_item", "").endswith("Router::choose_target_worker") and "KeyPersistentRouting" in (f.raw.get("impl_self") or "")]
    for f in kp:
        hc = [c for c in f.calls() if c.callee == "ractor::factory::hash::hash_with_max"]
        run.check(len(hc) == 1 and sym(f, hc[0].args[1])[0] == "arg", "kp|hash-bound=pool_size", "key-persistent hashes with the pool_size parameter as bound", "key-persistent hash bound is not pool_size", f.where())
        if hc:
            zt = [t for t in cmp_tests(f) if t["op"] == "Eq" and t["a"][0] == "arg" and t["b"] == ("c", 0)]
            run.check(any(f.edge_dominates(e_, hc[0].site) for e_ in nonzero_edges(f, lambda x: x[0] == "arg")), "kp|zero-guard", "`pool_size == 0` returns before hashing", "no zero guard before hash_with_max", f.where())
            ck = [c for c in f.calls() if c.matches(r"HashMap::<K, V, S, A>::contains_key$")]
            run.check(any(f.reaches_after(hc[0].site, c.site) for c in ck), "kp|membership-filter", "hashed index filtered by contains_key", None, f.where())


def const_is_zero(rv):
    return rv["b"].get("k") == "const" and rv["b"].get("int") == "0"


def r3(run, db):
    kp = [f for f in db.crate_fns("ractor") if f.raw.get("trait_item", "").endswith("Router::choose_target_worker") and "KeyPersistentRouting" in (f.raw.get("impl_self") or "")]
    run.anchor("KeyPersistent choose", len(kp), 1)
    for f in kp:
        run.saw(len(f.blocks), f)
        scan = [c for c in f.calls() if c.matches(r"Iterator::find_map$|Iterator::find$")]
        has = [g for g in db.children(f.id) if any(c.callee and c.callee.endswith("::has_pending_key") for c in g.calls())]
        hc = [c for c in f.calls() if c.callee == "ractor::factory::hash::hash_with_max"]
        run.check(len(scan) == 1 and len(has) >= 1, "kp|pending-scan", "key-persistent scans the pool for a worker with a pending job of the key", "pending-key scan missing", f.where())
        if scan and hc:
            ne = nested_variant_edge(f, scan[0], ["None"]) or None
            se = nested_variant_edge(f, scan[0], ["Some"])
            if se is None:
                # `let owner = scan.map(..); if owner.is_some() { return owner }`
                thr_ = lambda cc: 0 if cc.matches(r"Option::<T>::(map|as_ref|copied|cloned)$") else None
                for y in f.calls():
                    if y.matches(r"Option::<T>::is_some$") and any(r["k"] == "call" and r["call"].bb == scan[0].bb for r in f.origins(y.args[0], through=thr_)):
                        se = true_edge(f, y)
                    if y.matches(r"Option::<T>::is_none$") and any(r["k"] == "call" and r["call"].bb == scan[0].bb for r in f.origins(y.args[0], through=thr_)):
                        se = false_edge(f, y)
                if se is None:
                    for sw in switches_on_value_of(f, scan[0], through=thr_):
                        if "Some" in sw["info"]["edges"] and not sw["path"]:
                            se = (sw["site"].bb, sw["info"]["edges"]["Some"])
            run.check(f.dominates(scan[0].site, hc[0].site) and se is not None and hc[0].site not in edge_path_sites(f, [se]), "kp|scan-before-hash", "the scan precedes hashing and a hit returns without hashing (key stays with its worker across resizes)",
                      "hashing can override a worker that still holds pending jobs of the key", hc[0].where())
    st = [f for f in db.crate_fns("ractor") if f.raw.get("trait_item", "").endswith("Router::choose_target_worker") and "StickyQueuerRouting" in (f.raw.get("impl_self") or "")]
    run.anchor("Sticky choose", len(st), 1)
    for f in st:
        run.saw(len(f.blocks), f)
        scan = [c for c in f.calls() if c.matches(r"Iterator::find$|Iterator::find_map$|Iterator::position$")]
        # the scan asks "is this key owed to that worker?" -- a key is owed while a job of it is in flight *or* waits in the
        # worker's private queue (e.g. retained after a failed hand-over to a dying worker, until the replacement takes it).
        # The pending-key table counts both; the in-flight map alone does not.
        PEND = fields(db).wp_pending
        def reads_pending(g, depth=0):
            for st_site, st in g.stmts():
                if st["k"] == "assign" and st["rv"]["k"] in ("ref", "use", "rawptr"):
                    pl = st["rv"].get("p") or (op_place(st["rv"].get("op")) if st["rv"].get("op") else None)
                    if pl and any((proj_field_name(e) or "") == PEND for e in pl[1] if e.startswith("f:")):
                        return True
            if depth < 2:
                for c in g.calls():
                    h = db.fns.get(c.resolved or c.callee or "")
                    if h is not None and h.crate == "ractor" and "WorkerProperties" in h.id and reads_pending(h, depth + 1):
                        return True
            return False
        preds = [g for g in db.children(f.id) if any(c.callee and re.search(r"::(is_processing_key|has_pending_key)$", c.callee) for c in g.calls())]
        # the scan over the pool: the find-like call that is handed one of these predicates (other scans -- the idle-worker
        # deque -- have their own)
        pscan = [c for c in scan if any(r["k"] == "agg" and r["stmt"]["rv"].get("def") in [g.id for g in preds] for a_ in c.args[1:] for r in f.origins(a_))]
        if pscan:
            scan = pscan
        run.check(len(scan) == 1 and len(preds) >= 1, "sticky|processing-scan", "sticky scans the pool for a worker the key is owed to", "key scan missing", f.where())
        for g in preds:
            run.check(reads_pending(g), "sticky|scan-counts-queued-jobs", "the scan predicate consults the pending-key table (jobs in flight and queued)",
                      "the sticky scan looks only at jobs in flight: a key whose job waits in a worker's private queue (retained after a failed hand-over to a dying worker) looks free, its next job goes to another worker, and when the replacement takes the retained job two jobs of one key run on two workers", g.where())
        av_ = calls_incl_closures(db, f, lambda c: bool(c.callee and c.callee.endswith("::is_available")))
        av = [c for _s, c in av_]
        av_site = {id(c): s_ for s_, c in av_}
        run.anchor("sticky availability tests", len(av), 2, f.where())
        if scan:
            iss = [c for c in f.calls() if c.matches(r"Option::<T>::is_some$") and any(r["k"] == "call" and r["call"].bb == scan[0].bb for r in f.origins(c.args[0], through=lambda cc: 0 if cc.matches(r"Option::<T>::map$") else None))]
            miss = [false_edge(f, c) for c in iss if false_edge(f, c)]
            ne = nested_variant_edge(f, scan[0], ["None"])
            if ne:
                miss.append(ne)
            for c in av:
                run.check(any(f.edge_dominates(e, av_site[id(c)]) for e in miss), "sticky|availability-after-scan@L%s" % ("hint" if c is av[0] else "deque"), "an availability-based choice is made only after the scan found no worker processing the key",
                          "a worker can be chosen by availability before the pool was scanned for the key: two jobs of one key can run on two workers at once", c.where())
        # early hint acceptance only on is_processing_key
        ipk = [c for c in f.calls() if c.callee and re.search(r"::(is_processing_key|has_pending_key)$", c.callee)]
        for c in ipk:
            if scan and not f.dominates(scan[0].site, c.site):
                te = true_edge(f, c)
                run.check(te is not None, "sticky|hint-if-processing", "before the scan the hint is accepted only when the key is owed to it", None, c.where())
                h = db.fns.get(c.resolved or c.callee or "")
                run.check(h is not None and reads_pending(h, 1), "sticky|hint-counts-queued-jobs", "the early hint test consults the pending-key table", "the early hint test looks only at jobs in flight", c.where())


def r4(run, db):
    tr, un = wp(db, "track_pending_key"), wp(db, "untrack_pending_key")
    writers = set()
    for f in db.crate_fns("ractor"):
        for site, s in f.stmts():
            if s["k"] == "assign" and s["rv"]["k"] == "ref" and s["rv"].get("mut"):
                if fields(db).wp_pending in [proj_field_name(e) for e in s["rv"]["p"][1] if e.startswith("f:")]:
                    writers.add(f.id)
            if s["k"] == "assign" and fields(db).wp_pending in [proj_field_name(e) for e in s["lhs"][1] if e.startswith("f:")]:
                writers.add(f.id)
    run.check(writers <= {tr.id, un.id}, "pending-writers", "the pending-key table is mutated only by track/untrack", "pending-key table mutated by %s" % sorted(writers - {tr.id, un.id}))
    run.anchor("pending-key writers", len(writers), 2)
    eq = wp(db, "enqueue_job")
    run.saw(len(eq.blocks), eq)
    tc = [c for c in eq.calls() if c.callee == tr.id]
    ac = [c for c in eq.calls() if c.matches(r"job::Job::<TKey, TMsg>::accept$")]
    run.check(len(tc) == 1 and len(ac) == 1 and eq.dominates(ac[0].site, tc[0].site), "track-on-accept", "enqueue_job tracks the key right after accepting the job", "track/accept pairing broken", eq.where())
    # every queue/dispatch sink in enqueue_job after accept is dominated by track
    for c in eq.calls():
        if c.matches(r"VecDeque::<T, A>::push_back$|::dispatch_job$") and tc:
            run.check(eq.dominates(tc[0].site, c.site), "tracked-before-%s" % c.name.split("::")[-1], "the job is tracked before it is queued/dispatched", "a job is queued without being tracked", c.where())
    # untrack sites
    want = {"worker_complete": "completion matched", "get_next_non_expired_job": "expired in queue", "enqueue_job": "oldest shed", "replace_worker": "abandoned in flight", "dispatch_job": "non-returnable failed hand-over"}
    got = {}
    for c in db.calls_of(un.id):
        got.setdefault(c.fn.id.split("::")[-1], []).append(c)
    for nm, why in want.items():
        run.check(nm in got, "untrack:%s" % nm, "untrack on %s (%s)" % (why, nm), "no untrack in %s (%s): the key stays pinned forever / is released early" % (nm, why))
    wc = wp(db, "worker_complete")
    u = [c for c in wc.calls() if c.callee == un.id]
    rm = [c for c in wc.calls() if c.matches(r"HashMap::<K, V, S, A>::remove$")]
    if u and rm:
        iss = [y for y in wc.calls() if y.matches(r"Option::<T>::is_some$")]
        se_ = nested_variant_edge(wc, rm[0], ["Some"])
        run.check(any(true_edge(wc, y) and wc.edge_dominates(true_edge(wc, y), u[0].site) for y in iss) or bool(se_ and wc.edge_dominates(se_, u[0].site)), "untrack-only-on-match", "completion untracks only when the key was in flight", "a stale completion untracks a key", u[0].where())


def r5(run, db):
    c13.r7(run, db)
    # the body that shrinks the pool: the one body of FactoryState that marks workers as draining (today `shrink_pool`;
    # located by what it does, so merging it into its only caller or renaming it changes nothing)
    shs = [f for f in db.crate_fns("ractor") if "FactoryState" in f.id and any(c.callee and c.callee.endswith("::set_draining") and f.value_consts(c.args[1]) == ["true"] for c in f.calls())]
    run.anchor("pool-shrinking body", len(shs), 1)
    sh = run.need(shs[0] if len(shs) == 1 else None, "shrink_pool")
    run.saw(len(sh.blocks), sh)
    iw = [c for c in sh.calls() if c.callee and c.callee.endswith("::is_working")]
    sd = [c for c in sh.calls() if c.callee and c.callee.endswith("::set_draining")]
    stop = [c for c in sh.calls() if c.matches(r"ActorCell::stop$")]
    rem = [c for c in sh.calls() if c.matches(r"OccupiedEntry::<'a, K, V(, A)?>::remove$|HashMap::<K, V, S, A>::remove$")]
    run.check(len(iw) == 1 and len(sd) == 1 and len(stop) == 1 and len(rem) >= 2, "shrink|shape", "shrink: is_working test, set_draining, stop, removal from both maps", "shrink shape changed", sh.where())
    if iw and sd and stop:
        te, fe = true_edge(sh, iw[0]), false_edge(sh, iw[0])
        run.check(te and sh.edge_dominates(te, sd[0].site) and sh.value_consts(sd[0].args[1]) == ["true"], "shrink|busy->draining", "a working worker is marked draining", None, sd[0].where())
        run.check(fe and sh.edge_dominates(fe, stop[0].site) and all(sh.edge_dominates(fe, r.site) for r in rem), "shrink|idle->removed", "an idle worker is stopped and removed from both maps", "a working worker can be stopped by shrink", stop[0].where())


def r6(run, db):
    wf = run.need(db.one(r"FactoryState::<.*>::worker_finished_job$"), "worker_finished_job")
    route = [c for c in wf.calls() if c.callee and c.callee.endswith("::try_route_next_active_job")]
    cb = [c for c in wf.calls() if c.matches(r"Router::on_worker_availability_change$")]
    run.check(len(route) == 1 and len(cb) == 1 and wf.dominates(route[0].site, cb[0].site), "finished|pull-then-callback", "a finishing (non-draining) worker pulls from the factory queue, then the availability callback runs if it is still idle", "pull/callback pairing broken", wf.where())
    if route:
        okh = any(r["k"] == "agg" and r["stmt"]["rv"].get("variant") == "Some" for r in wf.origins(route[0].args[1]))
        run.check(okh, "finished|hinted", "the pull is hinted with the finishing worker", None, route[0].where())
    rz = [f for f in db.crate_fns("ractor") if re.search(r"FactoryState::<.*>::resize_pool::\{closure#0\}$", f.id)]
    for f in rz:
        rt = [c for c in f.calls() if c.callee and c.callee.endswith("::try_route_next_active_job")]
        run.check(len(rt) == 1 and f.in_cycle(rt[0].site), "grow|pull", "after growth the factory queue is pulled once per worker slot", "growth does not pull from the queue", f.where())
    hs = [f for f in db.crate_fns("ractor") if re.search(r"factoryimpl::Factory<.*Actor>::handle_supervisor_evt::\{closure#0\}$", f.id)]
    for f in hs:
        rt = [c for c in f.calls() if c.callee and c.callee.endswith("::try_route_next_active_job")]
        rp = [c for c in f.calls() if c.callee and c.callee.endswith("::replace_worker")]
        run.check(len(rt) == len(rp) and len(rp) >= 2 and all(any(f.reaches_after(r.site, t.site) for t in rt) for r in rp), "replace|pull", "each replacement is followed by a pull from the factory queue", "replacement without a pull", f.where())


def r7(run, db):
    rr = [f for f in db.crate_fns("ractor") if f.raw.get("trait_item", "").endswith("Router::choose_target_worker") and "RoundRobinRouting" in (f.raw.get("impl_self") or "")]
    run.anchor("RoundRobin choose", len(rr), 1)
    for f in rr:
        run.saw(len(f.blocks), f)
        stores = [(site, s) for site, s in f.stmts() if s["k"] == "assign" and fields(db).rr_cursor in [proj_field_name(e) for e in s["lhs"][1] if e.startswith("f:")]]
        run.check(len(stores) == 1, "rr|cursor-store", "one store to the cursor", "%d cursor stores" % len(stores), f.where())
        if stores:
            site, s = stores[0]
            v = sym(f, s["rv"]["op"]) if s["rv"]["k"] == "use" else None
            # value is a multiply-defined local: (last+1) or 0 after the wrap test
            ok = v is not None and v[0] == "v"
            defs = f.defs().get(v[1], []) if ok else []
            forms = [show(sym(f, d[2]["rv"]["op"])) if d[2]["rv"]["k"] == "use" else show(sym(f, {"k": "copy", "p": [d[2]["lhs"][0], []]})) for d in defs if d[1] == "assign"]
            adds = [d for d in defs if d[1] == "assign" and d[2]["rv"]["k"] in ("use", "bin")]
            run.check(ok and len(defs) == 2, "rr|cursor=next-or-0", "cursor := last+1, reset to 0 when it reaches pool_size (%s)" % forms, "cursor update shape changed", f.where(s.get("l")))
            # `next >= pool_size` (reset) in any of its spellings: `next < pool_size` (keep), `pool_size <= next`, `pool_size > next`
            wrap = [t for t in cmp_tests(f) if (t["op"] in ("Ge", "Lt") and t["b"][0] == "arg" and t["a"][0] != "arg") or (t["op"] in ("Le", "Gt") and t["a"][0] == "arg" and t["b"][0] != "arg" and t["b"][0] != "c")]
            run.check(len(wrap) == 1, "rr|wraps-at-pool-size", "wrap test `key >= pool_size`", "no wrap test against pool_size", f.where())
        zt = [t for t in cmp_tests(f) if t["op"] == "Eq" and t["a"][0] == "arg" and t["b"] == ("c", 0)]
        nz = nonzero_edges(f, lambda x: x[0] == "arg")
        run.check(bool(nz) and (not stores or any(f.edge_dominates(e_, stores[0][0]) for e_ in nz)), "rr|zero-guard", "pool_size == 0 returns None first", None, f.where())


def r8(run, db):
    c13.r5(run, db)


def r9(run, db):
    """= C13.R6: both supervision arms (ActorTerminated / ActorFailed) re-drive the queue and announce the replacement to the
    router; a replacement the router does not know stays idle while jobs wait in the factory queue"""
    from . import c13
    c13.r6(run, db)


Q = ["dflt"]
TH = ["dflt", "rc", "atr", "astd"]
RULES = [{"id": "C14.R%d" % i, "fn": f, "quick": Q, "thorough": TH} for i, f in enumerate([r1, r2, r3, r4, r5, r6, r7, r8, r9], 1)]

"""MIR-level inlining of private helper functions (a *view*, computed when the facts are loaded).

Why: most rules ask path questions about one body ("on every path from A the body passes B").  Extracting a block of such a
body into a private helper -- the most common clean-up there is -- does not change any of those answers, but it hides A or B
behind a call.  Instead of teaching every rule to look through calls, the fact database offers each body with its private,
synchronous, non-anchor helpers spliced in: the call terminator becomes argument assignments + goto, the helper's blocks are
appended with renumbered locals/blocks, its returns become `dest = _0'; goto target`.

What is never inlined:
  * public functions (API; their names are anchors by construction) and trait-impl methods reached through a trait;
  * functions whose base name occurs in a string literal of any rule module (they are anchors some rule looks up by name);
  * coroutines / closures (only plain fns and methods), recursive calls, anything across crates;
  * bodies that would grow beyond a size limit.
The helper's own body stays in the database unchanged (it is still analysed as a function of its own).
"""
import copy, json, os, re

MAX_BLOCKS = 4000
MAX_DEPTH = 3

_ANCHOR_WORDS = None


LOOKUP_CTX = re.compile(r"(?:\.one|\.is_|\.matches|\.fn|\.all|\.some|\.need|\.search|\.match|\.compile|\.endswith|\.startswith|\.fullmatch|\.findall)\(\s*$")


_BROAD_WORDS = None


def broad_words():
    """every identifier-like word of every string literal of the rule modules (prose included)"""
    global _BROAD_WORDS
    if _BROAD_WORDS is None:
        words = set()
        d = os.path.dirname(os.path.abspath(__file__))
        for fn in os.listdir(d):
            if not fn.endswith(".py") or fn in ("inline.py",):
                continue
            try:
                src = open(os.path.join(d, fn)).read()
            except OSError:
                continue
            for lit in re.findall(r'"((?:[^"\\]|\\.)*)"|\'((?:[^\'\\]|\\.)*)\'', src):
                for w in re.findall(r"[A-Za-z_][A-Za-z0-9_]{1,}", lit[0] or lit[1]):
                    words.add(w)
        _BROAD_WORDS = words
    return _BROAD_WORDS


def anchor_words():
    """identifiers by which some rule looks a function up: words of string literals that are (a) the first argument of a
    lookup / regex call, (b) path-like (contain `::`, `$`, `\\`), (c) a bare snake_case identifier, or (d) on the right-hand
    side of an ALL_CAPS module constant.  Prose (messages, keys with spaces) does not count."""
    global _ANCHOR_WORDS
    if _ANCHOR_WORDS is None:
        words = set()
        d = os.path.dirname(os.path.abspath(__file__))
        for fn in os.listdir(d):
            if not fn.endswith(".py") or fn in ("inline.py",):
                continue
            try:
                src = open(os.path.join(d, fn)).read()
            except OSError:
                continue
            caps_lines = set()
            depth_open = False
            for ln, line in enumerate(src.split("\n")):
                if re.match(r"^[A-Z][A-Z0-9_]*\s*=", line):
                    depth_open = True
                if depth_open:
                    caps_lines.add(ln)
                    if line.count("(") + line.count("[") + line.count("{") <= line.count(")") + line.count("]") + line.count("}") and not line.rstrip().endswith(("\\", ",", "|", "+")):
                        depth_open = False
            for m in re.finditer(r'r?"((?:[^"\\\n]|\\.)*)"|r?\'((?:[^\'\\\n]|\\.)*)\'', src):
                lit = m.group(1) if m.group(1) is not None else m.group(2)
                if not lit:
                    continue
                before = src[max(0, m.start() - 40):m.start()]
                ln = src.count("\n", 0, m.start())
                take = False
                if LOOKUP_CTX.search(before) or re.search(r"(?:\.one|\.is_|\.matches|\.fn|\.need)\([^()]*$", before):
                    take = True
                elif ("::" in lit or "$" in lit or "\\" in lit) and lit.count(" ") <= 1:
                    take = True
                elif re.fullmatch(r"[a-z][a-z0-9]*(_[a-z0-9]+)+", lit):
                    take = True
                elif ln in caps_lines and " " not in lit.strip():
                    take = True
                if take:
                    for w in re.findall(r"[A-Za-z_][A-Za-z0-9_]{1,}", lit):
                        words.add(w)
        _ANCHOR_WORDS = words
    return _ANCHOR_WORDS


def base_name(fid):
    s = fid
    # strip trailing closure markers
    parts = [p for p in s.split("::") if not p.startswith("{")]
    return parts[-1] if parts else s


PRIMITIVE_RX = re.compile(r"sync::atomic::|Mutex::<T>::(lock|try_lock)|RwLock::<T>::(read|write)|dashmap::|sync::mpsc::|sync::oneshot::|sync::broadcast::|"
                          r"sync::Notify::|Sender::<T>::send|Receiver::<T>::(recv|try_recv|close)|catch_unwind|task::spawn|::spawn_local$|::spawn_named$")


def touches_primitives(g):
    """the helper itself performs an atomic / lock / channel / task primitive: rules analyse such bodies directly"""
    if getattr(g, "_prim", None) is None:
        g._prim = any(PRIMITIVE_RX.search((c.callee or "") + " " + (c.resolved or "")) for c in g.calls())
    return g._prim


def reference_fns(tag):
    """function ids of the tree the rule instances were confirmed on (tools/gen_reference_fns.py), for one build tag"""
    from .facts import reference
    return set((reference().get(tag) or {}).get("fns", {}))


def inlinable(db, caller, g, mode="cons"):
    if g is None or g.id == caller.id:
        return False
    if g.raw.get("is_async"):
        return False
    if mode == "new":
        # exactly the helpers that did not exist on the reference tree: what a later change extracted
        ref = reference_fns(db.tag)
        if not ref or g.id in ref:
            return False
        return g.kind in ("fn", "method") and g.crate == caller.crate and not (g.raw.get("trait_item") or g.raw.get("in_trait")) and "::tests::" not in g.id
    if mode.startswith("cons") and touches_primitives(g):
        return False
    if g.kind not in ("fn", "method"):
        return False
    if g.crate != caller.crate:
        return False
    if g.raw.get("vis") == "Public":
        return False
    if g.raw.get("trait_item") or g.raw.get("in_trait"):
        return False
    if "::tests::" in g.id:
        return False
    if base_name(g.id) in (broad_words() if mode.endswith("-broad") else anchor_words()):
        return False
    return True


def _map_place(p, lb):
    proj = []
    for e in p[1]:
        if e.startswith("i:") and e[2:].isdigit():
            proj.append("i:%d" % (int(e[2:]) + lb))
        else:
            proj.append(e)
    return [p[0] + lb, proj]


def _map_op(op, lb, pb):
    if not isinstance(op, dict):
        return op
    op = dict(op)
    if op.get("k") in ("copy", "move") and "p" in op:
        op["p"] = _map_place(op["p"], lb)
    if "promoted" in op and isinstance(op["promoted"], int):
        op["promoted"] = op["promoted"] + pb
    return op


def _map_rv(rv, lb, pb):
    rv = dict(rv)
    for k in ("op", "a", "b"):
        if k in rv and isinstance(rv[k], dict):
            rv[k] = _map_op(rv[k], lb, pb)
    if "ops" in rv:
        rv["ops"] = [_map_op(o, lb, pb) for o in rv["ops"]]
    if "p" in rv and isinstance(rv["p"], list):
        rv["p"] = _map_place(rv["p"], lb)
    return rv


def _map_stmt(s, lb, pb):
    s = dict(s)
    if "lhs" in s:
        s["lhs"] = _map_place(s["lhs"], lb)
    if "rv" in s:
        s["rv"] = _map_rv(s["rv"], lb, pb)
    if "p" in s and isinstance(s["p"], list):
        s["p"] = _map_place(s["p"], lb)
    return s


def _map_term(t, lb, bb, pb):
    t = dict(t)
    for k in ("target", "unwind", "drop", "otherwise"):
        if k in t and isinstance(t[k], int):
            t[k] = t[k] + bb
    if "targets" in t:
        t["targets"] = [[v, x + bb] for v, x in t["targets"]]
    for k in ("discr", "cond", "value", "func"):
        if k in t and isinstance(t[k], dict):
            t[k] = _map_op(t[k], lb, pb)
    if "args" in t:
        t["args"] = [_map_op(a, lb, pb) for a in t["args"]]
    for k in ("dest", "p", "resume_arg"):
        if k in t and isinstance(t[k], list):
            t[k] = _map_place(t[k], lb)
    return t


def inline_body(db, f, originals, stats=None, mode="cons"):
    """returns a new raw dict for f with inlinable local calls spliced in, or None if nothing was inlined"""
    raw = None
    changed = False
    for depth in range(MAX_DEPTH):
        src = raw if raw is not None else f.raw
        blocks = src["blocks"]
        todo = []
        for bi, b in enumerate(blocks):
            t = b["term"]
            if t["k"] != "call" or b.get("cleanup"):
                continue
            fnc = t.get("func") or {}
            info = fnc.get("fn") if fnc.get("k") == "const" else None
            if not info:
                continue
            g = None
            for n in (info.get("resolved"), info.get("def")):
                if n and n in originals:
                    g = originals[n]
                    break
            if g is None or not inlinable(db, f, g, mode):
                continue
            if len(t["args"]) != g.arg_count:
                continue
            todo.append((bi, g))
        if not todo:
            break
        if raw is None:
            raw = copy.deepcopy(f.raw)
            blocks = raw["blocks"]
        if len(blocks) + sum(len(g.raw["blocks"]) for _, g in todo) > MAX_BLOCKS:
            break
        for bi, g in todo:
            b = blocks[bi]
            t = b["term"]
            lb = len(raw["locals"])
            bbase = len(blocks)
            pb = len(raw.get("promoted") or [])
            raw["locals"].extend(copy.deepcopy(g.raw["locals"]))
            for d in g.raw.get("debug", []):
                raw["debug"].append({"name": d["name"], "p": _map_place(d["p"], lb)})
            if g.raw.get("promoted"):
                raw.setdefault("promoted", [])
                raw["promoted"].extend(copy.deepcopy(g.raw["promoted"]))
            dest = t["dest"]
            target = t.get("target")
            for gb in g.raw["blocks"]:
                nb = {"cleanup": gb.get("cleanup", False), "stmts": [_map_stmt(s, lb, pb) for s in gb["stmts"] if s["k"] not in ("live", "dead")]}
                gt = gb["term"]
                if gt["k"] == "return":
                    nb["stmts"].append({"k": "assign", "l": gt.get("l"), "lhs": dest, "rv": {"k": "use", "op": {"k": "move", "p": [lb, []]}}, "inl": g.id})
                    nb["term"] = {"k": "goto", "target": target, "l": gt.get("l")} if target is not None else {"k": "unreachable", "l": gt.get("l")}
                else:
                    nb["term"] = _map_term(gt, lb, bbase, pb)
                nb["inl"] = g.id
                blocks.append(nb)
            # the call site: bind the arguments, jump to the helper's entry
            for i, a in enumerate(t["args"]):
                b["stmts"].append({"k": "assign", "l": t.get("l"), "lhs": [lb + 1 + i, []], "rv": {"k": "use", "op": a}, "inl": g.id})
            b["term"] = {"k": "goto", "target": bbase, "l": t.get("l"), "inl_call": g.id}
            changed = True
            if stats is not None:
                stats.append((f.id, g.id))
    return raw if changed else None

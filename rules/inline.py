"""MIR-level inlining of private helper functions (a *view*, computed when the facts are loaded).

Why: most rules ask path questions about one body ("on every path from A the body passes B").  Extracting a block of such a
body into a private helper -- the most common clean-up there is -- does not change any of those answers, but it hides A or B
behind a call.  Instead of teaching every rule to look through calls, the fact database offers each body with its private,
synchronous, non-anchor helpers spliced in: the call terminator becomes argument assignments + goto, the helper's blocks are
appended with renumbered locals/blocks, its returns become `dest = _0'; goto target`.

What is never inlined:
  * public functions (API; their names are anchors by construction) and trait-impl methods reached through a trait;
  * functions whose base name occurs in a string literal of any rule module (they are anchors some rule looks up by name);
  * coroutines / closures (only plain fns and methods), recursive calls, anything across crates;
  * bodies that would grow beyond a size limit.
The helper's own body stays in the database unchanged (it is still analysed as a function of its own).
"""
import copy, json, os, re

MAX_BLOCKS = 4000
MAX_DEPTH = 3

_ANCHOR_WORDS = None


LOOKUP_CTX = re.compile(r"(?:\.one|\.is_|\.matches|\.fn|\.all|\.some|\.need|\.search|\.match|\.compile|\.endswith|\.startswith|\.fullmatch|\.findall)\(\s*$")


_BROAD_WORDS = None


def broad_words():
    """every identifier-like word of every string literal of the rule modules (prose included)"""
    global _BROAD_WORDS
    if _BROAD_WORDS is None:
        words = set()
        d = os.path.dirname(os.path.abspath(__file__))
        for fn in os.listdir(d):
            if not fn.endswith(".py") or fn in ("inline.py",):
                continue
            try:
                src = open(os.path.join(d, fn)).read()
            except OSError:
                continue
            for lit in re.findall(r'"((?:[^"\\]|\\.)*)"|\'((?:[^\'\\]|\\.)*)\'', src):
                for w in re.findall(r"[A-Za-z_][A-Za-z0-9_]{1,}", lit[0] or lit[1]):
                    words.add(w)
        _BROAD_WORDS = words
    return _BROAD_WORDS


def anchor_words():
    """identifiers by which some rule looks a function up: words of string literals that are (a) the first argument of a
    lookup / regex call, (b) path-like (contain `::`, `$`, `\\`), (c) a bare snake_case identifier, or (d) on the right-hand
    side of an ALL_CAPS module constant.  Prose (messages, keys with spaces) does not count."""
    global _ANCHOR_WORDS
    if _ANCHOR_WORDS is None:
        words = set()
        d = os.path.dirname(os.path.abspath(__file__))
        for fn in os.listdir(d):
            if not fn.endswith(".py") or fn in ("inline.py",):
                continue
            try:
                src = open(os.path.join(d, fn)).read()
            except OSError:
                continue
            caps_lines = set()
            depth_open = False
            for ln, line in enumerate(src.split("\n")):
                if re.match(r"^[A-Z][A-Z0-9_]*\s*=", line):
                    depth_open = True
                if depth_open:
                    caps_lines.add(ln)
                    if line.count("(") + line.count("[") + line.count("{") <= line.count(")") + line.count("]") + line.count("}") and not line.rstrip().endswith(("\\", ",", "|", "+")):
                        depth_open = False
            for m in re.finditer(r'r?"((?:[^"\\\n]|\\.)*)"|r?\'((?:[^\'\\\n]|\\.)*)\'', src):
                lit = m.group(1) if m.group(1) is not None else m.group(2)
                if not lit:
                    continue
                before = src[max(0, m.start() - 40):m.start()]
                ln = src.count("\n", 0, m.start())
                take = False
                if LOOKUP_CTX.search(before) or re.search(r"(?:\.one|\.is_|\.matches|\.fn|\.need)\([^()]*$", before):
                    take = True
                elif ("::" in lit or "$" in lit or "\\" in lit) and lit.count(" ") <= 1:
                    take = True
                elif re.fullmatch(r"[a-z][a-z0-9]*(_[a-z0-9]+)+", lit):
                    take = True
                elif ln in caps_lines and " " not in lit.strip():
                    take = True
                if take:
                    for w in re.findall(r"[A-Za-z_][A-Za-z0-9_]{1,}", lit):
                        words.add(w)
        _ANCHOR_WORDS = words
    return _ANCHOR_WORDS


def base_name(fid):
    s = fid
    # strip trailing closure markers
    parts = [p for p in s.split("::") if not p.startswith("{")]
    return parts[-1] if parts else s


PRIMITIVE_RX = re.compile(r"sync::atomic::|Mutex::<T>::(lock|try_lock)|RwLock::<T>::(read|write)|dashmap::|sync::mpsc::|sync::oneshot::|sync::broadcast::|"
                          r"sync::Notify::|Sender::<T>::send|Receiver::<T>::(recv|try_recv|close)|catch_unwind|task::spawn|::spawn_local$|::spawn_named$")


def touches_primitives(g):
    """the helper itself performs an atomic / lock / channel / task primitive: rules analyse such bodies directly"""
    if getattr(g, "_prim", None) is None:
        g._prim = any(PRIMITIVE_RX.search((c.callee or "") + " " + (c.resolved or "")) for c in g.calls())
    return g._prim


def reference_fns(tag):
    """function ids of the tree the rule instances were confirmed on (tools/gen_reference_fns.py), for one build tag"""
    from .facts import reference
    return set((reference().get(tag) or {}).get("fns", {}))


def inlinable(db, caller, g, mode="cons"):
    if g is None or g.id == caller.id:
        return False
    if g.raw.get("is_async") and os.environ.get("VERIF_NO_ASYNC_INLINE"):
        return False
    if mode == "new":
        # exactly the helpers that did not exist on the reference tree: what a later change extracted
        ref = reference_fns(db.tag)
        if not ref or g.id in ref:
            return False
        return g.kind in ("fn", "method") and g.crate == caller.crate and not (g.raw.get("trait_item") or g.raw.get("in_trait")) and "::tests::" not in g.id
    if mode.startswith("cons") and (touches_primitives(g) or g.raw.get("is_async")):
        return False
    if g.kind not in ("fn", "method"):
        return False
    if g.crate != caller.crate:
        return False
    if g.raw.get("vis") == "Public":
        return False
    if g.raw.get("trait_item") or g.raw.get("in_trait"):
        return False
    if "::tests::" in g.id:
        return False
    if base_name(g.id) in (broad_words() if mode.endswith("-broad") else anchor_words()):
        return False
    return True


def _map_place(p, lb):
    proj = []
    for e in p[1]:
        if e.startswith("i:") and e[2:].isdigit():
            proj.append("i:%d" % (int(e[2:]) + lb))
        else:
            proj.append(e)
    return [p[0] + lb, proj]


def _map_op(op, lb, pb):
    if not isinstance(op, dict):
        return op
    op = dict(op)
    if op.get("k") in ("copy", "move") and "p" in op:
        op["p"] = _map_place(op["p"], lb)
    if "promoted" in op and isinstance(op["promoted"], int):
        op["promoted"] = op["promoted"] + pb
    return op


def _map_rv(rv, lb, pb):
    rv = dict(rv)
    for k in ("op", "a", "b"):
        if k in rv and isinstance(rv[k], dict):
            rv[k] = _map_op(rv[k], lb, pb)
    if "ops" in rv:
        rv["ops"] = [_map_op(o, lb, pb) for o in rv["ops"]]
    if "p" in rv and isinstance(rv["p"], list):
        rv["p"] = _map_place(rv["p"], lb)
    return rv


def _map_stmt(s, lb, pb):
    s = dict(s)
    if "lhs" in s:
        s["lhs"] = _map_place(s["lhs"], lb)
    if "rv" in s:
        s["rv"] = _map_rv(s["rv"], lb, pb)
    if "p" in s and isinstance(s["p"], list):
        s["p"] = _map_place(s["p"], lb)
    return s


def _map_term(t, lb, bb, pb):
    t = dict(t)
    for k in ("target", "unwind", "drop", "otherwise"):
        if k in t and isinstance(t[k], int):
            t[k] = t[k] + bb
    if "targets" in t:
        t["targets"] = [[v, x + bb] for v, x in t["targets"]]
    for k in ("discr", "cond", "value", "func"):
        if k in t and isinstance(t[k], dict):
            t[k] = _map_op(t[k], lb, pb)
    if "args" in t:
        t["args"] = [_map_op(a, lb, pb) for a in t["args"]]
    for k in ("dest", "p", "resume_arg"):
        if k in t and isinstance(t[k], list):
            t[k] = _map_place(t[k], lb)
    return t



def _uses_of_local(blocks, l):
    """number of operand / place uses of local l (reads), not counting whole-local drops and storage markers"""
    n = 0
    def op_uses(o):
        return 1 if isinstance(o, dict) and o.get("k") in ("copy", "move") and o.get("p") and o["p"][0] == l else 0
    for b in blocks:
        for st in b["stmts"]:
            if st["k"] != "assign":
                continue
            rv = st["rv"]
            for k in ("op", "a", "b"):
                if isinstance(rv.get(k), dict):
                    n += op_uses(rv[k])
            for o in rv.get("ops", []):
                n += op_uses(o)
            if isinstance(rv.get("p"), list) and rv["p"][0] == l:
                n += 1
            if st["lhs"][0] == l and st["lhs"][1]:
                n += 1
        t = b["term"]
        for k in ("discr", "cond", "value", "func"):
            if isinstance(t.get(k), dict):
                n += op_uses(t[k])
        for o in t.get("args", []):
            n += op_uses(o)
    return n


def _fn_def(t):
    fnc = t.get("func") or {}
    info = fnc.get("fn") if fnc.get("k") == "const" else None
    return (info or {}).get("def") or "", (info or {}).get("resolved") or ""


def async_site(blocks, bi, g, originals):
    """The call in block `bi` creates the future of the async fn `g` and the caller awaits it right away
    (`helper(args).await`): returns the description of the await (poll block, switch block, ready target, coroutine body,
    upvar -> argument map) or None if the future is used in any other way (wrapped in a timeout, stored, spawned, ..)."""
    t = blocks[bi]["term"]
    d0, dproj = t["dest"]
    if dproj or t.get("target") is None:
        return None
    gb = g.raw["blocks"]
    if not gb or not gb[0]["stmts"]:
        return None
    cor = None
    for st in gb[0]["stmts"]:
        if st["k"] == "assign" and st["lhs"] == [0, []] and st["rv"]["k"] == "agg" and st["rv"].get("kind") == "coroutine":
            cor = st["rv"]
    if cor is None or len([b for b in gb if not b.get("cleanup") and b["term"]["k"] == "call"]) > 0:
        return None
    q = originals.get(cor["def"])
    if q is None or q.kind != "coroutine":
        return None
    upmap = []
    for o in cor["ops"]:
        if o.get("k") in ("copy", "move") and o.get("p") and not o["p"][1] and 1 <= o["p"][0] <= g.arg_count:
            upmap.append(o["p"][0])
        else:
            return None
    if _uses_of_local(blocks, d0) != 1:
        return None
    # walk the straight line from the call to the poll
    cur = t["target"]
    seen_into = False
    poll_bb = None
    for _ in range(16):
        b = blocks[cur]
        tt = b["term"]
        if tt["k"] == "goto":
            cur = tt["target"]
            continue
        if tt["k"] != "call" or tt.get("target") is None:
            return None
        d, r = _fn_def(tt)
        if d.endswith("IntoFuture::into_future"):
            a0 = tt["args"][0] if tt["args"] else {}
            if not (a0.get("k") == "move" and a0.get("p") == [d0, []]):
                return None
            seen_into = True
        elif re.search(r"(^|::)Future::poll$", d):
            if not seen_into:
                return None
            poll_bb = cur
            break
        elif re.search(r"Pin::<Ptr>::new_unchecked$|future::get_context$|Pin::<Ptr>::new$", d):
            pass
        else:
            return None
        cur = tt["target"]
    if poll_bb is None:
        return None
    pt = blocks[poll_bb]["term"]
    rloc, rproj = pt["dest"]
    if rproj:
        return None
    sb = pt["target"]
    st_ = blocks[sb]["term"]
    if st_["k"] != "switch":
        return None
    ready = None
    for s_ in blocks[sb]["stmts"]:
        if s_["k"] == "assign" and s_["rv"]["k"] == "disc" and s_["rv"]["p"] == [rloc, []]:
            vmap = {v[0]: v[1] for v in s_["rv"].get("variants", [])}
            rv_ = vmap.get("Ready")
            for val, tgt in st_["targets"]:
                if val == rv_:
                    ready = tgt
    if ready is None:
        return None
    return {"poll_bb": poll_bb, "switch_bb": sb, "ready": ready, "result": rloc, "q": q, "upmap": upmap}


def splice_async(raw, bi, g, site):
    """replace `helper(args).await` by the helper's coroutine body: arguments are bound to fresh locals standing for the
    coroutine's captured variables, the poll becomes a jump to the body's entry, its yields stay yields of the caller, its
    return becomes `result = Poll::Ready(value)` followed by the caller's Ready continuation."""
    blocks = raw["blocks"]
    q = site["q"]
    t = blocks[bi]["term"]
    lb = len(raw["locals"])
    bbase = len(blocks)
    pb = len(raw.get("promoted") or [])
    raw["locals"].extend(copy.deepcopy(q.raw["locals"]))
    # one fresh local per captured variable
    ups = []
    for k, argl in enumerate(site["upmap"]):
        raw["locals"].append(copy.deepcopy(g.raw["locals"][argl]))
        ups.append(len(raw["locals"]) - 1)
    if q.raw.get("promoted"):
        raw.setdefault("promoted", [])
        raw["promoted"].extend(copy.deepcopy(q.raw["promoted"]))
    def fix_place(pl):
        # pl is already renumbered: local lb+1 is the coroutine's environment
        if pl[0] == lb + 1:
            pr = list(pl[1])
            while pr and pr[0] == "*":
                pr.pop(0)
            if pr and pr[0].startswith("f:"):
                k = int(pr[0].split(":")[1])
                if k < len(ups):
                    return [ups[k], pr[1:]]
        return pl
    def fix(x):
        if isinstance(x, dict):
            out = {}
            for k, v in x.items():
                if k in ("p", "lhs", "dest", "resume_arg") and isinstance(v, list) and len(v) == 2 and isinstance(v[0], int):
                    out[k] = fix_place(v)
                else:
                    out[k] = fix(v)
            return out
        if isinstance(x, list):
            return [fix(v) for v in x]
        return x
    for d in q.raw.get("debug", []):
        raw["debug"].append({"name": d["name"], "p": fix_place(_map_place(d["p"], lb))})
    for qb in q.raw["blocks"]:
        nb = {"cleanup": qb.get("cleanup", False), "stmts": [fix(_map_stmt(s_, lb, pb)) for s_ in qb["stmts"] if s_["k"] not in ("live", "dead")], "inl": g.id}
        qt = qb["term"]
        if qt["k"] == "return":
            nb["stmts"].append({"k": "assign", "l": qt.get("l"), "lhs": [site["result"], []], "inl": g.id,
                                "rv": {"k": "agg", "kind": "adt", "adt": "std::task::Poll", "variant": "Ready", "vidx": 0, "fields": ["0"], "ops": [{"k": "move", "p": [lb, []]}]}})
            nb["term"] = {"k": "goto", "target": site["switch_bb"], "l": qt.get("l")}
        else:
            nb["term"] = fix(_map_term(qt, lb, bbase, pb))
        blocks.append(nb)
    # the call site binds the arguments
    b = blocks[bi]
    for k, argl in enumerate(site["upmap"]):
        b["stmts"].append({"k": "assign", "l": t.get("l"), "lhs": [ups[k], []], "rv": {"k": "use", "op": t["args"][argl - 1]}, "inl": g.id})
    b["term"] = {"k": "goto", "target": t["target"], "l": t.get("l"), "inl_call": g.id}
    # the poll runs the body; afterwards the result is Ready
    pbk = blocks[site["poll_bb"]]
    pbk["term"] = {"k": "goto", "target": bbase, "l": pbk["term"].get("l"), "inl_await": g.id}
    sbk = blocks[site["switch_bb"]]
    sbk["term"] = {"k": "goto", "target": site["ready"], "l": sbk["term"].get("l"), "inl_ready": g.id}



def _single_closure_def(raw, local):
    """the one statement `local = {closure} [captures]` in this body (None if the local has other whole definitions)"""
    found = None
    n = 0
    for bi, b in enumerate(raw["blocks"]):
        for st in b["stmts"]:
            if st["k"] == "assign" and st["lhs"] == [local, []]:
                n += 1
                if st["rv"]["k"] == "agg" and st["rv"].get("kind") == "closure":
                    found = st
        t = b["term"]
        if t["k"] == "call" and t.get("dest") == [local, []]:
            n += 1
    return found if n == 1 else None


def desugar_for_each(raw, originals, stats=None, owner=None):
    """`iter.for_each(|x| body)` is `for x in iter { body }`, `iter.try_for_each(|x| body)` is `for x in iter { body? }`: the call
    becomes a loop over a synthetic `Iterator::next`, with the closure's body spliced in as the loop body (its environment is a
    reference to the closure value, so captured variables resolve through the closure aggregate exactly as before).  Only
    closures written in place are handled."""
    changed = False
    blocks = raw["blocks"]
    for bi in range(len(blocks)):
        t = blocks[bi]["term"]
        if t["k"] != "call" or blocks[bi].get("cleanup") or t.get("target") is None:
            continue
        d, r_ = _fn_def(t)
        if d not in ("std::iter::Iterator::for_each", "std::iter::Iterator::try_for_each") or len(t["args"]) != 2:
            continue
        is_try = d.endswith("try_for_each")
        cop = t["args"][1]
        if cop.get("k") != "move" or cop["p"][1]:
            continue
        cst = _single_closure_def(raw, cop["p"][0])
        if cst is None:
            continue
        q = originals.get(cst["rv"]["def"])
        if q is None or q.kind != "closure" or q.arg_count != 2:
            continue
        if len(blocks) + len(q.raw["blocks"]) + 10 > MAX_BLOCKS:
            continue
        cl_local = cop["p"][0]
        L = raw["locals"]
        def new_local(ty):
            L.append({"ty": ty, "mut": True, "user": False, "synthetic": True})
            return len(L) - 1
        info = ((t.get("func") or {}).get("fn") or {})
        it_ty = info.get("self_ty") or "<iterator>"
        it = new_local(it_ty)
        rit = new_local("&mut " + it_ty)
        item_ty = q.raw["locals"][2]["ty"]
        nxt = new_local("std::option::Option<%s>" % item_ty)
        dsc = new_local("isize")
        ln = t.get("l")
        H = len(blocks); blocks.append(None)
        S = len(blocks); blocks.append(None)
        B = len(blocks); blocks.append(None)
        E = len(blocks); blocks.append(None)
        U = len(blocks); blocks.append({"cleanup": False, "inl": q.id, "stmts": [], "term": {"l": ln, "k": "unreachable"}})
        if is_try:
            R = len(blocks); blocks.append(None)      # after the body: branch on its result
            RS = len(blocks); blocks.append(None)     # switch Continue / Break
            BR = len(blocks); blocks.append(None)     # Break: dest = from_residual(..) ; goto T
            rv_l = new_local(q.raw["locals"][0]["ty"])
            cf = new_local("std::ops::ControlFlow<..>")
            dsc2 = new_local("isize")
            ret_target = R
        else:
            ret_target = H
        entry, lb, pro = splice_closure(raw, q, cl_local, [{"k": "move", "p": [nxt, ["d:1:Some", "f:0:0"]]}], ret_target, ln)
        next_resolved = ("<%s<I> as std::iter::Iterator>::next" % it_ty.split("<")[0]) if "<" in it_ty else None
        next_val = ("<%s as std::iter::Iterator>::next" % it_ty)
        def syn_call(defname, val, args, dest, target, extra=None):
            fninfo = {"def": defname, "gargs": []}
            if extra:
                fninfo.update(extra)
            return {"l": ln, "k": "call", "synthetic": True, "func": {"k": "const", "ty": "fn", "val": val, "fn": fninfo}, "args": args, "dest": dest, "target": target}
        blocks[H] = {"cleanup": False, "inl": q.id, "stmts": [{"k": "assign", "l": ln, "lhs": [rit, []], "rv": {"k": "ref", "mut": True, "p": [it, []]}}],
                     "term": syn_call("std::iter::Iterator::next", next_val, [{"k": "move", "p": [rit, []]}], [nxt, []], S,
                                      {"trait": "std::iter::Iterator", "self_ty": it_ty, "resolved": next_resolved} if next_resolved else {"trait": "std::iter::Iterator", "self_ty": it_ty})}
        blocks[S] = {"cleanup": False, "inl": q.id, "stmts": [{"k": "assign", "l": ln, "lhs": [dsc, []], "rv": {"k": "disc", "p": [nxt, []], "ty": "std::option::Option<%s>" % item_ty, "adt": "std::option::Option", "variants": [["None", "0"], ["Some", "1"]]}}],
                     "term": {"l": ln, "k": "switch", "discr": {"k": "move", "p": [dsc, []]}, "dty": "isize", "targets": [["0", E], ["1", B]], "otherwise": U}}
        blocks[B] = {"cleanup": False, "inl": q.id, "stmts": pro, "term": {"l": ln, "k": "goto", "target": entry}}
        if is_try:
            blocks[E] = {"cleanup": False, "inl": q.id, "stmts": [], "term": syn_call("std::ops::Try::from_output", "<R as std::ops::Try>::from_output", [{"k": "const", "ty": "()", "val": "()"}], t["dest"], t["target"])}
            blocks[R] = {"cleanup": False, "inl": q.id, "stmts": [{"k": "assign", "l": ln, "lhs": [rv_l, []], "rv": {"k": "use", "op": {"k": "move", "p": [lb, []]}}}],
                         "term": syn_call("std::ops::Try::branch", "<R as std::ops::Try>::branch", [{"k": "move", "p": [rv_l, []]}], [cf, []], RS)}
            blocks[RS] = {"cleanup": False, "inl": q.id, "stmts": [{"k": "assign", "l": ln, "lhs": [dsc2, []], "rv": {"k": "disc", "p": [cf, []], "ty": "std::ops::ControlFlow", "adt": "std::ops::ControlFlow", "variants": [["Continue", "0"], ["Break", "1"]]}}],
                          "term": {"l": ln, "k": "switch", "discr": {"k": "move", "p": [dsc2, []]}, "dty": "isize", "targets": [["0", H], ["1", BR]], "otherwise": U}}
            blocks[BR] = {"cleanup": False, "inl": q.id, "stmts": [], "term": syn_call("std::ops::FromResidual::from_residual", "<R as std::ops::FromResidual>::from_residual", [{"k": "move", "p": [cf, ["d:1:Break", "f:0:0"]]}], t["dest"], t["target"])}
        else:
            blocks[E] = {"cleanup": False, "inl": q.id, "stmts": [], "term": {"l": ln, "k": "goto", "target": t["target"]}}
        b = blocks[bi]
        b["stmts"].append({"k": "assign", "l": ln, "lhs": [it, []], "rv": {"k": "use", "op": t["args"][0]}, "inl": q.id})
        b["term"] = {"k": "goto", "target": H, "l": ln, "inl_call": q.id}
        changed = True
        if stats is not None:
            stats.append((owner or raw.get("id"), q.id))
    return changed


def splice_closure(raw, q, env_local, arg_ops, ret_target, ln=None, env_op=None):
    """append the body of closure `q` to `raw`: returns (entry block, local holding the returned value, prologue statements
    that bind the environment and the arguments).  `return` becomes `goto ret_target`."""
    blocks = raw["blocks"]
    L = raw["locals"]
    lb = len(L)
    pb = len(raw.get("promoted") or [])
    L.extend(copy.deepcopy(q.raw["locals"]))
    if q.raw.get("promoted"):
        raw.setdefault("promoted", [])
        raw["promoted"].extend(copy.deepcopy(q.raw["promoted"]))
    env_ty = q.raw["locals"][1]["ty"]
    by_value = not env_ty.startswith("&")
    env_rv = {"k": "use", "op": {"k": "move", "p": [env_local, []]}} if by_value else {"k": "ref", "mut": env_ty.startswith("&mut"), "p": [env_local, []]}
    if env_op is not None:
        env_rv = {"k": "use", "op": env_op}        # the caller already holds the environment in the form the body expects
    pro = [{"k": "assign", "l": ln, "lhs": [lb + 1, []], "rv": env_rv, "inl": q.id}]
    for i, a in enumerate(arg_ops):
        pro.append({"k": "assign", "l": ln, "lhs": [lb + 2 + i, []], "rv": {"k": "use", "op": a}, "inl": q.id})
    qbase = len(blocks)
    for d_ in q.raw.get("debug", []):
        raw["debug"].append({"name": d_["name"], "p": _map_place(d_["p"], lb)})
    for qb in q.raw["blocks"]:
        nb = {"cleanup": qb.get("cleanup", False), "inl": q.id, "stmts": [_map_stmt(s_, lb, pb) for s_ in qb["stmts"] if s_["k"] not in ("live", "dead")]}
        qt = qb["term"]
        if qt["k"] == "return":
            nb["term"] = {"k": "goto", "target": ret_target, "l": qt.get("l")}
        else:
            nb["term"] = _map_term(qt, lb, qbase, pb)
        blocks.append(nb)
    return qbase, lb, pro


def desugar_fetch_update(raw, originals, stats=None, owner=None):
    """`a.fetch_update(set, fetch, |cur| f(cur))` is, by its documentation, `let mut cur = a.load(fetch); loop { match f(cur) {
    Some(new) => match a.compare_exchange_weak(cur, new, set, fetch) { Ok(p) => break Ok(p), Err(obs) => cur = obs },
    None => break Err(cur) } }`: present it as that loop, with the closure body spliced in."""
    changed = False
    blocks = raw["blocks"]
    for bi in range(len(blocks)):
        t = blocks[bi]["term"]
        if t["k"] != "call" or blocks[bi].get("cleanup") or t.get("target") is None:
            continue
        d, _r = _fn_def(t)
        m = re.match(r"^(std::sync::atomic::Atomic(?:::<\w+>|\w+))::fetch_update$", d)
        if not m or len(t["args"]) != 4:
            continue
        cop = t["args"][3]
        if cop.get("k") != "move" or cop["p"][1]:
            continue
        cst = _single_closure_def(raw, cop["p"][0])
        if cst is None:
            continue
        q = originals.get(cst["rv"]["def"])
        if q is None or q.kind != "closure" or q.arg_count != 2:
            continue
        if len(blocks) + len(q.raw["blocks"]) + 10 > MAX_BLOCKS:
            continue
        base = m.group(1)
        impl_self = ((t.get("func") or {}).get("fn") or {}).get("impl_self")
        L = raw["locals"]
        def new_local(ty):
            L.append({"ty": ty, "mut": True, "user": False, "synthetic": True})
            return len(L) - 1
        vty = q.raw["locals"][2]["ty"]
        aref = new_local("&" + (impl_self or "atomic"))
        cur = new_local(vty)
        so, fo = new_local("std::sync::atomic::Ordering"), new_local("std::sync::atomic::Ordering")
        ropt = new_local("std::option::Option<%s>" % vty)
        dsc = new_local("isize")
        newv = new_local(vty)
        cas = new_local("std::result::Result<%s, %s>" % (vty, vty))
        dsc2 = new_local("isize")
        ln = t.get("l")
        def call(name, args, dest, target):
            return {"l": ln, "k": "call", "synthetic": True, "func": {"k": "const", "ty": "fn", "val": base + "::" + name, "fn": {"def": base + "::" + name, "gargs": [], "impl_self": impl_self}},
                    "args": args, "dest": [dest, []], "target": target}
        mv = lambda l, proj=None: {"k": "move", "p": [l, proj or []]}
        cp = lambda l, proj=None: {"k": "copy", "p": [l, proj or []]}
        # block ids
        LOAD = len(blocks)
        blocks.append(None)      # LOAD : cur = load(aref, fo) -> HEAD
        HEAD = len(blocks)
        blocks.append(None)      # HEAD : env/arg binding, goto closure entry
        RET = len(blocks)
        blocks.append(None)      # RET  : ropt = _0' ; switch disc
        SOME = len(blocks)
        blocks.append(None)      # SOME : newv = (ropt as Some).0 ; cas = compare_exchange_weak(aref, cur, newv, so, fo) -> CASR
        NONE = len(blocks)
        blocks.append(None)      # NONE : dest = Err(cur) ; goto T
        CASR = len(blocks)
        blocks.append(None)      # CASR : switch disc(cas)
        OKB = len(blocks)
        blocks.append(None)      # OKB  : dest = Ok((cas as Ok).0) ; goto T
        ERRB = len(blocks)
        blocks.append(None)      # ERRB : cur = (cas as Err).0 ; goto HEAD
        UNR = len(blocks)
        blocks.append({"cleanup": False, "inl": q.id, "stmts": [], "term": {"l": ln, "k": "unreachable"}})
        entry, lb, pro = splice_closure(raw, q, cop["p"][0], [cp(cur)], RET, ln)
        blk = lambda stmts, term: {"cleanup": False, "inl": q.id, "stmts": stmts, "term": term}
        asg = lambda lhs, rv: {"k": "assign", "l": ln, "lhs": lhs, "rv": rv, "inl": q.id}
        blocks[LOAD] = blk([], call("load", [cp(aref), cp(fo)], cur, HEAD))
        blocks[HEAD] = blk(pro, {"l": ln, "k": "goto", "target": entry})
        blocks[RET] = blk([asg([ropt, []], {"k": "use", "op": mv(lb)}),
                           asg([dsc, []], {"k": "disc", "p": [ropt, []], "ty": "std::option::Option<%s>" % vty, "adt": "std::option::Option", "variants": [["None", "0"], ["Some", "1"]]})],
                          {"l": ln, "k": "switch", "discr": mv(dsc), "dty": "isize", "targets": [["0", NONE], ["1", SOME]], "otherwise": UNR})
        blocks[SOME] = blk([asg([newv, []], {"k": "use", "op": cp(ropt, ["d:1:Some", "f:0:0"])})],
                           call("compare_exchange_weak", [cp(aref), cp(cur), cp(newv), cp(so), cp(fo)], cas, CASR))
        blocks[NONE] = blk([asg(t["dest"], {"k": "agg", "kind": "adt", "adt": "std::result::Result", "variant": "Err", "vidx": 1, "fields": ["0"], "ops": [cp(cur)]})],
                           {"l": ln, "k": "goto", "target": t["target"]})
        blocks[CASR] = blk([asg([dsc2, []], {"k": "disc", "p": [cas, []], "ty": "std::result::Result<%s, %s>" % (vty, vty), "adt": "std::result::Result", "variants": [["Ok", "0"], ["Err", "1"]]})],
                           {"l": ln, "k": "switch", "discr": mv(dsc2), "dty": "isize", "targets": [["0", OKB], ["1", ERRB]], "otherwise": UNR})
        blocks[OKB] = blk([asg(t["dest"], {"k": "agg", "kind": "adt", "adt": "std::result::Result", "variant": "Ok", "vidx": 0, "fields": ["0"], "ops": [cp(cas, ["d:0:Ok", "f:0:0"])]})],
                          {"l": ln, "k": "goto", "target": t["target"]})
        blocks[ERRB] = blk([asg([cur, []], {"k": "use", "op": cp(cas, ["d:1:Err", "f:0:0"])})], {"l": ln, "k": "goto", "target": HEAD})
        b = blocks[bi]
        b["stmts"].append(asg([aref, []], {"k": "use", "op": t["args"][0]}))
        b["stmts"].append(asg([so, []], {"k": "use", "op": t["args"][1]}))
        b["stmts"].append(asg([fo, []], {"k": "use", "op": t["args"][2]}))
        b["term"] = {"k": "goto", "target": LOAD, "l": ln, "inl_call": q.id}
        changed = True
        if stats is not None:
            stats.append((owner or raw.get("id"), q.id))
    return changed



OPT, RES = "std::option::Option", "std::result::Result"
_VIDX = {(OPT, "None"): 0, (OPT, "Some"): 1, (RES, "Ok"): 0, (RES, "Err"): 1}
# self-consuming combinators that run their closure at most once, in place: variant -> what the result is
COMBINATORS = {
    "std::option::Option::<T>::map":            (OPT, {"Some": ("call", 1, True, (OPT, "Some")), "None": ("unit", OPT, "None")}),
    "std::option::Option::<T>::and_then":       (OPT, {"Some": ("call", 1, True, None), "None": ("unit", OPT, "None")}),
    "std::option::Option::<T>::is_some_and":    (OPT, {"Some": ("call", 1, True, None), "None": ("const", "false")}),
    "std::option::Option::<T>::is_none_or":     (OPT, {"Some": ("call", 1, True, None), "None": ("const", "true")}),
    "std::option::Option::<T>::map_or":         (OPT, {"Some": ("call", 2, True, None), "None": ("arg", 1)}),
    "std::option::Option::<T>::map_or_else":    (OPT, {"Some": ("call", 2, True, None), "None": ("call", 1, False, None)}),
    "std::option::Option::<T>::unwrap_or_else": (OPT, {"Some": ("payload", None), "None": ("call", 1, False, None)}),
    "std::option::Option::<T>::unwrap_or":      (OPT, {"Some": ("payload", None), "None": ("arg", 1)}),
    "std::option::Option::<T>::ok_or":          (OPT, {"Some": ("payload", (RES, "Ok")), "None": ("argwrap", 1, (RES, "Err"))}),
    "std::option::Option::<T>::ok_or_else":     (OPT, {"Some": ("payload", (RES, "Ok")), "None": ("call", 1, False, (RES, "Err"))}),
    "std::result::Result::<T, E>::map":         (RES, {"Ok": ("call", 1, True, (RES, "Ok")), "Err": ("payload", (RES, "Err"))}),
    "std::result::Result::<T, E>::map_err":     (RES, {"Ok": ("payload", (RES, "Ok")), "Err": ("call", 1, True, (RES, "Err"))}),
    "std::result::Result::<T, E>::and_then":    (RES, {"Ok": ("call", 1, True, None), "Err": ("payload", (RES, "Err"))}),
    "std::result::Result::<T, E>::or_else":     (RES, {"Ok": ("payload", (RES, "Ok")), "Err": ("call", 1, True, None)}),
    "std::result::Result::<T, E>::ok":          (RES, {"Ok": ("payload", (OPT, "Some")), "Err": ("unit", OPT, "None")}),
    "std::result::Result::<T, E>::err":         (RES, {"Ok": ("unit", OPT, "None"), "Err": ("payload", (OPT, "Some"))}),
    "std::result::Result::<T, E>::unwrap_or_else": (RES, {"Ok": ("payload", None), "Err": ("call", 1, True, None)}),
    "std::result::Result::<T, E>::unwrap_or":   (RES, {"Ok": ("payload", None), "Err": ("arg", 1)}),
    "std::result::Result::<T, E>::is_ok_and":   (RES, {"Ok": ("call", 1, True, None), "Err": ("const", "false")}),
    "std::result::Result::<T, E>::is_err_and":  (RES, {"Ok": ("const", "false"), "Err": ("call", 1, True, None)}),
    "core::bool::<impl bool>::then":            ("bool", {"true": ("call", 1, False, (OPT, "Some")), "false": ("unit", OPT, "None")}),
    # `opt.filter(|x| p(x))`: the predicate gets a reference to the payload and decides between Some(payload) and None
    "std::option::Option::<T>::filter":         (OPT, {"Some": ("filter", 1), "None": ("unit", OPT, "None")}),
    # predicates on `&self`
    "std::option::Option::<T>::is_some":        (OPT, {"Some": ("const", "true"), "None": ("const", "false")}, "byref"),
    "std::option::Option::<T>::is_none":        (OPT, {"Some": ("const", "false"), "None": ("const", "true")}, "byref"),
    "std::result::Result::<T, E>::is_ok":       (RES, {"Ok": ("const", "true"), "Err": ("const", "false")}, "byref"),
    "std::result::Result::<T, E>::is_err":      (RES, {"Ok": ("const", "false"), "Err": ("const", "true")}, "byref"),
}


def desugar_combinators(raw, originals, stats=None, owner=None):
    """`opt.map(|x| f(x))` is `match opt { Some(x) => Some(f(x)), None => None }` -- and likewise for the other self-consuming
    Option / Result / bool combinators that run their closure at most once, in place.  The call becomes that match; a closure
    written in place is spliced in, a function item is called."""
    changed = False
    blocks = raw["blocks"]
    L = raw["locals"]
    def new_local(ty):
        L.append({"ty": ty, "mut": True, "user": False, "synthetic": True})
        return len(L) - 1
    for bi in range(len(blocks)):
        t = blocks[bi]["term"]
        if t["k"] != "call" or blocks[bi].get("cleanup") or t.get("target") is None:
            continue
        d, _r = _fn_def(t)
        spec = COMBINATORS.get(d)
        if spec is None:
            continue
        adt, arms = spec[0], spec[1]
        byref = len(spec) > 2 and spec[2] == "byref"
        # every closure operand must be a closure written in place or a function item
        callees = {}
        ok = True
        for arm in arms.values():
            if arm[0] not in ("call", "filter"):
                continue
            if arm[0] == "filter":
                arm = ("call", arm[1], True, None)
            idx = arm[1]
            if idx >= len(t["args"]):
                ok = False
                break
            a = t["args"][idx]
            if a.get("k") == "move" and not a["p"][1]:
                cst = _single_closure_def(raw, a["p"][0])
                q = originals.get(cst["rv"]["def"]) if cst is not None else None
                want = 2 if arm[2] else 1
                if q is None or q.kind != "closure" or q.arg_count != want:
                    ok = False
                    break
                callees[idx] = ("closure", q, a["p"][0])
            elif a.get("k") == "const" and a.get("fn"):
                callees[idx] = ("fn", a)
            else:
                ok = False
                break
        if not ok:
            continue
        if len(blocks) + sum(len(c[1].raw["blocks"]) for c in callees.values() if c[0] == "closure") + 12 > MAX_BLOCKS:
            continue
        ln = t.get("l")
        dest, T = t["dest"], t["target"]
        sv = new_local("<self of %s>" % d.split("::")[-1])
        asg = lambda lhs, rv: {"k": "assign", "l": ln, "lhs": lhs, "rv": rv, "desugared": d}
        blk = lambda stmts, term: {"cleanup": False, "desugared": d, "stmts": stmts, "term": term}
        mv = lambda l, proj=None: {"k": "move", "p": [l, proj or []]}
        def wrap_into(lhs, op, wrap):
            if wrap is None:
                return asg(lhs, {"k": "use", "op": op})
            return asg(lhs, {"k": "agg", "kind": "adt", "adt": wrap[0], "variant": wrap[1], "vidx": _VIDX[wrap], "fields": ["0"], "ops": [op]})
        arm_entry = {}
        for vname, arm in arms.items():
            payload = None if adt == "bool" else mv(sv, ["d:%d:%s" % (_VIDX[(adt, vname)], vname), "f:0:0"])
            kind = arm[0]
            if kind == "filter":
                c = callees[arm[1]]
                pref = new_local("&<payload>")
                verdict = new_local("bool")
                KEEP = len(blocks)
                blocks.append(blk([wrap_into(dest, payload, (OPT, "Some"))], {"l": ln, "k": "goto", "target": T}))
                DROP = len(blocks)
                blocks.append(blk([asg(dest, {"k": "agg", "kind": "adt", "adt": OPT, "variant": "None", "vidx": 0, "fields": [], "ops": []})], {"l": ln, "k": "goto", "target": T}))
                SW = len(blocks)
                blocks.append(blk([], {"l": ln, "k": "switch", "discr": {"k": "copy", "p": [verdict, []]}, "dty": "bool", "targets": [["0", DROP]], "otherwise": KEEP, "desugared": d}))
                refst = asg([pref, []], {"k": "ref", "mut": False, "p": [sv, ["d:1:Some", "f:0:0"]]})
                if c[0] == "closure":
                    RET0 = len(blocks)
                    blocks.append(None)
                    entry, lb, pro = splice_closure(raw, c[1], c[2], [mv(pref)], RET0, ln)
                    blocks[RET0] = blk([asg([verdict, []], {"k": "use", "op": mv(lb)})], {"l": ln, "k": "goto", "target": SW})
                    A = len(blocks)
                    blocks.append(blk([refst] + pro, {"l": ln, "k": "goto", "target": entry}))
                    if stats is not None:
                        stats.append((owner or raw.get("id"), c[1].id))
                else:
                    A = len(blocks)
                    blocks.append(blk([refst], {"l": ln, "k": "call", "synthetic": True, "func": c[1], "args": [mv(pref)], "dest": [verdict, []], "target": SW}))
                arm_entry[vname] = A
            elif kind == "call":
                idx, with_payload, wrap = arm[1], arm[2], arm[3]
                tmp = new_local("<result of closure>")
                RET = len(blocks)
                blocks.append(blk([wrap_into(dest, mv(tmp), wrap)], {"l": ln, "k": "goto", "target": T}))
                c = callees[idx]
                if c[0] == "closure":
                    RET0 = len(blocks)
                    blocks.append(None)
                    entry, lb, pro = splice_closure(raw, c[1], c[2], [payload] if with_payload else [], RET0, ln)
                    blocks[RET0] = blk([asg([tmp, []], {"k": "use", "op": mv(lb)})], {"l": ln, "k": "goto", "target": RET})
                    A = len(blocks)
                    blocks.append(blk(pro, {"l": ln, "k": "goto", "target": entry}))
                    if stats is not None:
                        stats.append((owner or raw.get("id"), c[1].id))
                else:
                    A = len(blocks)
                    blocks.append(blk([], {"l": ln, "k": "call", "synthetic": True, "func": c[1], "args": [payload] if with_payload else [], "dest": [tmp, []], "target": RET}))
                arm_entry[vname] = A
            elif kind == "payload":
                arm_entry[vname] = len(blocks)
                blocks.append(blk([wrap_into(dest, payload, arm[1])], {"l": ln, "k": "goto", "target": T}))
            elif kind == "unit":
                arm_entry[vname] = len(blocks)
                blocks.append(blk([asg(dest, {"k": "agg", "kind": "adt", "adt": arm[1], "variant": arm[2], "vidx": _VIDX[(arm[1], arm[2])], "fields": [], "ops": []})], {"l": ln, "k": "goto", "target": T}))
            elif kind == "arg":
                arm_entry[vname] = len(blocks)
                blocks.append(blk([asg(dest, {"k": "use", "op": t["args"][arm[1]]})], {"l": ln, "k": "goto", "target": T}))
            elif kind == "argwrap":
                arm_entry[vname] = len(blocks)
                blocks.append(blk([wrap_into(dest, t["args"][arm[1]], arm[2])], {"l": ln, "k": "goto", "target": T}))
            elif kind == "const":
                arm_entry[vname] = len(blocks)
                blocks.append(blk([asg(dest, {"k": "use", "op": {"k": "const", "ty": "bool", "val": arm[1], "int": "1" if arm[1] == "true" else "0"}})], {"l": ln, "k": "goto", "target": T}))
        b = blocks[bi]
        b["stmts"].append(asg([sv, []], {"k": "use", "op": t["args"][0]}))
        if adt == "bool":
            b["term"] = {"l": ln, "k": "switch", "discr": {"k": "copy", "p": [sv, []]}, "dty": "bool", "targets": [["0", arm_entry["false"]]], "otherwise": arm_entry["true"], "desugared": d}
        else:
            dsc = new_local("isize")
            U = len(blocks)
            blocks.append(blk([], {"l": ln, "k": "unreachable"}))
            names = list(arms.keys())
            b["stmts"].append(asg([dsc, []], {"k": "disc", "p": [sv, ["*"] if byref else []], "ty": adt, "adt": adt, "variants": [[n, str(_VIDX[(adt, n)])] for n in sorted(names, key=lambda n: _VIDX[(adt, n)])]}))
            b["term"] = {"l": ln, "k": "switch", "discr": {"k": "move", "p": [dsc, []]}, "dty": "isize", "targets": [[str(_VIDX[(adt, n)]), arm_entry[n]] for n in sorted(names, key=lambda n: _VIDX[(adt, n)])], "otherwise": U, "desugared": d}
        changed = True
    return changed



def desugar_closure_calls(raw, originals, stats=None, owner=None, upvar_closures=None):
    """`let due = |s| ..; if due(state) {..}`: a direct call of a closure written in this body is the closure's body"""
    changed = False
    blocks = raw["blocks"]
    for bi in range(len(blocks)):
        t = blocks[bi]["term"]
        if t["k"] != "call" or blocks[bi].get("cleanup") or t.get("target") is None:
            continue
        d, r = _fn_def(t)
        if d not in ("std::ops::Fn::call", "std::ops::FnMut::call_mut", "std::ops::FnOnce::call_once") or len(t["args"]) != 2:
            continue
        q = originals.get(r)
        env_op = t["args"][0]
        from_upvar = False
        if q is None or q.kind != "closure":
            # a generic helper that was spliced in calls its closure *parameter*: here the parameter is bound to a closure
            # written in this body -- follow the environment operand back to it
            q = None
            from_upvar = False
            cur = env_op.get("p") if env_op.get("k") in ("move", "copy") else None
            by_ref = False
            if upvar_closures and cur is not None and cur[0] == 1:
                pr0 = [e for e in cur[1] if e != "*"]
                if len(pr0) == 1 and pr0[0].startswith("f:") and int(pr0[0].split(":")[1]) in upvar_closures:
                    q = upvar_closures[int(pr0[0].split(":")[1])]
                    from_upvar = True
                    cur = None
            for _ in range(8):
                if cur is None or cur[1]:
                    break
                cst = _single_closure_def(raw, cur[0])
                if cst is not None:
                    q = originals.get(cst["rv"]["def"])
                    break
                defs = [st for b_ in blocks for st in b_["stmts"] if st["k"] == "assign" and st["lhs"] == [cur[0], []]]
                calls_ = [b_ for b_ in blocks if b_["term"]["k"] == "call" and b_["term"].get("dest") == [cur[0], []]]
                if len(defs) != 1 or calls_:
                    break
                rv = defs[0]["rv"]
                if upvar_closures:
                    # a captured callable of this (specialised) body: `move (_1.f:k)` / `&(_1.f:k)`
                    pl_ = rv["op"]["p"] if rv["k"] == "use" and rv["op"].get("k") in ("move", "copy") else (rv["p"] if rv["k"] == "ref" else None)
                    if pl_ is not None and pl_[0] == 1:
                        pr_ = [e for e in pl_[1] if e != "*"]
                        if len(pr_) == 1 and pr_[0].startswith("f:") and int(pr_[0].split(":")[1]) in upvar_closures:
                            q = upvar_closures[int(pr_[0].split(":")[1])]
                            from_upvar = True
                            break
                if rv["k"] == "use" and rv["op"].get("k") == "const" and rv["op"].get("fn"):
                    q = ("fn", rv["op"])            # the callable is a function item
                    break
                if rv["k"] == "use" and rv["op"].get("k") in ("move", "copy"):
                    cur = rv["op"]["p"]
                elif rv["k"] == "ref" and not rv["p"][1]:
                    cur = rv["p"]
                    by_ref = True
                elif rv["k"] == "ref" and rv["p"][1] == ["*"]:
                    cur = [rv["p"][0], []]
                else:
                    break
            if isinstance(q, tuple):
                pass
            elif q is None or q.kind != "closure" or q.arg_count < 1:
                continue
            # the body expects its environment as the closure's own kind says (&, &mut or by value)
            env_ty = q.raw["locals"][1]["ty"] if not isinstance(q, tuple) else "&"
            if d == "std::ops::FnOnce::call_once" and env_ty.startswith("&"):
                # called by value through FnOnce, body takes a reference: bind a reference to the moved closure value
                tmpc = len(raw["locals"])
                raw["locals"].append({"ty": "<closure>", "mut": True, "user": False, "synthetic": True})
                blocks[bi]["stmts"].append({"k": "assign", "l": t.get("l"), "lhs": [tmpc, []], "rv": {"k": "use", "op": env_op}})
                refc = len(raw["locals"])
                raw["locals"].append({"ty": "&<closure>", "mut": True, "user": False, "synthetic": True})
                blocks[bi]["stmts"].append({"k": "assign", "l": t.get("l"), "lhs": [refc, []], "rv": {"k": "ref", "mut": env_ty.startswith("&mut"), "p": [tmpc, []]}})
                env_op = {"k": "move", "p": [refc, []]}
        if isinstance(q, tuple) and q[0] == "fn":
            # the captured callable is a function item: call it directly
            targ = t["args"][1]
            fargs = None
            if targ.get("k") in ("move", "copy") and not targ["p"][1]:
                defs = [st for b_ in blocks for st in b_["stmts"] if st["k"] == "assign" and st["lhs"] == [targ["p"][0], []]]
                if len(defs) == 1 and defs[0]["rv"]["k"] == "agg" and defs[0]["rv"].get("kind") == "tuple":
                    fargs = list(defs[0]["rv"]["ops"])
            if fargs is None:
                continue
            blocks[bi]["term"] = {"l": t.get("l"), "k": "call", "synthetic": True, "func": q[1], "args": fargs, "dest": t["dest"], "target": t["target"]}
            changed = True
            continue
        # the closure must be one created in this very body (not a parameter / captured callback) -- or the captured callable this
        # specialised copy was made for
        if not (upvar_closures and q.id in [c_.id for c_ in upvar_closures.values() if not isinstance(c_, tuple)]) and not any(st["k"] == "assign" and st["rv"]["k"] == "agg" and st["rv"].get("kind") == "closure" and st["rv"].get("def") == q.id for b in blocks for st in b["stmts"]):
            continue
        if len(blocks) + len(q.raw["blocks"]) + 4 > MAX_BLOCKS:
            continue
        targ = t["args"][1]
        arg_ops = None
        if targ.get("k") in ("move", "copy") and not targ["p"][1]:
            defs = [st for b in blocks for st in b["stmts"] if st["k"] == "assign" and st["lhs"] == [targ["p"][0], []]]
            if len(defs) == 1 and defs[0]["rv"]["k"] == "agg" and defs[0]["rv"].get("kind") == "tuple":
                arg_ops = list(defs[0]["rv"]["ops"])
            else:
                arg_ops = [{"k": "move", "p": [targ["p"][0], ["f:%d" % i]]} for i in range(q.arg_count - 1)]
        elif targ.get("k") == "const" and q.arg_count == 1:
            arg_ops = []
        if arg_ops is None or len(arg_ops) != q.arg_count - 1:
            continue
        ln = t.get("l")
        RET = len(blocks)
        blocks.append(None)
        entry, lb, pro = splice_closure(raw, q, None, arg_ops, RET, ln, env_op=env_op)
        blocks[RET] = {"cleanup": False, "inl": q.id, "stmts": [{"k": "assign", "l": ln, "lhs": t["dest"], "rv": {"k": "use", "op": {"k": "move", "p": [lb, []]}}, "inl": q.id}],
                       "term": {"l": ln, "k": "goto", "target": t["target"]}}
        b = blocks[bi]
        b["stmts"].extend(pro)
        b["term"] = {"k": "goto", "target": entry, "l": ln, "inl_call": q.id}
        changed = True
        if stats is not None:
            stats.append((owner or raw.get("id"), q.id))
    return changed



def desugar_collect(raw, originals, stats=None, owner=None):
    """`base.map(|x| f(x)).collect::<Vec<_>>()` / `base.filter_map(|x| g(x)).collect::<Vec<_>>()`: the closure runs inside
    `collect`, once per item, in order -- presented as the loop `for x in base { out.push(f(x)) }` resp.
    `for x in base { if let Some(v) = g(x) { out.push(v) } }` with the closure body spliced in.  Only a single adapter whose
    result is used by nothing but the `collect`, a closure written in place, and a `Vec` result are handled."""
    changed = False
    blocks = raw["blocks"]
    L = raw["locals"]
    def new_local(ty):
        L.append({"ty": ty, "mut": True, "user": False, "synthetic": True})
        return len(L) - 1
    for bi in range(len(blocks)):
        t = blocks[bi]["term"]
        if t["k"] != "call" or blocks[bi].get("cleanup") or t.get("target") is None:
            continue
        d, _r = _fn_def(t)
        if d != "std::iter::Iterator::collect" or len(t["args"]) != 1:
            continue
        gargs = ((t.get("func") or {}).get("fn") or {}).get("gargs") or []
        if len(gargs) < 2 or not gargs[1].startswith("std::vec::Vec<"):
            continue
        itop = t["args"][0]
        if itop.get("k") != "move" or itop["p"][1]:
            continue
        itl = itop["p"][0]
        # the adapter call that produced the iterator
        ad_bi = None
        for bj, b in enumerate(blocks):
            tt = b["term"]
            if tt["k"] == "call" and tt.get("dest") == [itl, []]:
                if ad_bi is not None:
                    ad_bi = -1
                    break
                ad_bi = bj
        if ad_bi is None or ad_bi < 0 or _uses_of_local(blocks, itl) != 1:
            continue
        at = blocks[ad_bi]["term"]
        ad, _r2 = _fn_def(at)
        if ad not in ("std::iter::Iterator::map", "std::iter::Iterator::filter_map") or len(at["args"]) != 2 or at.get("target") is None:
            continue
        cop = at["args"][1]
        if cop.get("k") != "move" or cop["p"][1]:
            continue
        cst = _single_closure_def(raw, cop["p"][0])
        if cst is None:
            continue
        q = originals.get(cst["rv"]["def"])
        if q is None or q.kind != "closure" or q.arg_count != 2:
            continue
        if len(blocks) + len(q.raw["blocks"]) + 12 > MAX_BLOCKS:
            continue
        ln = t.get("l")
        ainfo = ((at.get("func") or {}).get("fn") or {})
        base_ty = ainfo.get("self_ty") or (ainfo.get("gargs") or ["<iterator>"])[0]
        it = new_local(base_ty)
        rit = new_local("&mut " + base_ty)
        item_ty = q.raw["locals"][2]["ty"]
        nxt = new_local("std::option::Option<%s>" % item_ty)
        dsc = new_local("isize")
        rv_l = new_local(q.raw["locals"][0]["ty"])
        out_ref = new_local("&mut " + gargs[1])
        unit = new_local("()")
        is_fm = ad.endswith("filter_map")
        blk = lambda stmts, term: {"cleanup": False, "inl": q.id, "stmts": stmts, "term": term}
        asg = lambda lhs, rv: {"k": "assign", "l": ln, "lhs": lhs, "rv": rv, "inl": q.id}
        def syn_call(defname, val, args, dest, target, extra=None):
            fninfo = {"def": defname, "gargs": []}
            if extra:
                fninfo.update(extra)
            return {"l": ln, "k": "call", "synthetic": True, "func": {"k": "const", "ty": "fn", "val": val, "fn": fninfo}, "args": args, "dest": dest, "target": target}
        H = len(blocks); blocks.append(None)
        S = len(blocks); blocks.append(None)
        B = len(blocks); blocks.append(None)
        R = len(blocks); blocks.append(None)
        P = len(blocks); blocks.append(None)
        U = len(blocks); blocks.append(blk([], {"l": ln, "k": "unreachable"}))
        entry, lb, pro = splice_closure(raw, q, cop["p"][0], [{"k": "move", "p": [nxt, ["d:1:Some", "f:0:0"]]}], R, ln)
        next_resolved = ("<%s<I> as std::iter::Iterator>::next" % base_ty.split("<")[0]) if "<" in base_ty else None
        blocks[H] = blk([asg([rit, []], {"k": "ref", "mut": True, "p": [it, []]})],
                        syn_call("std::iter::Iterator::next", "<%s as std::iter::Iterator>::next" % base_ty, [{"k": "move", "p": [rit, []]}], [nxt, []], S,
                                 {"trait": "std::iter::Iterator", "self_ty": base_ty, "resolved": next_resolved} if next_resolved else {"trait": "std::iter::Iterator", "self_ty": base_ty}))
        blocks[S] = blk([asg([dsc, []], {"k": "disc", "p": [nxt, []], "ty": "std::option::Option<%s>" % item_ty, "adt": "std::option::Option", "variants": [["None", "0"], ["Some", "1"]]})],
                        {"l": ln, "k": "switch", "discr": {"k": "move", "p": [dsc, []]}, "dty": "isize", "targets": [["0", t["target"]], ["1", B]], "otherwise": U})
        blocks[B] = blk(pro, {"l": ln, "k": "goto", "target": entry})
        push = lambda val_op: syn_call("std::vec::Vec::<T, A>::push", "std::vec::Vec::<T, A>::push", [{"k": "move", "p": [out_ref, []]}, val_op], [unit, []], H, {"impl_self": "std::vec::Vec<T, A>"})
        if is_fm:
            dsc2 = new_local("isize")
            blocks[R] = blk([asg([rv_l, []], {"k": "use", "op": {"k": "move", "p": [lb, []]}}),
                             asg([dsc2, []], {"k": "disc", "p": [rv_l, []], "ty": q.raw["locals"][0]["ty"], "adt": "std::option::Option", "variants": [["None", "0"], ["Some", "1"]]})],
                            {"l": ln, "k": "switch", "discr": {"k": "move", "p": [dsc2, []]}, "dty": "isize", "targets": [["0", H], ["1", P]], "otherwise": U})
            blocks[P] = blk([asg([out_ref, []], {"k": "ref", "mut": True, "p": list(t["dest"])})], push({"k": "move", "p": [rv_l, ["d:1:Some", "f:0:0"]]}))
        else:
            blocks[R] = blk([asg([rv_l, []], {"k": "use", "op": {"k": "move", "p": [lb, []]}})], {"l": ln, "k": "goto", "target": P})
            blocks[P] = blk([asg([out_ref, []], {"k": "ref", "mut": True, "p": list(t["dest"])})], push({"k": "move", "p": [rv_l, []]}))
        # the adapter call only hands the base iterator on; the collect call creates the (empty) result and starts the loop
        ab = blocks[ad_bi]
        ab["stmts"].append(asg([it, []], {"k": "use", "op": at["args"][0]}))
        ab["term"] = {"l": at.get("l"), "k": "goto", "target": at["target"], "inl_call": q.id}
        b = blocks[bi]
        b["term"] = syn_call("std::vec::Vec::<T>::new", "std::vec::Vec::<T>::new", [], t["dest"], H, {"impl_self": "std::vec::Vec<T>"})
        changed = True
        if stats is not None:
            stats.append((owner or raw.get("id"), q.id))
    return changed


def inline_body(db, f, originals, stats=None, mode="cons"):
    """returns a new raw dict for f with inlinable local calls spliced in, or None if nothing was inlined"""
    raw = None
    changed = False
    comb = mode.endswith("+c")
    if comb:
        mode = mode[:-2]
    for depth in range(MAX_DEPTH):
        if comb:
            src0 = raw if raw is not None else f.raw
            if any(b["term"]["k"] == "call" and _fn_def(b["term"])[0] in COMBINATORS for b in src0["blocks"]):
                if raw is None:
                    raw = copy.deepcopy(f.raw)
                if desugar_combinators(raw, originals, stats, f.id):
                    changed = True
        if not os.environ.get("VERIF_NO_CLOSURE_CALLS"):
            src1 = raw if raw is not None else f.raw
            if any(b["term"]["k"] == "call" and _fn_def(b["term"])[0] in ("std::ops::Fn::call", "std::ops::FnMut::call_mut", "std::ops::FnOnce::call_once") for b in src1["blocks"]):
                if raw is None:
                    raw = copy.deepcopy(f.raw)
                if desugar_closure_calls(raw, originals, stats, f.id):
                    changed = True
        if not os.environ.get("VERIF_NO_FOREACH"):
            has = any(b["term"]["k"] == "call" and _fn_def(b["term"])[0] in ("std::iter::Iterator::for_each", "std::iter::Iterator::try_for_each") for b in (raw if raw is not None else f.raw)["blocks"])
            if has:
                if raw is None:
                    raw = copy.deepcopy(f.raw)
                if desugar_for_each(raw, originals, stats, f.id):
                    changed = True
        if comb and not os.environ.get("VERIF_NO_COLLECT"):
            srcc = raw if raw is not None else f.raw
            if any(b["term"]["k"] == "call" and _fn_def(b["term"])[0] == "std::iter::Iterator::collect" for b in srcc["blocks"]):
                if raw is None:
                    raw = copy.deepcopy(f.raw)
                if desugar_collect(raw, originals, stats, f.id):
                    changed = True
        if comb and not os.environ.get("VERIF_NO_FETCH_UPDATE"):
            # (only the "+c" views: rules that know the closure form of a status-word update see it in the others)
            has = any(b["term"]["k"] == "call" and _fn_def(b["term"])[0].endswith("::fetch_update") for b in (raw if raw is not None else f.raw)["blocks"])
            if has:
                if raw is None:
                    raw = copy.deepcopy(f.raw)
                if desugar_fetch_update(raw, originals, stats, f.id):
                    changed = True
        src = raw if raw is not None else f.raw
        blocks = src["blocks"]
        todo = []
        for bi, b in enumerate(blocks):
            t = b["term"]
            if t["k"] != "call" or b.get("cleanup"):
                continue
            fnc = t.get("func") or {}
            info = fnc.get("fn") if fnc.get("k") == "const" else None
            if not info:
                continue
            g = None
            for n in (info.get("resolved"), info.get("def")):
                if n and n in originals:
                    g = originals[n]
                    break
            if g is None or not inlinable(db, f, g, mode):
                continue
            if len(t["args"]) != g.arg_count:
                continue
            if g.raw.get("is_async"):
                site = async_site(blocks, bi, g, originals)
                if site is None:
                    # not awaited on the spot (boxed, wrapped in catch_unwind, spawned, ..): the call only *creates* the
                    # helper's future -- splice that creation in (`async fn f(a)` is `fn f(a) -> impl Future { async move {..} }`),
                    # which makes the helper's body an async block of the caller
                    if getattr(db, "ctor_inlined", None) is not None and len(g.raw["blocks"]) <= 16 and not any(b_["term"]["k"] == "call" for b_ in g.raw["blocks"]):
                        db.ctor_inlined.append((f.id, g.id))
                        todo.append((bi, g, None))
                    continue
                todo.append((bi, g, site))
                continue
            todo.append((bi, g, None))
        if not todo:
            break
        if raw is None:
            raw = copy.deepcopy(f.raw)
            blocks = raw["blocks"]
        if len(blocks) + sum(len((site["q"] if site else g).raw["blocks"]) for _, g, site in todo) > MAX_BLOCKS:
            break
        for bi, g, site in todo:
            if site is not None:
                # re-derive the await on the current blocks (an earlier splice of this round may have rewritten them)
                site = async_site(blocks, bi, g, originals) if blocks[bi]["term"]["k"] == "call" else None
                if site is None:
                    continue
                splice_async(raw, bi, g, site)
                changed = True
                if stats is not None:
                    stats.append((f.id, g.id))
                continue
            b = blocks[bi]
            t = b["term"]
            lb = len(raw["locals"])
            bbase = len(blocks)
            pb = len(raw.get("promoted") or [])
            raw["locals"].extend(copy.deepcopy(g.raw["locals"]))
            for d in g.raw.get("debug", []):
                raw["debug"].append({"name": d["name"], "p": _map_place(d["p"], lb)})
            if g.raw.get("promoted"):
                raw.setdefault("promoted", [])
                raw["promoted"].extend(copy.deepcopy(g.raw["promoted"]))
            dest = t["dest"]
            target = t.get("target")
            for gb in g.raw["blocks"]:
                nb = {"cleanup": gb.get("cleanup", False), "stmts": [_map_stmt(s, lb, pb) for s in gb["stmts"] if s["k"] not in ("live", "dead")]}
                gt = gb["term"]
                if gt["k"] == "return":
                    nb["stmts"].append({"k": "assign", "l": gt.get("l"), "lhs": dest, "rv": {"k": "use", "op": {"k": "move", "p": [lb, []]}}, "inl": g.id})
                    nb["term"] = {"k": "goto", "target": target, "l": gt.get("l")} if target is not None else {"k": "unreachable", "l": gt.get("l")}
                else:
                    nb["term"] = _map_term(gt, lb, bbase, pb)
                nb["inl"] = g.id
                blocks.append(nb)
            # the call site: bind the arguments, jump to the helper's entry
            for i, a in enumerate(t["args"]):
                b["stmts"].append({"k": "assign", "l": t.get("l"), "lhs": [lb + 1 + i, []], "rv": {"k": "use", "op": a}, "inl": g.id})
            b["term"] = {"k": "goto", "target": bbase, "l": t.get("l"), "inl_call": g.id}
            changed = True
            if stats is not None:
                stats.append((f.id, g.id))
    return raw if changed else None


def specialise_captured_callables(db, nf_raw, owner_id, originals, new_fns, stats=None):
    """A generic helper that receives the effect as a closure and runs it inside an async block / closure of its own
    (`fn spawn_later(d, action: impl FnOnce()) { spawn(async move { sleep(d).await; action() }) }`): once the helper is spliced
    into a caller that passes a closure written in place, the helper's inner body is created *there* with that closure as a
    captured variable.  Give that creation site its own copy of the inner body with the closure's body spliced in at the call
    of the captured variable.  Returns True if something changed."""
    changed = False
    counter = 0
    for b in nf_raw["blocks"]:
        for st in b["stmts"]:
            if st["k"] != "assign" or st["rv"]["k"] != "agg" or st["rv"].get("kind") not in ("closure", "coroutine"):
                continue
            q = originals.get(st["rv"].get("def"))
            if q is None or q.id.startswith(owner_id + "::"):
                continue
            ups = {}
            for k, op in enumerate(st["rv"]["ops"]):
                if op.get("k") == "const" and op.get("fn"):
                    ups[k] = ("fn", op)
                    continue
                if op.get("k") in ("move", "copy") and not op["p"][1]:
                    cur = op["p"][0]
                    cst = None
                    for _ in range(6):
                        cst = _single_closure_def(nf_raw, cur)
                        if cst is not None:
                            break
                        defs = [s2 for b2 in nf_raw["blocks"] for s2 in b2["stmts"] if s2["k"] == "assign" and s2["lhs"] == [cur, []]]
                        if len(defs) != 1 or any(b2["term"]["k"] == "call" and b2["term"].get("dest") == [cur, []] for b2 in nf_raw["blocks"]):
                            break
                        rv2 = defs[0]["rv"]
                        if rv2["k"] == "use" and rv2["op"].get("k") in ("move", "copy") and not rv2["op"]["p"][1]:
                            cur = rv2["op"]["p"][0]
                        elif rv2["k"] == "use" and rv2["op"].get("k") == "const" and rv2["op"].get("fn"):
                            ups[k] = ("fn", rv2["op"])          # a function item passed as the callable
                            break
                        else:
                            break
                    if cst is not None:
                        c = originals.get(cst["rv"]["def"])
                        if c is not None and c.kind == "closure":
                            ups[k] = c
            if not ups:
                continue
            clone = copy.deepcopy(q.raw)
            if not desugar_closure_calls(clone, originals, stats, None, upvar_closures=ups):
                continue
            counter += 1
            cid = "%s::{%s of %s#%d}" % (owner_id, "async block" if q.kind == "coroutine" else "closure", q.id.split("::")[-2] if q.id.endswith("}") else q.id.split("::")[-1], counter)
            clone["id"] = cid
            clone["parent"] = owner_id
            new_fns.append((cid, clone, q))
            st["rv"]["def"] = cid
            changed = True
    return changed

"""C04 -- Failures are contained and reported to the supervisor exactly once."""
import re
from .model import *
from .engine import AnchorLost
from .facts import Site, op_place, Call
from . import c05, c03

EXPLANATION = ("Containment: the future-flow analysis (K14) shows that no task root and no public future can poll a user callback outside a "
               "catch_unwind. Exactly-once reporting: terminal events are constructed only in the two spawned loop tasks and the guard's Drop; each "
               "spawned task reaches exactly one consuming `finish(self, evt)` on every path; the guard's cleanup is one-shot (armed flag tested "
               "first, cleared only after Stopped is stored) so Drop after finish is a no-op and a cancelled task reports through Drop; the "
               "classification (Ok->ActorTerminated, Cancelled->ActorTerminated(None,'killed'), Failed->ActorFailed, Drop->'actor_task_cancelled' only "
               "once marked running) is read off the MIR; mark_running / ActorStarted are dominated by the successful pre_start / post_start edges; "
               "the supervision port is written only by the tree notification (targets = the actor's own supervisor / monitors), pg and pid events.")
TRUSTED = ["futures::FutureExt::catch_unwind catches every unwinding panic of the wrapped future", "delivery on the supervisor's port = C02 of that port"]
ASSUMPTIONS = ["`panic = abort` builds are out of scope (no unwinding to contain)", "that the supervisor *processes* the event is C02/C03 of the supervisor"]

DOC = {
 "C04.R1": "K14: no task root / public future carries an uncontained callback (P tag); every hook reaches a catch_unwind",
 "C04.R2": "who-may-construct: ActorTerminated/ActorFailed only in the spawned loop tasks and the guard's Drop; ActorStarted only in the processing loops",
 "C04.R3": "terminal event values flow only into guard.finish / cleanup; notify_supervisor with a terminal payload has a single call site (cleanup)",
 "C04.R4": "spawned task: every path from loop completion to the end passes through exactly one finish (unique, not in a cycle); the guard is captured by the task (cancellation drops it)",
 "C04.R5": "cleanup is one-shot: effects only on the armed edge; `armed` is written only after set_status(Stopped); finish consumes self",
 "C04.R6": "classification table of the exit event in both runtimes and in Drop (constants 'killed', 'actor_task_cancelled', notify_on_cancel gate)",
 "C04.R7": "mark_running only after pre_start Ok (and after the successful link, Send); ActorStarted only after post_start Ok and set_status(Running), once, and then on every path (unconditional)",
 "C04.R8": "supervision port writers: tree notification (targets originate from the actor's own supervisor/monitors fields), pg, pid registry",
 "C04.R10": "= C03.R4: outcome table of the message step in both runtimes (signal -> killed result, handler Err -> Err exit, Stop/Drained -> graceful result): the classification of C04.R6 (`killed` / failed / terminated-with-reason) is fed by these per-branch outcomes, so a kill landing in a supervision handler must not be turned into a graceful stop",
 "C04.R9": "= C05.R5/R1: the supervisor slot an exit event is addressed to is cleared only by its owner (unlink identity test) and notify precedes unlink",
}

TERMINAL = ("ActorTerminated", "ActorFailed")


def r1(run, db):
    m = model(db)
    ff = m.ff()
    run.saw(len(ff.bodies))
    for f in ff.bodies:
        run.functions.add(f.id)
    v = ff.violations("P")
    for key, detail, where in v:
        run.fail(key, detail, where)
    run.check(not v, "no-uncontained-root", "fixpoint over %d bodies: %d task roots and all public futures inspected; none can unwind out of a callback" % (len(ff.bodies), len(ff.roots)), "see root violations")
    hooks = ["pre_start", "post_start", "post_stop", "handle", "handle_supervisor_evt"]
    n = 0
    for rt in m.runtimes():
        for h in hooks:
            cs = [c for key, (c, tags) in ff.catch_calls.items() if ("P:%s.%s" % (rt, h)) in concrete(tags)]
            n += len(cs)
            run.check(len(cs) >= 1, "contained:%s.%s" % (rt, h), "callback %s.%s is wrapped by catch_unwind at %s" % (rt, h, [c.where() for c in cs]),
                      "no catch_unwind receives a future running %s.%s" % (rt, h))
    run.anchor("catch_unwind wrappers of callbacks", n, 10)


def r2(run, db):
    m = model(db)
    blocks = {m.spawn_block(rt).id for rt in m.runtimes()}
    loops = {m.loop_body(rt).id for rt in m.runtimes()}
    drop_family = {f.id for f in db.family(m.guard_drop().id)}
    n = 0
    for f in db.crate_fns("ractor"):
        for site, s in f.aggregates(adt="SupervisionEvent"):
            v = s["rv"]["variant"]
            run.saw(1, f)
            if v in TERMINAL:
                n += 1
                okp = f.id in blocks or f.id in drop_family or (f.id.endswith("clone_no_data") and "SupervisionEvent" in f.id)
                run.check(okp, "terminal-ctor:%s:%s" % (v, f.id), "%s constructed in allowed role %s" % (v, f.id),
                          "%s is constructed in %s, which is neither a spawned loop task nor the guard's Drop" % (v, f.id), f.where(s.get("l")))
            elif v == "ActorStarted":
                okp = f.id in loops or (f.id.endswith("clone_no_data") and "SupervisionEvent" in f.id)
                run.check(okp, "started-ctor:%s" % f.id, "ActorStarted constructed in processing loop %s" % f.id, "ActorStarted is constructed outside the processing loops, in %s" % f.id, f.where(s.get("l")))
    run.anchor("terminal event constructions", n, 7)


def r3(run, db):
    m = model(db)
    fin = m.guard_finish()
    cl = m.guard_cleanup()
    for rt in m.runtimes():
        blk = m.spawn_block(rt)
        fc = [c for c in blk.calls() if c.callee == fin.id]
        for site, s in blk.aggregates(adt="SupervisionEvent"):
            if s["rv"]["variant"] not in TERMINAL:
                continue
            locs, uses = blk.flows_forward(s["lhs"][0])
            sinks = [u for u in uses if u[1].startswith("arg")]
            bad = [u for u in sinks if not (Call(blk, u[0].bb, u[2]).callee == fin.id)]
            run.check(len(sinks) >= 1 and not bad, "%s|evt-flows-to-finish:%s@%s" % (rt, s["rv"]["variant"], "x"), "the %s value built in the loop task flows only into guard.finish" % s["rv"]["variant"],
                      "a terminal event flows into %s" % [Call(blk, u[0].bb, u[2]).name for u in bad], blk.where(s.get("l")))
    # notify_supervisor callers
    callers = db.calls_of("ActorCell::notify_supervisor")
    term_callers = [c for c in callers if c.fn.id == cl.id]
    others = [c for c in callers if c.fn.id != cl.id]
    run.check(len(term_callers) == 1, "notify-in-cleanup-once", "cleanup contains exactly one notify_supervisor call", "cleanup has %d notify_supervisor calls" % len(term_callers), cl.where())
    for c in others:
        # payload must be ActorStarted (constructed by caller's caller) -- check that the function is the started-notification helper
        okc = c.fn.id.endswith("notify_supervisor_and_monitors")
        run.check(okc, "notify-other:%s" % c.fn.id, "%s forwards the ActorStarted notification" % c.fn.id, "unexpected caller of notify_supervisor: %s" % c.fn.id, c.where())
    for c in db.calls_of("notify_supervisor_and_monitors"):
        pay = c.fn.origins(c.args[1])
        okp = all(r["k"] == "agg" and r["stmt"]["rv"].get("variant") == "ActorStarted" for r in pay) and pay
        run.check(okp, "started-payload:%s" % c.fn.id, "notify_supervisor_and_monitors is called with an ActorStarted payload in %s" % c.fn.id, "non-ActorStarted payload sent through the start notification", c.where())
    # cleanup's payload originates from its parameter
    if term_callers:
        c = term_callers[0]
        okp = any(r["k"] == "arg" and r["local"] == 2 for r in cl.origins(c.args[1]))
        run.check(okp, "cleanup-payload-param", "cleanup forwards exactly the event it was given", "cleanup notifies with something other than its event parameter", c.where())


def r4(run, db):
    m = model(db)
    fin = m.guard_finish()
    g = m.guard_adt()
    for rt in m.runtimes():
        blk = m.spawn_block(rt)
        run.saw(len(blk.blocks), blk)
        fc = [c for c in blk.calls() if c.callee == fin.id]
        run.check(len(fc) == 1, "%s|finish-unique" % rt, "the spawned loop task contains exactly one finish call", "the spawned loop task has %d finish calls" % len(fc), blk.where())
        if len(fc) != 1:
            continue
        c = fc[0]
        run.check(not blk.in_cycle(c.site), "%s|finish-not-in-cycle" % rt, "finish is not in a cycle", "finish is in a cycle", c.where())
        lp_root = db.root_of(m.loop_body(rt))
        lc = [x for x in blk.calls() if x.callee == lp_root.id]
        aw = await_of_call(blk, lc[0]) if lc else []
        run.anchor("%s await of processing loop in spawned task" % rt, len(aw), 1)
        if aw and aw[0].ready_edge:
            run.check(all_paths_from_edge_pass(blk, aw[0].ready_edge, [c.site]), "%s|finish-on-every-path" % rt,
                      "every path from the completion of the processing loop to the end of the task passes through finish", "a path after loop completion skips finish (no terminal event, cleanup only by Drop)", c.where())
        # guard is a captured upvar of the task
        roots = blk.origins(c.args[0])
        run.check(any(r["k"] == "upvar" for r in roots) and all(r["k"] == "upvar" for r in roots), "%s|guard-captured" % rt, "the guard consumed by finish is captured state of the spawned task (dropped on cancellation)",
                  "the guard passed to finish is not the task's captured guard", c.where())
        # and the captured value comes, in the creator, from the runtime struct's guard field
        cs = creation_sites(db, blk)
        if cs and roots and roots[0]["k"] == "upvar":
            par, site, s = cs[0]
            o = s["rv"]["ops"][roots[0]["field"]]
            ty = place_ty(db, par, op_place(o))
            run.check(ty == g and o["k"] == "move", "%s|guard-moved-in" % rt, "the creator moves its %s into the task" % g, "captured value has type %s" % ty, par.where(s.get("l")))
    # finish takes self by value
    ins = fin.raw.get("inputs", [])
    run.check(ins and ins[0] == g, "finish-by-value", "finish(self, ..) consumes the guard (at most one explicit finish per guard)", "finish does not take the guard by value: %s" % ins, fin.where())


def r5(run, db):
    m = model(db)
    cl = m.guard_cleanup()
    run.saw(len(cl.blocks), cl)
    try:
        armed_name, notify_name = guard_flags(db)
    except AnchorLost:
        armed_name, notify_name = None, None
    armed = None
    for site, sw in cl.switches():
        if sw["dty"] == "bool" and armed_name:
            roots = flag_roots(cl, sw["discr"])
            if any(any(e.endswith(":" + armed_name) for e in r.get("proj", []) + r.get("trail", [])) for r in roots) and all(r["k"] in ("arg", "upvar") for r in roots):
                armed = site
    run.check(armed is not None, "armed-test", "cleanup tests the `armed` field directly", "cleanup does not test `self.armed` directly (e.g. it swaps it first)", cl.where())
    if armed is None:
        return
    armed_init, notify_init = guard_flag_inits(db)
    te = flag_edge_for_value(cl, armed, armed_init)          # the edge on which the flag still has its initial (= armed) value
    eff = [(o, c) for o, c, ch in inlined_calls(db, cl) if c.is_("ActorCell::set_status", "ActorCell::terminate", "ActorCell::notify_supervisor", "ActorCell::unlink")]
    for o, c in eff:
        run.check(te and cl.edge_dominates(te, o), "effect-on-armed:%s@%s" % (c.name.split("::")[-1], c.fn.value_consts(c.args[1])[0].split("::")[-1] if c.is_("ActorCell::set_status") and c.fn.value_consts(c.args[1]) else ""),
                  "%s only on the armed edge" % c.name.split("::")[-1], "%s can run when the guard is already disarmed (double cleanup)" % c.name, c.where())
    # writes to armed: assignments with lhs field armed, or &mut armed escaping to calls
    stopped = [o for o, c, ch in inlined_calls(db, cl) if c.is_("ActorCell::set_status") and c.fn.value_consts(c.args[1]) and c.fn.value_consts(c.args[1])[0].endswith("::Stopped")]
    writes = []
    for site, s in cl.stmts():
        if s["k"] == "assign" and any(e.endswith(":" + armed_name) for e in s["lhs"][1]):
            writes.append((site, "store", s))
        if s["k"] == "assign" and s["rv"]["k"] == "ref" and s["rv"].get("mut") and any(e.endswith(":" + armed_name) for e in s["rv"]["p"][1]):
            writes.append((site, "&mut", s))
    run.check(len(writes) >= 1, "armed-cleared", "cleanup disarms the guard", "cleanup never clears `armed`: Drop after finish would notify twice", cl.where())
    for site, kind, s in writes:
        okw = bool(stopped) and cl.dominates(stopped[0], site)
        run.check(okw, "armed-write-after-stopped:%s" % kind, "`armed` is written only after set_status(Stopped) (an unwinding cleanup is re-run by Drop and still releases waiters)",
                  "`armed` is written before the cleanup completed: a cleanup that unwinds part-way leaves the actor stuck in Stopping with waiters never released", cl.where(s.get("l")))
        if kind == "store":
            v = cl.value_consts(s["rv"]["op"]) if s["rv"]["k"] == "use" else []
            run.check(v == [other_bool(armed_init)], "armed-store-false", "the store writes the disarmed value (the opposite of the constructor's)", "armed store writes %s, the constructor's value is %s" % (v, armed_init), cl.where(s.get("l")))
    # no other body writes armed / notify_on_cancel except ctor and mark_running
    g = m.guard_adt()
    for f in db.crate_fns("ractor"):
        if f.id == cl.id:
            continue
        for site, s in f.stmts():
            if s["k"] == "assign" and any(e.endswith(":" + armed_name) for e in s["lhs"][1]) and g in " ".join(l["ty"] for l in f.locals):
                run.fail("armed-foreign-write:%s" % f.id, "%s writes the guard's armed flag" % f.id, f.where(s.get("l")))


def const_strings(fn, op):
    thr = lambda c: 0 if c.matches(r"ToString>::to_string$|ToString::to_string$|String::from$|Into<U>>::into$|ToOwned::to_owned$|From<T>>::from$|str::<impl str>::to_string$|str::<impl str>::to_owned$") else None
    out = []
    for r in fn.origins(op, thr):
        if r["k"] == "const":
            out.append(fn.const_repr(r["op"]))
        elif r["k"] == "agg" and r["stmt"]["rv"].get("variant") == "Some" and r["stmt"]["rv"]["ops"]:
            out.extend(const_strings(fn, r["stmt"]["rv"]["ops"][0]))
    return out


def opt_shape(fn, op):
    """'None' / 'Some' for an Option operand built locally, else 'var'"""
    out = set()
    for r in fn.origins(op):
        if r["k"] == "agg" and r["stmt"]["rv"].get("adt", "").endswith("option::Option"):
            out.add(r["stmt"]["rv"]["variant"])
        else:
            out.add("var")
    return sorted(out)


def r6(run, db):
    m = model(db)
    armed_name, notify_name = guard_flags(db)
    armed_init, notify_init = guard_flag_inits(db)
    for rt in m.runtimes():
        blk = m.spawn_block(rt)
        lp_root = db.root_of(m.loop_body(rt))
        lc = [x for x in blk.calls() if x.callee == lp_root.id]
        aw = await_of_call(blk, lc[0]) if lc else []
        if not aw:
            run.fail("%s|loop-await" % rt, "await of the processing loop not found in the spawned task")
            continue
        poll = aw[0].poll
        evs = [(site, s) for site, s in blk.aggregates(adt="SupervisionEvent") if s["rv"]["variant"] in TERMINAL]
        def on_edge(e):
            return [(site, s) for site, s in evs if e and blk.edge_dominates(e, site)]
        e_ok = nested_variant_edge(blk, poll, ["Ready", "Ok"])
        e_c = nested_variant_edge(blk, poll, ["Ready", "Err", "Cancelled"])
        e_f = nested_variant_edge(blk, poll, ["Ready", "Err", "Failed"])
        lo = on_edge(e_ok)
        run.check(len(lo) == 1 and lo[0][1]["rv"]["variant"] == "ActorTerminated", "%s|Ok->ActorTerminated" % rt, "loop Ok(reason) -> ActorTerminated", "loop Ok maps to %s" % [s["rv"]["variant"] for _, s in lo], blk.where())
        if len(lo) == 1:
            s = lo[0][1]
            ops = s["rv"]["ops"]
            # reason originates from the loop's Ok payload
            okr = any(r["k"] == "call" and r["call"].bb == poll.bb for r in blk.origins(ops[2]))
            run.check(okr, "%s|Ok-reason" % rt, "the exit reason reported is the loop's Ok payload", "exit reason does not come from the loop result", blk.where(s.get("l")))
            st = opt_shape(blk, ops[1])
            want = ["Some"] if rt == "S" else ["None"]
            run.check(st == want, "%s|Ok-state" % rt, "final state payload is %s" % want[0], "final state payload shape %s (expected %s)" % (st, want), blk.where(s.get("l")))
            if st == ["Some"]:
                # "kill (no state)": the state-carrying Ok outcome must be unreachable once the loop reported was_killed
                from .c01 import loop_result_flag_edges
                lb, law, flags = loop_result_flag_edges(db, m, rt)
                oks = ok_return_sites(lb)
                run.anchor("%s loop-body Ok returns" % rt, len(oks), 1, lb.where())
                run.check(bool(flags), "%s|killed-flag" % rt, "the loop result's was_killed flag is tested in the loop body", "the loop body does not test the was_killed flag of the loop result", lb.where())
                for o in oks:
                    good = any(nk and edge_guards(lb, nk, o) for k, nk in flags)
                    run.check(good, "%s|Ok(state)-only-if-not-killed" % rt, "the loop body returns Ok (which the task reports together with the final state) only on the not-killed edge",
                              "the loop body returns Ok(reason) also when the loop reported was_killed, and the task turns every Ok into ActorTerminated(.., Some(state), ..): a killed actor is reported with its state (documented and required: no state after a kill; a kill landing in post_start/post_stop already reports None)", lb.where())
        lc_ = on_edge(e_c)
        run.check(len(lc_) == 1 and lc_[0][1]["rv"]["variant"] == "ActorTerminated", "%s|Cancelled->ActorTerminated" % rt, "Err(Cancelled) -> ActorTerminated", "Err(Cancelled) maps to %s" % [s["rv"]["variant"] for _, s in lc_], blk.where())
        if len(lc_) == 1:
            s = lc_[0][1]
            ops = s["rv"]["ops"]
            cs = const_strings(blk, ops[2])
            run.check(opt_shape(blk, ops[1]) == ["None"] and cs == ['"killed"'], "%s|Cancelled-payload" % rt, "kill reports (None, Some(\"killed\"))", "kill reports state %s reason %s" % (opt_shape(blk, ops[1]), cs), blk.where(s.get("l")))
        lf = on_edge(e_f)
        run.check(len(lf) == 1 and lf[0][1]["rv"]["variant"] == "ActorFailed", "%s|Failed->ActorFailed" % rt, "Err(Failed(e)) -> ActorFailed", "Err(Failed) maps to %s" % [s["rv"]["variant"] for _, s in lf], blk.where())
        if len(lf) == 1:
            s = lf[0][1]
            okp = any(r["k"] == "call" and r["call"].bb == poll.bb and any("Failed" in e for e in r["proj"]) for r in blk.origins(s["rv"]["ops"][1]))
            run.check(okp, "%s|Failed-payload" % rt, "ActorFailed carries the error of Err(Failed(e))", "ActorFailed payload does not originate from the loop's error", blk.where(s.get("l")))
        # all three events name this actor: first operand originates from the captured actor ref (get_cell of a clone of it)
    # Drop
    dr = m.guard_drop()
    fam = db.family(dr.id)
    evs = [(f, site, s) for f in fam for site, s in f.aggregates(adt="SupervisionEvent")]
    run.check(len(evs) == 1 and evs[0][2]["rv"]["variant"] == "ActorTerminated", "drop|event", "Drop builds exactly one ActorTerminated", "Drop builds %s" % [e[2]["rv"]["variant"] for e in evs], dr.where())
    if len(evs) == 1:
        f, site, s = evs[0]
        cs = const_strings(f, s["rv"]["ops"][2])
        run.check(cs == ['"actor_task_cancelled"'] and opt_shape(f, s["rv"]["ops"][1]) == ["None"], "drop|payload", "Drop reports (None, Some(\"actor_task_cancelled\"))", "Drop reports %s" % cs, f.where(s.get("l")))
        # built lazily inside the closure passed to `notify_on_cancel.then(..)`
        okgate = False
        for c in dr.calls():
            if c.matches(r"bool>::then$|bool::then$|<impl bool>::then$"):
                subj = dr.origins(c.args[0])
                if any(any(e.endswith(":" + notify_name) for e in r.get("proj", [])) for r in subj):
                    if any(r["k"] == "agg" and r["stmt"]["rv"].get("def") == f.id for r in dr.origins(c.args[1])):
                        okgate = True
        if f.id == dr.id:
            # inline form: aggregate dominated by true edge of a switch on notify_on_cancel
            for ssite, sw in dr.switches():
                roots = flag_roots(dr, sw["discr"])
                if any(any(e.endswith(":" + notify_name) for e in r.get("proj", [])) for r in roots):
                    te = flag_edge_for_value(dr, ssite, other_bool(notify_init))
                    # exactly when the flag is set: the event exists only behind that edge, and every path from it builds the event
                    # (a further condition in between -- `notify && status < Stopping` -- loses cancellations)
                    okgate = okgate or bool(te and dr.edge_dominates(te, site) and all_paths_from_edge_pass(dr, te, [site]))
        run.check(okgate, "drop|gated", "the cancellation event exists only when notify_on_cancel is set", "the cancellation event is not gated by notify_on_cancel (a failed start would notify)", dr.where())
    # notify_on_cancel writers: constructor (false) and mark_running (true)
    g = m.guard_adt()
    for f in db.crate_fns("ractor"):
        for site, s in f.stmts():
            if s["k"] == "assign" and any(e.endswith(":" + notify_name) for e in s["lhs"][1]):
                v = f.value_consts(s["rv"]["op"]) if s["rv"]["k"] == "use" else []
                run.check(f.id.endswith("::mark_running") and v == [other_bool(notify_init)], "notify_on_cancel-writer:%s" % f.id, "%s switches the cancellation flag on (the opposite of the constructor's value)" % f.id, "%s writes the cancellation flag = %s (constructor: %s)" % (f.id, v, notify_init), f.where(s.get("l")))
        for site, s in f.aggregates(adt=g):
            rv = s["rv"]
            vals = dict(zip(rv["fields"], [f.value_consts(o) for o in rv["ops"]]))
            run.check(vals.get(notify_name) == [notify_init] and vals.get(armed_name) == [armed_init], "guard-init:%s" % f.id, "guard starts armed and silent (constant flags %s / %s in every constructor)" % (armed_init, notify_init), "guard initial flags %s" % vals, f.where(s.get("l")))


def r7(run, db):
    m = model(db)
    for rt in m.runtimes():
        sb = m.start_body(rt)
        allmr = [c for c in db.calls_of("mark_running") if rt == "S" and "thread_local" not in c.fn.id or rt == "T" and "thread_local" in c.fn.id]
        mr = [c for c in allmr if c.fn.id == sb.id]
        run.check(len(mr) == 1 and len(allmr) == 1, "%s|mark_running-site" % rt, "mark_running is called once, in the body that races pre_start", "mark_running is called at %s" % [c.where() for c in allmr], sb.where())
        if not mr:
            continue
        c = mr[0]
        csite_sb = c.site
        # the guard is armed before the task that will own it exists: a task cancelled before its first poll (abort right
        # after spawn, runtime shutdown) drops the guard unpolled, and only an armed guard reports that to the supervisor
        blk_ = m.spawn_block(rt)
        cs_ = [(par, site) for par, site, _st in creation_sites(db, blk_) if par.id == sb.id]
        run.check(bool(cs_) and all(sb.dominates(c.site, site) for par, site in cs_), "%s|mark_running-before-loop-task" % rt,
                  "mark_running dominates the creation of the loop task (the lifecycle guard enters the task already armed)",
                  "the loop task is created before mark_running (or mark_running runs inside it): a task cancelled before its first poll drops an unarmed guard, the child is unlinked and Stopped but its living supervisor never gets the terminal event", c.where())
        ps = m.sink_calls_for(rt + ".pre_start")
        aw = await_of_call(sb, ps[0]) if ps else []
        e = nested_variant_edge(sb, aw[0].poll, ["Ready", "Ok", "Ok", "Ok"]) if aw else None
        run.check(e is not None and sb.edge_dominates(e, csite_sb), "%s|mark_running-after-pre_start-ok" % rt, "mark_running is dominated by the Ok(Ok(Ok)) edge of the pre_start race (a failed start emits nothing)",
                  "mark_running can happen although pre_start has not succeeded: a failed/cancelled start would emit a terminal event", c.where())
        if rt == "S":
            links = [x for x in sb.calls() if x.is_("ActorCell::try_link")]
            te = true_edge(sb, links[0]) if links else None
            # the link is optional (supervisor: Option); require: no path from the refused edge reaches mark_running
            fe = implied_edges(sb, links[0])[1] if links else None
            run.check(fe is not None and csite_sb not in edge_path_sites(sb, [fe]) and links and not sb.reaches_after(csite_sb, links[0].site) and sb.reaches_after(links[0].site, csite_sb), "S|mark_running-after-link",
                      "mark_running comes after the (optional) link and is unreachable from a refused link", "the guard is armed for notification before the supervisor link is attempted: a refused link (supervisor shutting down) makes the failed spawn emit a terminal event", c.where())
        # ActorStarted
        lb = m.loop_body(rt)
        st = [(site, s) for site, s in lb.aggregates(adt="SupervisionEvent", variant="ActorStarted")]
        run.check(len(st) == 1 and not lb.in_cycle(st[0][0]), "%s|ActorStarted-once" % rt, "ActorStarted is built once, outside any cycle", "ActorStarted sites: %d" % len(st), lb.where())
        if st:
            site = st[0][0]
            pcs = m.sink_calls_for(rt + ".post_start")
            aw2 = await_of_call(lb, pcs[0]) if pcs else []
            if aw2:
                ok_edge = nested_variant_edge(lb, aw2[0].poll, ["Ready", "Ok"])
                brs = try_branches_on(lb, aw2[0].poll)
                running = [x for x, v in set_status_calls(lb) if v == "Running"]
                good = ok_edge and lb.edge_dominates(ok_edge, site) and result_layers_checked(brs, (2, 3)) and all(b["cont_edge"] and lb.edge_dominates(b["cont_edge"], site) for b in brs)
                run.check(good, "%s|ActorStarted-after-post_start-ok" % rt, "ActorStarted is dominated by post_start's Ok edges", "ActorStarted can be sent although post_start failed", lb.where())
                run.check(bool(running) and lb.dominates(running[0].site, site), "%s|ActorStarted-after-Running" % rt, "ActorStarted is sent after set_status(Running)", None, lb.where())
                if running:
                    run.check(lb.must_pass(running[0].site, [site]), "%s|ActorStarted-unconditional" % rt,
                              "once post_start succeeded and Running was published, ActorStarted is sent on every path (it does not depend on what the status was before)",
                              "ActorStarted can be skipped after a successful post_start (a path from set_status(Running) to the message loop avoids it, e.g. a test of the previous status): an actor drained while it was starting up comes up, works off its mailbox and terminates -- its supervisor gets the terminal event without ever having seen ActorStarted", lb.where())


def r8(run, db):
    # who writes a supervision port
    allowed = {
        "ractor::actor::supervision::SupervisionTree::notify_supervisor": "tree",
        "ractor::pg::notify_world_listeners": "pg", "ractor::pg::join_scoped": "pg", "ractor::pg::leave_scoped": "pg", "ractor::pg::leave_all": "pg",
        "ractor::registry::pid_registry::register_pid": "pid", "ractor::registry::pid_registry::unregister_pid": "pid",
    }
    n = 0
    for c in db.calls_of("ActorCell::send_supervisor_evt"):
        f = c.fn
        root = db.root_of(f)
        n += 1
        cls = allowed.get(root.id) or ("pg" if root.id.startswith("ractor::pg::") else None)
        run.check(cls is not None, "sup-port-writer:%s" % root.id, "%s writes a supervision port as %s" % (root.id, cls), "unexpected writer of a supervision port: %s" % f.id, c.where())
        pay = [r for r in f.origins(c.args[1])]
        if cls == "pg":
            okp = all(r["k"] == "agg" and r["stmt"]["rv"].get("variant") == "ProcessGroupChanged" for r in pay) and pay
            run.check(okp, "pg-payload:%s" % f.id, "pg sends ProcessGroupChanged only", "pg sends %s" % [r["k"] for r in pay], c.where())
        elif cls == "pid":
            okp = all(r["k"] == "agg" and r["stmt"]["rv"].get("variant") == "PidLifecycleEvent" for r in pay) and pay
            run.check(okp, "pid-payload:%s" % f.id, "pid registry sends PidLifecycleEvent only", "pid registry sends %s" % [r["k"] for r in pay], c.where())
        elif cls == "tree":
            # receiver originates from the tree's own supervisor / monitors fields
            thr = lambda cc: 0 if cc.matches(r"Clone>::clone$|Deref>::deref$|Result::<T, E>::unwrap$|Mutex::<T>::lock$|Iterator>::next$|IntoIterator>::into_iter$|Iterator::cloned$|Iterator::collect$|Values|slice::<impl \[T\]>::iter$|Deref::deref$|Option::<T>::as_ref$|HashMap::<K, V, S, A>::values$") else None
            # a crate-local getter (`self.try_get_supervisor()`) stands for the fields of its receiver its result is read from
            getters = {}
            def getter(cc, base=thr):
                g = db.fns.get(cc.resolved or "") or db.fns.get(cc.callee or "")
                if g is None or g.crate != f.crate or g.kind not in ("fn", "method") or g.arg_count < 1:
                    return None
                gr = g.origins([0, []], through=base)
                gr = [r for r in gr if not (r["k"] == "agg" and r["stmt"]["rv"].get("variant") == "None")]
                if gr and all(r["k"] == "arg" and r["local"] == 1 for r in gr):
                    nm = set()
                    for r in gr:
                        for e in r.get("proj", []) + r.get("trail", []):
                            if e.startswith("f:") and len(e.split(":")) > 2:
                                nm.add(e.split(":")[2])
                    getters[cc.bb] = nm
                    return 0
                return None
            thr2 = lambda cc: thr(cc) if thr(cc) is not None else getter(cc)
            rr = f.origins(c.args[0], through=thr2)
            names = set()
            for nm in getters.values():
                names |= nm
            for r in rr:
                for e in r.get("proj", []) + r.get("trail", []):
                    if e.startswith("f:") and len(e.split(":")) > 2:
                        names.add(e.split(":")[2])
            rr = [r for r in rr if not (r["k"] == "call" and r["call"].matches(r"Vec::<T>::new$"))]
            run.check(bool(names & {"supervisor", "monitors"}) and all(r["k"] in ("arg", "upvar") for r in rr), "tree-target:%s" % ("monitors" if "monitors" in names else "supervisor"),
                      "notification target originates from this tree's own %s field" % sorted(names & {"supervisor", "monitors"}), "notification target does not originate from the tree's supervisor/monitors fields: %s" % sorted(names), c.where())
    run.anchor("supervision port writers", n, 5)
    for c in db.calls_of("ActorProperties::send_supervisor_evt"):
        run.check(c.fn.id.endswith("ActorCell::send_supervisor_evt"), "props-writer:%s" % c.fn.id, "only ActorCell::send_supervisor_evt forwards to the port", "unexpected direct port writer %s" % c.fn.id, c.where())


def r9(run, db):
    c05.r5(run, db)
    c05.r1(run, db)


def r10(run, db):
    c03.r4(run, db)


Q = ["dflt", "rc"]
TH = ["dflt", "rc", "atr", "astd", "mon"]
RULES = [{"id": "C04.R%d" % i, "fn": f, "quick": Q, "thorough": TH} for i, f in enumerate([r1, r2, r3, r4, r5, r6, r7, r8, r9, r10], 1)]
from .positive import control
RULES.append({"id": "C04.P", "fn": control('k14'), "quick": ["pos"], "thorough": ["pos"]})
DOC["C04.P"] = 'positive control: planted tokio::spawn(actor.handle(..)) must be reported by the future-flow analysis as uncontained'

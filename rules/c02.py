"""C02 -- Mailbox delivers accepted messages once, in order (structural clauses)."""
import re
from .model import *
from .facts import Site, op_place, Call, proj_field_name
from . import c07

EXPLANATION = ("decides necessary structural conditions only: one FIFO channel per actor with exactly three producer bodies (typed send, serialized send, "
               "drain-marker emitter) and one consumer (the priority listen; Drop only closes/flushes); at most one enqueue per send, not in a cycle; every "
               "refused send returns the *original* message (value-origin slice) and an accepted one does not; status gate -> admission ticket -> enqueue "
               "with the ticket alive across the enqueue; the runtime type check dominates delegation to the unchecked send, which has a single caller; "
               "Message adds no Clone bound and the send consumes the message (enqueue XOR hand-back). NOT decided: what concurrent senders observe "
               "relative to a racing status change (needs schedules); tokio's mpsc being FIFO and lossless is trusted.")
TRUSTED = ["tokio::sync::mpsc unbounded channel is FIFO per channel and lossless while the receiver is open", "rustc move semantics"]
ASSUMPTIONS = ["handler order = queue order relies on C01 (one handler at a time) and on the single consumer shown here"]

DOC = {
 "C02.R1": "who-may: user-message sender methods are called only by the typed send, the serialized send and the marker emitter; receiver methods only by the priority listen and ActorPortSet::drop; a select arm that wraps a port receive in a future of its own does not suspend again after the receive completed (cancel safety of the priority select)",
 "C02.R2": "hand-back: every SendErr built in the send bodies / their error closures carries the message parameter or the payload of the channel's SendError (through from_boxed / serialized_msg)",
 "C02.R3": "the enqueue is unique per send body, not in a cycle, and the Ok(()) return is reachable only through it",
 "C02.R4": "= C07.R5: status gate < admission < enqueue, ticket alive across the enqueue",
 "C02.R5": "the TypeId comparison guards delegation in the checked entry (local ids); for non-local ids the cluster box_message boxes in-process only on the is_local() edge (anything else is serialized or refused); the unchecked send has exactly one caller (that entry); public send paths reach the channel through it",
 "C02.R7": "= C07.R3 + C07.R8 (a cell drained while it starts up still starts -- start gate and link() admit Draining -- so the messages accepted before the drain are handled, not dropped with an abandoned mailbox): `Ok => handled unless the actor exits first` needs the admission CAS to re-test the closed bit on every retry (no admission after the drain marker)",
 "C02.R8": "= C19.R5 (cluster builds): serialized payloads are decoded under catch_unwind in both runtimes and an undecodable one is dropped, never propagated into the actor",
 "C02.R6": "the message is taken by value and `Message` has no Clone supertrait: a send either enqueues the value or hands it back",
}


def r1(run, db):
    adm = c07.Adm(run, db)
    sp = {f.id for f in c07.send_paths(db, adm)} | {f.id for f in adm.emitters}
    m = model(db)
    listens = set(x.id for f, cor, s in m.listen_fns() for x in db.family(f.id))
    ns = nr = 0
    for c in db.all_calls():
        if not c.callee:
            continue
        ga = " ".join(c.gargs)
        if "MuxedMessage" not in ga:
            continue
        if "UnboundedSender" in c.callee:
            meth = c.callee.split("::")[-1]
            if meth in ("clone", "is_closed", "same_channel", "closed", "downgrade", "strong_count", "weak_count"):
                continue
            ns += 1
            run.saw(1, c.fn)
            run.check(c.fn.id in sp, "producer:%s" % c.fn.id, "%s is one of the mailbox's producer bodies (%s)" % (c.fn.id, meth), "%s calls %s on a mailbox sender: a fourth producer bypasses the status gate / admission protocol" % (c.fn.id, meth), c.where())
        if "UnboundedReceiver" in c.callee:
            meth = c.callee.split("::")[-1]
            nr += 1
            okc = c.fn.id in listens or (c.fn.raw.get("impl_trait", "").endswith("ops::Drop") and "ActorPortSet" in (c.fn.raw.get("impl_self") or "") and meth in ("close", "try_recv"))
            run.check(okc, "consumer:%s:%s" % (c.fn.id, meth), "%s uses %s on the mailbox receiver (listen / Drop flush)" % (c.fn.id, meth), "%s consumes from the mailbox receiver (%s): a second consumer breaks handler order" % (c.fn.id, meth), c.where())
    # cancel safety of the priority select: an arm that wraps the port's recv() in a future of its own must not suspend again
    # after the receive completed -- the select drops the losing arms' futures, and a message already taken out of the port by
    # a dropped arm is lost (and later ones overtake it)
    top = set(cor.id for f, cor, s in m.listen_fns() if cor is not None)
    for c in db.all_calls():
        if not c.callee or "Receiver" not in c.callee or not re.search(r"::recv$", c.callee):
            continue
        w = c.fn
        if w.id not in listens or w.kind != "coroutine" or w.id in top:
            continue
        for a in await_of_call(w, c):
            later = [y for y, _t in w.yields() if a.ready_edge and y in w.reach(Site(a.ready_edge[1], 0))]
            run.check(not later, "arm-cancel-safe:%s" % w.id.split("::")[-2], "after its receive completed the select arm %s returns without suspending again" % w.id,
                      "the select arm %s suspends again after it has taken a message out of the port: if another arm wins meanwhile the arm is dropped and the message is lost" % w.id, c.where())
    run.anchor("mailbox sender call sites", ns, 3 if db.tag in ("rc", "clus", "rcatr", "ws") else 2)
    run.anchor("mailbox receiver call sites", nr, 3)
    # the sender field is not handed out: no body outside ActorProperties reads the `message` sender field
    props = db.adt("ractor::actor::actor_properties::ActorProperties")
    sf = [f["name"] for f in props["variants"][0]["fields"] if "MuxedMessage" in f["ty"]]
    run.anchor("mailbox sender field", len(sf), 1)
    for f in db.crate_fns("ractor"):
        for site, s in f.stmts():
            if s["k"] == "assign" and s["rv"]["k"] in ("ref", "use"):
                p = s["rv"].get("p") or op_place(s["rv"].get("op", {}))
                if p and sf and sf[0] in [proj_field_name(e) for e in p[1] if e.startswith("f:")]:
                    base_ty = f.local_ty(p[0])
                    if "ActorProperties" in base_ty:
                        run.check(f.id in sp or "ActorProperties" in f.id, "sender-field-access:%s" % f.id, "%s reads the sender field inside ActorProperties" % f.id, "%s reaches into the mailbox sender field" % f.id, f.where(s.get("l")))


def r2(run, db):
    adm = c07.Adm(run, db)
    n = 0
    for f in c07.send_paths(db, adm):
        for g in db.family(f.id):
            for site, s in g.aggregates(adt="MessagingErr", variant="SendErr"):
                n += 1
                run.saw(1, g)
                thr = lambda cc: 0 if cc.matches(r"Message::from_boxed$|Result::<T, E>::unwrap$|Option::<T>::unwrap$|Result::<T, E>::expect$") else None
                roots = g.origins(s["rv"]["ops"][0], through=thr)
                if g.id == f.id:
                    # the caller's message, or -- the channel refusal written out in the body -- what the channel's own
                    # send() handed back in its Err
                    from_chan = lambda r: r["k"] == "call" and r["call"].matches(r"UnboundedSender::<T>::send$") and any(e.startswith("d:1") for e in r.get("proj", []))
                    good = roots and all((r["k"] == "arg" and r["local"] == 2) or from_chan(r) for r in roots)
                    what = "the message parameter" if not any(from_chan(r) for r in roots) else "the payload of the channel's SendError"
                else:
                    # error-mapping closure: parameter 2 is the channel's SendError<MuxedMessage>
                    good = roots and all(r["k"] == "arg" and r["local"] == 2 for r in roots) and "SendError" in g.local_ty(2)
                    what = "the payload of the channel's SendError"
                run.check(bool(good), "handback:%s" % g.id, "SendErr built in %s carries %s" % (g.id, what), "SendErr built in %s does not carry the original message (%s)" % (g.id, [r["k"] for r in roots]), g.where(s.get("l")))
    run.anchor("SendErr constructions in send paths", n, 2)      # structural minimum: one refusal in the body, one in the channel-error mapping
    # From<SendError<T>> for MessagingErr<T> forwards .0
    for f in db.crate_fns("ractor"):
        if f.raw.get("impl_trait", "").endswith("convert::From") and "MessagingErr" in (f.raw.get("impl_self") or "") and "SendError" in " ".join(f.raw.get("inputs", [])):
            ags = f.aggregates(adt="MessagingErr", variant="SendErr")
            good = ags and all(any(r["k"] == "arg" and r["local"] == 1 for r in f.origins(s["rv"]["ops"][0])) for _, s in ags)
            run.check(bool(good), "from-senderror:%s" % f.id, "From<SendError<T>> forwards the undelivered value", "From<SendError<T>> drops the undelivered value", f.where())


def r3(run, db):
    adm = c07.Adm(run, db)
    for f in c07.send_paths(db, adm):
        key = f.id.split("::")[-1]
        run.saw(len(f.blocks), f)
        enq = [c for c in f.calls() if c.matches(r"UnboundedSender::<T>::send$")]
        run.check(len(enq) == 1 and not f.in_cycle(enq[0].site), key + "|enqueue-once", "exactly one enqueue site, not in a cycle", "%d enqueue sites / in cycle" % len(enq), f.where())
        if not enq:
            continue
        q = enq[0]
        # the returned value on the success path originates from the enqueue's result; any other Ok(()) construction must be dominated by the enqueue
        oks = [site for site, s in f.aggregates(adt="std::result::Result", variant="Ok")]
        run.check(all(f.dominates(q.site, s) for s in oks), key + "|ok-only-after-enqueue", "every Ok(..) built in the body is dominated by the enqueue (%d sites)" % len(oks), "an Ok(()) can be returned without enqueueing", f.where())
        thr = lambda cc: 0 if cc.matches(r"Result::<T, E>::map_err$|ops::Try>::branch$") else None
        ret = f.origins([0, []], through=thr)
        more = []
        for r in ret:
            if r["k"] == "agg" and r["stmt"]["rv"].get("variant") == "Ok" and r["stmt"]["rv"]["ops"]:
                more.extend(f.origins(r["stmt"]["rv"]["ops"][0], through=thr))
        okret = any(r["k"] == "call" and r["call"].bb == q.bb for r in ret + more)
        run.check(okret, key + "|result-from-enqueue", "the function's result on the accept path is the channel send's own result (mapped)", "the accept path's result does not come from the channel send", f.where())
        # a value that was enqueued is not also handed back: SendErr(param) sites are not reachable after the enqueue
        for site, s in f.aggregates(adt="MessagingErr", variant="SendErr"):
            thr2 = lambda cc: 0 if cc.matches(r"Message::from_boxed$|Result::<T, E>::unwrap$|Option::<T>::unwrap$|Result::<T, E>::expect$") else None
            rts = f.origins(s["rv"]["ops"][0], through=thr2)
            if rts and all(r["k"] == "call" and r["call"].bb == q.bb and any(e.startswith("d:1") for e in r.get("proj", [])) for r in rts):
                run.ok(key + "|handback-of-channel-refusal", "the SendErr built after the enqueue call carries what the channel itself refused (its Err payload): not enqueued", f.where(s.get("l")))
                continue
            run.check(not f.reaches_after(q.site, site), key + "|no-handback-after-enqueue", "no SendErr(message) is built after the enqueue", "a message can be enqueued and also handed back", f.where(s.get("l")))


def r4(run, db):
    c07.r5(run, db)


def r5(run, db):
    chk = [f for f in db.crate_fns("ractor") if f.id.endswith("ActorProperties::send_message")]
    unc = [f for f in db.crate_fns("ractor") if f.id.endswith("ActorProperties::send_message_unchecked")]
    adm = c07.Adm(run, db)
    sp = c07.send_paths(db, adm)
    typed = [f for f in sp if "TMessage" in " ".join(f.raw.get("inputs", [])) or f.raw.get("inputs", ["", ""])[1:2] == ["TMessage"]]
    typed = typed or unc
    run.anchor("typed send body", len(typed), 1)
    u = typed[0]
    callers = db.calls_of(u.id)
    run.check(len(callers) == 1, "unchecked-single-caller", "the unchecked typed send has exactly one caller: %s" % [c.fn.id for c in callers],
              "the unchecked typed send is called from %s: a path skips the runtime type check (a wrongly typed ActorRef would enqueue a foreign message and kill the actor)" % [c.fn.id for c in callers])
    for c in callers:
        f = c.fn
        run.saw(len(f.blocks), f)
        tests = [x for x in f.calls() if x.matches(r"PartialEq>::(ne|eq)$|PartialEq::(ne|eq)$") and "TypeId" in (x.self_ty or "")]
        run.check(len(tests) == 1, "typeid-test:%s" % f.id, "%s compares TypeIds" % f.id, "%s delegates to the unchecked send without comparing TypeIds" % f.id, c.where())
        if not tests:
            continue
        t = tests[0]
        srcs = []
        for a in t.args:
            for r in f.origins(a):
                if r["k"] == "call":
                    srcs.append(r["call"].name.split("::")[-1])
                else:
                    srcs.extend(proj_field_name(e) for e in r.get("proj", []) if e.startswith("f:"))
        run.check("type_id" in srcs and "of" in srcs, "typeid-operands", "the comparison is between the cell's stored type_id and TypeId::of::<TMessage>()", "TypeId comparison operands: %s" % srcs, t.where())
        mism = true_edge(f, t) if t.matches(r"::ne$") else false_edge(f, t)
        run.check(mism is not None and c.site not in edge_path_sites(f, [mism]), "mismatch-does-not-delegate", "the mismatch edge cannot reach the delegation", "a type mismatch still reaches the unchecked send", c.where())
        errs = [site for site, s in f.aggregates(adt="MessagingErr", variant="InvalidActorType")]
        run.check(mism is not None and any(f.edge_dominates(mism, e) for e in errs), "mismatch->InvalidActorType", "a mismatch returns InvalidActorType", None, f.where())
        loc = [x for x in f.calls() if x.is_("ActorId::is_local")]
        run.check(len(loc) == 1, "local-only", "the check applies to local actors (remote proxies take serialized payloads)", None, f.where())
    # the other half of `local-only`: for a non-local id the checked entry skips the TypeId test and relies on boxing to refuse a
    # message that is not serialized -- so the default box_message may box in-process only for a local id
    for bm in [f for f in db.crate_fns("ractor") if re.search(r"message::Message::box_message$", f.id)]:
        if not [x for x in bm.calls() if x.is_("Message::serializable") or x.matches(r"Message::serializable$")]:
            continue        # build without remote actors: one unconditional in-process boxing
        run.saw(len(bm.blocks), bm)
        boxes = [x for x in bm.calls() if x.matches(r"boxed::Box::<T>::new$")]
        loc = [x for x in bm.calls() if x.is_("ActorId::is_local")]
        run.anchor("in-process boxing in the cluster box_message", len(boxes), 1, bm.where())
        for b in boxes:
            good = any(true_edge(bm, l) and (bm.edge_dominates(true_edge(bm, l), b.site) or edge_guards(bm, true_edge(bm, l), b.site)) for l in loc)
            run.check(good, "inprocess-boxing-only-for-local-id", "box_message boxes the value in-process only on the true edge of pid.is_local()",
                      "box_message boxes a non-serializable message in-process also for a non-local id: the checked entry skips the TypeId test for such ids, so a wrongly typed send to a remote proxy returns Ok, the foreign value lands in its mailbox, the proxy fails on it and every message queued behind it is lost", b.where())
    # public paths go through the checked entry
    if chk:
        n = 0
        for c in db.calls_of("ActorCell::send_message"):
            n += 1
        run.anchor("callers of ActorCell::send_message (ActorRef, rpc, timers)", n, 5)
        cc = [c for c in db.calls_of(chk[0].id)]
        run.check(all(c.fn.id.endswith("ActorCell::send_message") for c in cc) and cc, "checked-entry-callers", "ActorProperties::send_message is reached only via ActorCell::send_message", "unexpected callers %s" % [c.fn.id for c in cc])


def r7(run, db):
    c07.r3(run, db)
    c07.r8(run, db)


def r6(run, db):
    tr = db.traits.get("ractor::message::Message")
    run.check(tr is not None, "Message-trait", "Message trait found", "Message trait not found")
    adm = c07.Adm(run, db)
    for f in c07.send_paths(db, adm):
        ins = f.raw.get("inputs", [])
        run.check(len(ins) == 2 and not ins[1].startswith("&"), "by-value:%s" % f.id, "%s takes the message by value (%s)" % (f.id, ins[1] if len(ins) > 1 else "?"), "message not taken by value", f.where())
        # no clone of the message parameter inside the send path
        cl = [c for c in f.calls() if c.matches(r"Clone>::clone$|Clone::clone$") and any(r["k"] == "arg" and r["local"] == 2 for r in f.origins(c.args[0]))]
        run.check(not cl, "no-clone:%s" % f.id, "the message is never cloned in the send path", "the message is cloned in the send path", f.where())
    for a in ("ractor::message::BoxedMessage", "ractor::actor::actor_properties::MuxedMessage"):
        if db.adt(a):
            run.check(not db.has_impl(a, "std::clone::Clone") and not db.has_impl(a, "core::clone::Clone"), "no-clone-adt:" + a, "%s is not Clone" % a, "%s is Clone: a queued message could be duplicated" % a)


def r8(run, db):
    """= C19.R5: `a send with the wrong message type is rejected without disturbing the actor` for serialized payloads: both
    runtimes decode under catch_unwind and drop what does not decode (no `?` on the decode result)"""
    if db.tag not in ("rc", "clus", "rcatr", "ws"):
        run.ok("cluster-only", "serialized payloads exist only in cluster builds (analysed under tag rc)")
        return
    from . import c19
    c19.r5(run, db)


Q = ["dflt", "rc"]
TH = ["dflt", "rc", "atr", "astd", "ws"]
RULES = [{"id": "C02.R%d" % i, "fn": f, "quick": Q, "thorough": TH} for i, f in enumerate([r1, r2, r3, r4, r5, r6, r7, r8], 1)]
from .etype import witness_rule
RULES.append({"id": "C02.W", "fn": witness_rule(['W3TypedSend', 'W7SendConsumes']), "quick": [], "thorough": [], "no_db": True})
DOC["C02.W"] = 'E-TYPE witnesses W3 (typed send rejects a foreign message type, E0308) and W7 (the send consumes the message, E0382), each with a compiling twin'

"""Resolve *private* field names by their (unique) declared type, so that renaming an internal field is invisible to the rules.
Public API names (pub fields / functions) are used directly.  Losing uniqueness raises AnchorLost (fail closed)."""
import re
from .engine import AnchorLost

_cache = {}


def adt_like(db, suffix):
    c = [a for k, a in db.adts.items() if k.endswith("::" + suffix)]
    if len(c) != 1:
        raise AnchorLost("ADT %s (%d candidates)" % (suffix, len(c)))
    return c[0]


def by_type(db, adt_suffix, ty_rx, what):
    a = adt_like(db, adt_suffix)
    fs = [f["name"] for f in a["variants"][0]["fields"] if re.search(ty_rx, f["ty"])]
    if len(fs) != 1:
        raise AnchorLost("%s: field of %s with type /%s/ is not unique: %s" % (what, adt_suffix, ty_rx, fs))
    return fs[0]


class Fields:
    def __init__(self, db):
        self.db = db
        self._memo = {}
    def _get(self, key, fn):
        if key not in self._memo:
            self._memo[key] = fn()
        return self._memo[key]
    # worker properties
    @property
    def wp_inflight(self):
        return self._get("wp_inflight", lambda: by_type(self.db, "WorkerProperties", r"^std::collections::HashMap<TKey, ractor::factory::job::JobOptions>", "in-flight map"))
    @property
    def wp_queue(self):
        return self._get("wp_queue", lambda: by_type(self.db, "WorkerProperties", r"^std::collections::VecDeque<ractor::factory::job::Job<", "worker queue"))
    @property
    def wp_pending(self):
        return self._get("wp_pending", lambda: by_type(self.db, "WorkerProperties", r"^std::collections::HashMap<TKey, usize>", "pending-key table"))
    @property
    def wp_draining(self):
        return self._get("wp_draining", lambda: by_type(self.db, "WorkerProperties", r"^bool$", "worker draining flag"))
    # factory state
    @property
    def fs_drain_state(self):
        return self._get("fs_drain_state", lambda: by_type(self.db, "FactoryState", r"::DrainState$", "factory drain state"))
    @property
    def fs_pool_size(self):
        return self._get("fs_pool_size", lambda: by_type(self.db, "FactoryState", r"^usize$", "factory pool size"))
    @property
    def fs_pool(self):
        return self._get("fs_pool", lambda: by_type(self.db, "FactoryState", r"^std::collections::HashMap<usize, ractor::factory::worker::WorkerProperties<", "factory worker pool"))
    @property
    def fs_by_actor(self):
        return self._get("fs_by_actor", lambda: by_type(self.db, "FactoryState", r"^std::collections::HashMap<ractor::actor::actor_id::ActorId, usize>", "factory actor->worker index"))
    @property
    def lb_deadline(self):
        return self._get("lb_deadline", lambda: by_type(self.db, "LeakyBucketRateLimiter", r"^std::option::Option<.*Instant>$", "limiter deadline"))
    # cluster
    @property
    def ra_tag(self):
        return self._get("ra_tag", lambda: by_type(self.db, "RemoteActorState", r"^u64$", "proxy tag counter"))
    @property
    def nss_auth(self):
        return self._get("nss_auth", lambda: by_type(self.db, "NodeSessionState", r"::AuthenticationState$", "session auth state"))
    @property
    def nss_advertised(self):
        return self._get("nss_advertised", lambda: by_type(self.db, "NodeSessionState", r"^std::collections::HashSet<u64>", "advertised pid set"))
    @property
    def nss_proxies(self):
        return self._get("nss_proxies", lambda: by_type(self.db, "NodeSessionState", r"^std::collections::HashMap<u64, ractor::ActorRef<", "proxy map"))
    @property
    def nsv_authenticated(self):
        return self._get("nsv_authenticated", lambda: by_type(self.db, "NodeServerState", r"^std::collections::HashSet<ractor::ActorId>", "authenticated session set"))
    @property
    def se_survives(self):
        return self._get("se_survives", lambda: by_type(self.db, "SessionElection", r"^bool$", "election survives flag"))
    @property
    def se_losers(self):
        return self._get("se_losers", lambda: by_type(self.db, "SessionElection", r"^std::vec::Vec<ractor::ActorRef<", "election losers"))
    @property
    def rr_cursor(self):
        return self._get("rr_cursor", lambda: by_type(self.db, "RoundRobinRouting", r"^usize$", "round-robin cursor"))


def fields(db):
    f = _cache.get(id(db))
    if f is None:
        f = Fields(db)
        _cache[id(db)] = f
    return f

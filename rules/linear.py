"""K11 -- linear resource analysis on MIR: every owned value of an affine type must, on every path, reach
exactly one allowed sink, or be dropped in place only after a release idiom."""
import re
from .facts import op_place, Call, Site


class LinearReport:
    def __init__(self):
        self.locals = 0
        self.moves = []        # (fn, site, local, kind, target)
        self.drops = []        # (fn, site, local, released: bool, why)
        self.bad = []          # (key, detail, where)


def owned_locals(fn, ty_rx):
    return [i for i, l in enumerate(fn.locals) if re.match(ty_rx, l["ty"])]


def analyse(db, fn, ty_rx, sink_rx, release_pred, container_ok=None, rep=None, by_ref_ok=None):
    """ty_rx: regex matching the *owned* type string (anchored);
    sink_rx: regex of callee names that may take the value by move;
    release_pred(fn, local, drop_site) -> (bool, why): is an in-place drop at drop_site preceded by the release idiom;
    container_ok(rv) -> bool: aggregates the value may be moved into (returned / forwarded containers)."""
    rep = rep or LinearReport()
    for l in owned_locals(fn, ty_rx):
        defs = [d for d in fn.defs().get(l, []) if d[1] in ("assign", "call", "resume")]
        if not defs and not (1 <= l <= fn.arg_count):
            continue
        rep.locals += 1
        for site, kind, payload, o in fn.uses(l):
            if o is not None and o.get("k") == "move" and not o["p"][1]:
                if kind == "stmt":
                    rv = payload["rv"]
                    if rv["k"] == "use":
                        rep.moves.append((fn, site, l, "move", "_%d" % payload["lhs"][0]))
                    elif rv["k"] == "agg":
                        nm = (rv.get("adt") or rv.get("kind") or "") + ("::" + rv["variant"] if rv.get("variant") else "")
                        if container_ok is None or container_ok(rv):
                            rep.moves.append((fn, site, l, "container", nm))
                        else:
                            rep.bad.append(("into-container:%s:%s" % (fn.id, nm), "an owned value (local _%d) is moved into %s, which is not an allowed carrier" % (l, nm), fn.where(payload.get("l"))))
                    else:
                        rep.moves.append((fn, site, l, "other", rv["k"]))
                elif kind.startswith("arg"):
                    c = Call(fn, site.bb, payload)
                    if re.search(sink_rx, c.callee or "") or (c.resolved and re.search(sink_rx, c.resolved)):
                        rep.moves.append((fn, site, l, "sink", c.name))
                    else:
                        rep.bad.append(("unknown-sink:%s:%s" % (fn.id, c.name), "an owned value (local _%d) is moved into %s, which is not a listed fate of the resource" % (l, c.name), c.where()))
            elif kind == "drop" and not payload["p"][1]:
                if not fn.maybe_init_at(l, site):
                    continue      # drop of a moved-out local: a no-op that drop elaboration removes
                ok, why = release_pred(fn, l, site)
                rep.drops.append((fn, site, l, ok, why))
                if not ok:
                    rep.bad.append(("silent-drop:%s:_%s" % (fn.id, fn.local_name(l) or l), "an owned value (local _%d `%s`) can be dropped in place without the release idiom: %s" % (l, fn.local_name(l), why), fn.where(payload.get("l"))))
    return rep

"""K10 -- lock discipline: acquisitions, guard liveness, held regions, lock-order graph."""
import re
from .facts import op_place, Call, Site, proj_field_name

ACQ_RX = re.compile(r"(^|::)(std::sync::Mutex::<T>::lock|std::sync::RwLock::<T>::(read|write)|"
                    r"std::sync::Mutex::<T>::try_lock|tokio::sync::Mutex::<T>::(lock|blocking_lock|try_lock)|"
                    r"tokio::sync::RwLock::<T>::(read|write))$")
DASH_RX = re.compile(r"^dashmap::DashMap::<K, V, S>::(\w+)$|^dashmap::DashSet::<K, S>::(\w+)$")
DASH_GUARDED = {"entry", "get", "get_mut", "iter", "iter_mut", "try_entry", "try_get", "try_get_mut"}
DASH_TRANSIENT = {"insert", "remove", "remove_if", "contains_key", "len", "is_empty", "retain", "alter", "clear", "view", "remove_if_mut", "alter_all"}
UNWRAP_RX = re.compile(r"Result::<T, E>::(unwrap|expect|unwrap_or_else)$|PoisonError::<T>::into_inner$")
DEREF_THROUGH = lambda c: 0 if c.matches(r"ops::Deref>::deref$|ops::Deref::deref$|ops::DerefMut>::deref_mut$|once_cell::sync::OnceCell::<T>::get_or_init$|once_cell::sync::OnceCell::<T>::get$|Arc<T, A> as std::ops::Deref>::deref$|Option::<T>::as_ref$|AsRef") else None


def lock_identity(fn, op):
    """name the lock an acquisition is applied to: 'static:<path>' or 'field:<a.b.c>'"""
    ids = set()
    for r in fn.origins(op, through=DEREF_THROUGH):
        if r["k"] == "const" and r["op"].get("static"):
            ids.add("static:" + r["op"]["static"])
            continue
        names = [proj_field_name(e) for e in (r.get("trail", []) + r.get("proj", [])) if e.startswith("f:")]
        names = [n for n in names if n]
        if r["k"] == "call":
            c = r["call"]
            ids.add("call:%s%s" % (c.name, ("." + ".".join(names)) if names else ""))
        elif names:
            # order: outermost first (trail holds what was dropped at wrappers, i.e. inner parts)
            ids.add("field:" + ".".join(reversed(names)) if False else "field:" + ".".join(names))
        else:
            ids.add(r["k"])
    return sorted(ids)


class Acq:
    def __init__(self, fn, call, kind, lock_ids):
        self.fn = fn
        self.call = call
        self.kind = kind
        self.lock_ids = lock_ids
        self.guards = set()
        self.held = set()
        self.transient = False
    def __repr__(self):
        return "<acq %s %s @%s>" % (self.kind, self.lock_ids, self.call.where())


def acquisitions(fn):
    out = []
    for c in fn.calls():
        nm = c.callee or ""
        m = ACQ_RX.search(nm)
        d = DASH_RX.match(nm)
        if m:
            a = Acq(fn, c, "mutex", lock_identity(fn, c.args[0]))
        elif d:
            meth = d.group(1) or d.group(2)
            if meth in DASH_GUARDED:
                a = Acq(fn, c, "dashmap:" + meth, lock_identity(fn, c.args[0]))
            elif meth in DASH_TRANSIENT:
                a = Acq(fn, c, "dashmap:" + meth, lock_identity(fn, c.args[0]))
                a.transient = True
            else:
                continue
        else:
            continue
        if a.transient:
            a.held = {c.site}
            out.append(a)
            continue
        # guard locals: dest, then through unwrap-like wrappers and plain moves
        guards = {c.dest[0]}
        work = [c.dest[0]]
        moved_out = {}          # guard local -> sites where its payload was moved into another guard local
        while work:
            l = work.pop()
            for site, kind, payload, o in fn.uses(l):
                if kind == "stmt" and payload["rv"]["k"] == "use" and o.get("k") == "move" and not o["p"][1]:
                    t = payload["lhs"][0]
                    if not payload["lhs"][1] and t not in guards:
                        guards.add(t)
                        work.append(t)
                elif kind == "stmt" and payload["rv"]["k"] == "use" and o.get("k") == "move" and o["p"][1] and all(e.startswith(("d:", "f:")) for e in o["p"][1]) and any(e.startswith("d:") for e in o["p"][1]):
                    # `let Occupied(entry) = map.entry(k) else {..}`: the variant's payload *is* the guard from here on; the
                    # emptied enum value is dropped at the end of the statement without releasing anything
                    t = payload["lhs"][0]
                    if not payload["lhs"][1]:
                        moved_out.setdefault(l, []).append(site)
                        if t not in guards:
                            guards.add(t)
                            work.append(t)
                elif kind.startswith("arg") and o.get("k") == "move":
                    cc = Call(fn, site.bb, payload)
                    if UNWRAP_RX.search(cc.callee or "") or cc.matches(r"dashmap::(mapref::entry::)?Entry::<'a, K, V(, S)?>::(or_default|or_insert|or_insert_with|or_try_insert_with|insert|insert_entry)$|dashmap::(mapref::entry::)?OccupiedEntry::<'a, K, V(, S)?>::into_ref$|dashmap::(mapref::entry::)?VacantEntry::<'a, K, V(, S)?>::(insert|insert_entry)$"):
                        t = payload["dest"][0]
                        if t not in guards:
                            guards.add(t)
                            work.append(t)
        a.guards = guards
        # release sites: drop terminators of a guard local (when maybe initialised), moves of a guard into other calls
        rel = set()
        for g in guards:
            for site, kind, payload, o in fn.uses(g):
                if kind == "drop" and not payload["p"][1]:
                    if any(fn.dominates(ms, site) for ms in moved_out.get(g, [])):
                        continue        # the payload was moved out before: this drop releases nothing
                    rel.add(site)
                elif kind.startswith("arg") and o.get("k") == "move" and not o["p"][1]:
                    cc = Call(fn, site.bb, payload)
                    if payload["dest"][0] not in guards:
                        rel.add(site)   # consumed (mem::drop, VacantEntry::insert, Entry::remove, ...)
        start = Site(c.target, 0) if c.target is not None else None
        a.release = rel
        if start is not None:
            a.held = fn.reach(start, no_sites=list(rel))
            # the releasing sites themselves are executed while held
            a.held |= set(s for s in rel if any(p in a.held for p in _preds(fn, s)))
        out.append(a)
    return out


def _preds(fn, site):
    bb, i = site
    if i > 0:
        return [Site(bb, i - 1)]
    return [fn.term_site(p) for p in fn.bpred(bb)]


def held_at(fn, site, lock_rx, acqs=None):
    acqs = acqs if acqs is not None else acquisitions(fn)
    for a in acqs:
        if a.transient:
            continue
        if any(re.search(lock_rx, i) for i in a.lock_ids) and site in a.held:
            return a
    return None


def yields_under_guard(fn, acqs=None):
    out = []
    acqs = acqs if acqs is not None else acquisitions(fn)
    ys = [s for s, t in fn.yields()]
    for a in acqs:
        if a.transient or a.kind.startswith("tokio"):
            continue
        if (a.call.callee or "").startswith("tokio::"):
            continue
        for y in ys:
            if y in a.held:
                out.append((a, y))
    return out


def closure_held_context(db, cl, lock_rx):
    """A closure body runs wherever its value is invoked.  If the closure is created in a body that holds a lock matching
    `lock_rx` at the creation site, is only handed (directly or wrapped by adapters) to calls made while that same
    acquisition is still held, and neither the closure nor anything computed from it is returned or stored away, then the
    closure body runs under that lock.  Returns (parent fn, acquisition) or None."""
    parent = None
    for f in [db.fns.get(getattr(cl, "parent", None))]:
        if f is None:
            continue
        for site, s in f.stmts():
            if s["k"] == "assign" and s["rv"]["k"] == "agg" and s["rv"].get("kind") in ("closure",) and s["rv"].get("def") == cl.id:
                parent = (f, site, s)
    if parent is None:
        return None
    f, csite, cs = parent
    acqs = acquisitions(f)
    a = held_at(f, csite, lock_rx, acqs)
    if a is None:
        # the creating body may itself be a closure running under the lock
        if f.kind == "closure":
            up = closure_held_context(db, f, lock_rx)
            if up is None:
                return None
            a_site_ok = lambda site: True
            a = up[1]
        else:
            return None
    else:
        a_site_ok = lambda site: site in a.held
    tainted = {cs["lhs"][0]}
    changed = True
    n = 0
    while changed and n < 50:
        changed = False
        n += 1
        for site, s in f.stmts():
            if s["k"] != "assign":
                continue
            rv = s["rv"]
            ops = []
            if rv["k"] in ("use", "cast"):
                ops = [rv["op"]]
            elif rv["k"] == "agg":
                ops = rv["ops"]
            elif rv["k"] in ("ref", "rawptr"):
                ops = [{"k": "copy", "p": rv["p"]}]
            if any((op_place(o) or [None])[0] in tainted for o in ops):
                if s["lhs"][1] and s["lhs"][0] not in tainted and any(e == "*" for e in s["lhs"][1]):
                    return None            # stored through a pointer: may outlive the guard
                if s["lhs"][0] not in tainted:
                    tainted.add(s["lhs"][0])
                    changed = True
        for site, t in f.terms():
            if t["k"] != "call":
                continue
            if any((op_place(o) or [None])[0] in tainted for o in t["args"]):
                if not a_site_ok(site):
                    return None
                d = t["dest"][0]
                if f.local_ty(d) not in ("()", "bool", "usize") and d not in tainted:
                    tainted.add(d)
                    changed = True
    if 0 in tainted:
        return None
    return f, a

"""C01 -- One handler at a time, in lifecycle order."""
import re
from .model import *
from .facts import Site, op_place
from . import c03

EXPLANATION = ("Decides the structural argument for C01 on every build configuration: (i) user callbacks run only inside futures seeded by the "
               "hook trait methods; (ii) a whole-crate future-flow analysis shows every such future is polled only through the one signal race, "
               "whose receiver is `&mut ActorPortSet`; (iii) ActorPortSet is neither Clone nor Copy and is built only by the cell constructors, so by "
               "the borrow checker two callbacks of one actor can never be live at once for any schedule or handler body; (iv) lifecycle order "
               "(status gate -> pre_start once -> spawn only on Ok -> post_start once -> Running -> loop -> post_stop once, only on the graceful, "
               "not-killed, Ok path) is decided by dominator / must-pass-through queries on the two runtimes' coroutine MIR.")
TRUSTED = ["rustc borrow checker and MIR construction", "the executor polls a spawned future from one task at a time"]
ASSUMPTIONS = ["user callback bodies are arbitrary; only where their futures may be polled is constrained",
               "`cfg(test)` code and the wasm backend are not compiled by the analysed configurations"]

DOC = {
 "C01.R1": "K14: every callback future is polled only through the signal race (no task root or public future carries an un-raced callback)",
 "C01.R2": "the race borrows the port set mutably; ActorPortSet has no Clone/Copy; it is constructed only in the cell constructors; the port set local is moved exactly once in each runtime start",
 "C01.R3": "start: one pre_start race, not in a cycle, behind the `status != Unstarted -> Err` gate; the loop task is spawned only on the Ok(Ok(Ok(state))) edge",
 "C01.R4": "processing loop: post_start raced once, not in a cycle, before the message-loop future exists; set_status(Running) and the loop only after post_start's Ok edges (both `?`)",
 "C01.R5": "post_stop raced once, not in a cycle, only after the loop future completed, on the Ok edges of the loop result and on the false edge of its was_killed flag; the flag and exit test originate from the step result's fields; the Err outcome of a step leaves the loop on every path",
 "C01.R9": "= C03.R4: outcome table of the message step in both runtimes -- a handler (message or supervision) that returned Err leaves through the Err exit, a race lost to the signal yields the `killed` result, only Stop/Drained yield the graceful result: `post_stop only on a graceful exit, never after a kill or a handler error` (C01.R5 decides what the loop does with the flag, this rule who sets it)",
 "C01.R7": "(+ C03.R7/R8: no suspension between pick and handler start; kill_and_wait really kills) = C03.R1 + C03.R2 + C03.R6: `post_stop never after a kill` needs the kill signal to outrank stop in the listen and the callback in the race (signal polled first, biased) and every kill() to be delivered whatever the status",
 "C01.R8": "hook adapters (blanket `impl ThreadLocalActor for T: Actor`) delegate each hook to the same-named hook of the wrapped actor, once, unconditionally",
 "C01.R6": "Send and thread-local runtimes agree on the lifecycle skeleton (sibling cross-check)",
}


def r1(run, db):
    c03.r3(run, db)


def r9(run, db):
    c03.r4(run, db)


def r7(run, db):
    c03.r1(run, db)
    c03.r2(run, db)
    c03.r6(run, db)
    c03.r7(run, db)
    c03.r8(run, db)


def r8(run, db):
    """bodies that *implement* a hook of one actor trait by delegating to a hook of the other (the Send->thread-local adapter)
    must delegate to the hook of the same name"""
    m = model(db)
    ff = m.ff()
    n = 0
    for c, h in ff.seed_calls:
        if c.fn.id not in ff.exempt:
            continue
        root = db.root_of(c.fn)
        ti = (root.raw.get("trait_item") or "").split("::")[-1] or root.id.split("::")[-1]
        n += 1
        run.saw(1, root)
        run.check(h.split(".")[1] == ti, "adapter:%s" % root.id.split(" as ")[-1][:70], "%s delegates to the `%s` hook of the wrapped actor" % (root.id[:90], h.split(".")[1]),
                  "the adapter's `%s` runs the wrapped actor's `%s`: lifecycle callbacks of adapted actors run in the wrong order / the wrong number of times" % (ti, h.split(".")[1]), c.where())
        # exactly one delegation, unconditional
        same = [x for x, hh in ff.seed_calls if x.fn.id == c.fn.id]
        run.check(len(same) == 1 and c.fn.must_pass(c.fn.entry(), [c.site]) and not c.fn.in_cycle(c.site), "adapter-once:%s" % root.id.split(" as ")[-1][:70], "exactly one unconditional delegation", "adapter delegates %d times / conditionally" % len(same), c.where())
    run.anchor("adapter hook bodies", n, 5)


def r2(run, db):
    m = model(db)
    sk = m.sink()
    ins = sk.raw.get("inputs", [])
    run.check(ins and ins[0].startswith("&mut ") and ins[0].endswith("ActorPortSet"), "sink-&mut", "the signal race takes `%s`" % (ins[0] if ins else "?"),
              "the signal race does not borrow the port set mutably: %s" % ins, sk.where())
    ps = [a for a in db.adts if a.endswith("::ActorPortSet")]
    run.anchor("ActorPortSet ADT", len(ps), 1)
    for a in ps:
        for tr in ("std::clone::Clone", "std::marker::Copy", "core::clone::Clone", "core::marker::Copy"):
            run.check(not db.has_impl(a, tr), "no-%s" % tr.split("::")[-1], "%s has no %s impl" % (a, tr.split("::")[-1]), "%s implements %s: two owners could poll concurrently" % (a, tr))
    ctors = []
    for f in db.crate_fns("ractor"):
        for site, s in f.aggregates(adt="ActorPortSet"):
            ctors.append(f)
            ok = bool(re.search(r"ActorCell::(new|new_remote|new_thread_local)$", f.id)) or ("ActorCell" in (f.raw.get("impl_self") or "") and f.raw.get("output", "").find("ActorPortSet") >= 0)
            run.check(ok, "ctor:%s" % f.id, "ActorPortSet constructed in cell constructor %s" % f.id, "ActorPortSet is constructed outside a cell constructor, in %s" % f.id, f.where(s.get("l")))
    run.anchor("ActorPortSet constructors", len(ctors), 3 if db.tag in ("rc", "clus", "rcatr", "ws") else 2)
    # the port-set local is moved exactly once in each runtime start into the loop future
    for rt in m.runtimes():
        sb = m.start_body(rt)
        blk = m.spawn_block(rt)
        cs = creation_sites(db, blk)
        run.check(len(cs) == 1 and not cs[0][0].in_cycle(cs[0][1]), "%s|spawn-block-once" % rt, "the loop task of runtime %s is created at one site, not in a cycle" % rt, None, sb.where())
        if cs:
            par, site, s = cs[0]
            nports = 0
            for o in s["rv"]["ops"]:
                p = op_place(o)
                ty = place_ty(db, par, p) if p else ""
                if ty.endswith("ActorPortSet") and not ty.startswith("&") and o["k"] == "move":
                    nports += 1
            run.check(nports == 1 and any(o["k"] == "move" for o in s["rv"]["ops"]), "%s|ports-moved-once" % rt,
                      "exactly one ActorPortSet value is moved into the loop task of runtime %s" % rt,
                      "%d ActorPortSet values are captured by the loop task" % nports, par.where(s.get("l")))


def status_gate_dominates(fn, site, op, const):
    """`site` lies on the edge where (status `op` const) is FALSE, status freshly read via get_status"""
    for st in status_tests(fn):
        if st["op"] == op and st["const"] == const and st["false_edge"] is not None:
            if any(r["k"] == "call" and r["call"].is_("get_status") for r in st["subject"]):
                if fn.edge_dominates(st["false_edge"], site):
                    return st
    return None


def r3(run, db):
    m = model(db)
    for rt in m.runtimes():
        sb = m.start_body(rt)
        run.saw(len(sb.blocks), sb)
        cs = [c for c in m.sink_calls_for(rt + ".pre_start")]
        run.check(len(cs) == 1, "%s|pre_start-once" % rt, "exactly one pre_start race site in the workspace for runtime %s (%s)" % (rt, [c.where() for c in cs]),
                  "%d pre_start race sites" % len(cs))
        if len(cs) != 1:
            continue
        c = cs[0]
        run.check(not sb.in_cycle(c.site), "%s|pre_start-not-in-cycle" % rt, "the pre_start race is not in a CFG cycle (no retry)", "the pre_start race is inside a cycle: pre_start can run twice", c.where())
        # status gate, possibly in an enclosing body
        gs_ = status_gates_in_chain(db, sb, c.site)
        adm_ = admitted_statuses(gs_)
        # Unstarted must pass; every status that implies an earlier start (Starting, Running, Upgrading) or a dead actor
        # (Stopping, Stopped) must be refused.  Draining is reachable without any start (drain() on a fresh cell) and may pass.
        bad_ = [v for v in adm_ if v in ("Starting", "Running", "Upgrading", "Stopping", "Stopped")]
        run.check(bool(gs_) and "Unstarted" in adm_ and not bad_, "%s|status-gate" % rt, "pre_start is reachable only under a fresh status gate admitting %s (a second start, or the start of a dead actor, is rejected)" % adm_,
                  "pre_start is %s" % ("not behind a status gate" if not gs_ else "reachable while the status is %s: the actor could be started twice / after it stopped" % bad_ if bad_ else "unreachable for a fresh (Unstarted) actor"), c.where())
        # the gate's true edge returns Err(ActorAlreadyStarted) without reaching pre_start: implied by dominance of the false edge
        aw = await_of_call(sb, c)
        run.anchor("%s await of the pre_start race" % rt, len(aw), 1)
        if not aw:
            continue
        a = aw[0]
        e = nested_variant_edge(sb, a.poll, ["Ready", "Ok", "Ok", "Ok"])
        blk = m.spawn_block(rt)
        cs2 = creation_sites(db, blk)
        good = e is not None and len(cs2) == 1 and cs2[0][0].id == sb.id and sb.edge_dominates(e, cs2[0][1])
        run.check(good, "%s|spawn-on-ok" % rt, "the loop task is created only on the Ok(Ok(Ok(state))) edge of the pre_start race",
                  "the loop task can be created without pre_start having returned Ok", c.where())
        # all other outcomes leave the function without reaching the spawn
        for path in (["Ready", "Err"], ["Ready", "Ok", "Err"], ["Ready", "Ok", "Ok", "Err"]):
            e2 = nested_variant_edge(sb, a.poll, path)
            reach = edge_path_sites(sb, [e2]) if e2 else set()
            run.check(e2 is not None and (not cs2 or cs2[0][1] not in reach), "%s|no-spawn-on-%s" % (rt, "/".join(path[1:])),
                      "outcome %s of the pre_start race leaves start without creating the loop task" % "/".join(path[1:]), None, c.where())


def r4(run, db):
    m = model(db)
    for rt in m.runtimes():
        lb = m.loop_body(rt)
        run.saw(len(lb.blocks), lb)
        cs = m.sink_calls_for(rt + ".post_start")
        run.check(len(cs) == 1, "%s|post_start-once" % rt, "exactly one post_start race site for runtime %s" % rt, "%d post_start race sites" % len(cs))
        if len(cs) != 1:
            continue
        c = cs[0]
        run.check(not lb.in_cycle(c.site), "%s|post_start-not-in-cycle" % rt, "post_start race not in a cycle", "post_start race is inside a cycle", c.where())
        aw = await_of_call(lb, c)
        if not aw:
            run.fail("%s|post_start-await" % rt, "await of the post_start race not found", c.where())
            continue
        a = aw[0]
        ok_edge = nested_variant_edge(lb, a.poll, ["Ready", "Ok"])
        brs = try_branches_on(lb, a.poll)
        # message loop future: the coroutine nested in lb that awaits the process-message fn
        pb_root = db.root_of(m.proc_body(rt))
        loops = []
        for ch in db.children(lb.id):
            if any(x.callee == pb_root.id for x in ch.calls()):
                loops.append(ch)
        run.anchor("%s message loop block" % rt, len(loops), 1)
        running = [x for x, v in set_status_calls(lb) if v == "Running"]
        run.anchor("%s set_status(Running)" % rt, len(running), 1)
        targets = [("set_status(Running)", x.site) for x in running]
        for lp in loops:
            for par, site, s in creation_sites(db, lp):
                targets.append(("message-loop future", site))
        for nm, site in targets:
            good = ok_edge is not None and lb.edge_dominates(ok_edge, site) and result_layers_checked(brs, (2, 3)) and all(b["cont_edge"] and lb.edge_dominates(b["cont_edge"], site) for b in brs)
            run.check(good, "%s|%s-after-post_start-ok" % (rt, nm), "%s is dominated by the Ok edge of the post_start race and by the Continue edges of its %d `?`" % (nm, len(brs)),
                      "%s is reachable although post_start failed or was interrupted" % nm, lb.where())
        # the loop cycles: process step inside a cycle in the loop block, exit only via should_exit
        for lp in loops:
            pc = [x for x in lp.calls() if x.callee == pb_root.id]
            run.check(len(pc) == 1 and lp.in_cycle(pc[0].site), "%s|loop-cycle" % rt, "the message step is the only step call and sits in the loop cycle", None, lp.where())


def loop_result_flag_edges(db, m, rt):
    """(lb, await of the loop future, [(killed_edge, not_killed_edge)]) for the bool flag of the loop result (was_killed)"""
    lb = m.loop_body(rt)
    pb_root = db.root_of(m.proc_body(rt))
    loops = [ch for ch in db.children(lb.id) if any(x.callee == pb_root.id for x in ch.calls())]
    if not loops:
        return lb, None, []
    lp = loops[0]
    thr = lambda cc: 0 if cc.matches(r"Pin::<Ptr>::new_unchecked$|IntoFuture::into_future$|Box::<T>::pin$|FutureExt::catch_unwind$|TryFutureExt::map_err$|Pin::<Ptr>::new$") else None
    loop_aw = None
    for a in awaits(lb):
        for r in lb.origins(a.poll.args[0], through=thr):
            if r["k"] == "agg" and r["stmt"]["rv"].get("def") == lp.id:
                loop_aw = a
            if r["k"] == "agg" and r["stmt"]["rv"].get("adt", "").endswith("AssertUnwindSafe"):
                for o in r["stmt"]["rv"]["ops"]:
                    for rr in lb.origins(o, through=thr):
                        if rr["k"] == "agg" and rr["stmt"]["rv"].get("def") == lp.id:
                            loop_aw = a
    if loop_aw is None:
        return lb, None, []
    out = []
    for site, t in lb.switches():
        if t["dty"] != "bool":
            continue
        # the tested value, looking through negations (`!was_killed`, `exit_mode == Graceful` for a two-valued mode)
        roots = []
        neg = False
        work = [(r, False) for r in lb.origins(t["discr"], through=THROUGH_TRY)]
        n_ = 0
        while work and n_ < 40:
            r, ng = work.pop()
            n_ += 1
            if r["k"] == "un" and r.get("op") == "Not":
                work += [(x, not ng) for x in lb.origins(r["a"], through=THROUGH_TRY)]
            else:
                roots.append(r)
                if r["k"] == "call" and r["call"].bb == loop_aw.poll.bb:
                    neg = ng
        if any(r["k"] == "call" and r["call"].bb == loop_aw.poll.bb for r in roots):
            kv = c03.loop_result_fields(db)["killed"][1]       # the value of the flag that means `killed`
            ke, ne = lb.edge_of(site, kv), lb.edge_of(site, other_bool(kv))
            out.append((ne, ke) if neg else (ke, ne))
    return lb, loop_aw, out


def r5(run, db):
    m = model(db)
    for rt in m.runtimes():
        lb = m.loop_body(rt)
        cs = m.sink_calls_for(rt + ".post_stop")
        run.check(len(cs) == 1, "%s|post_stop-once" % rt, "exactly one post_stop race site for runtime %s" % rt, "%d post_stop race sites" % len(cs))
        if len(cs) != 1:
            continue
        c = cs[0]
        run.saw(1, lb)
        run.check(not lb.in_cycle(c.site), "%s|post_stop-not-in-cycle" % rt, "post_stop race not in a cycle (at most once)", "post_stop race is inside a cycle", c.where())
        # the await of the (caught) loop future
        pb_root = db.root_of(m.proc_body(rt))
        loops = [ch for ch in db.children(lb.id) if any(x.callee == pb_root.id for x in ch.calls())]
        if not loops:
            run.fail("%s|loop-block" % rt, "message loop block not found")
            continue
        lp = loops[0]
        par, csite, cst = creation_sites(db, lp)[0]
        loop_local = cst["lhs"][0]
        thr = lambda cc: 0 if cc.matches(r"Pin::<Ptr>::new_unchecked$|IntoFuture::into_future$|Box::<T>::pin$|FutureExt::catch_unwind$|TryFutureExt::map_err$|Pin::<Ptr>::new$") else None
        loop_aw = None
        for a in awaits(lb):
            roots = lb.origins(a.poll.args[0], through=thr)
            for r in roots:
                if r["k"] == "agg" and r["stmt"]["rv"].get("def") == lp.id:
                    loop_aw = a
                if r["k"] == "agg" and r["stmt"]["rv"].get("adt", "").endswith("AssertUnwindSafe"):
                    for o in r["stmt"]["rv"]["ops"]:
                        for rr in lb.origins(o, through=thr):
                            if rr["k"] == "agg" and rr["stmt"]["rv"].get("def") == lp.id:
                                loop_aw = a
        if loop_aw is None:
            run.fail("%s|loop-await" % rt, "await of the message-loop future not found in %s" % lb.id, lb.where())
            continue
        run.check(loop_aw.completes_before(c.site), "%s|post_stop-after-loop" % rt, "post_stop is dominated by the completion (Ready edge) of the message-loop future",
                  "post_stop can start before the message loop completed", c.where())
        brs = try_branches_on(lb, loop_aw.poll)
        run.check(result_layers_checked(brs, (1, 2)) and all(b["cont_edge"] and lb.edge_dominates(b["cont_edge"], c.site) for b in brs), "%s|post_stop-on-ok" % rt,
                  "post_stop is dominated by the Continue edges of both `?` on the loop result (no post_stop after a panic or handler error)",
                  "post_stop is reachable on an Err/panic outcome of the loop (%d `?` found)" % len(brs), c.where())
        # the killed flag of the loop result: post_stop only on its not-killed edge
        _lb, _aw, flags_ = loop_result_flag_edges(db, m, rt)
        found = any(nk and edge_guards(lb, nk, c.site) for k_, nk in flags_)
        run.check(found, "%s|post_stop-not-killed" % rt, "post_stop is dominated by the not-killed edge of the loop result's flag",
                  "post_stop is not guarded by the killed flag of the loop result (it would run after a kill)", c.where())
        # inside the loop block: returned flag = step.was_killed, exit test = step.should_exit
        step = [x for x in lp.calls() if x.callee == pb_root.id]
        saw = await_of_call(lp, step[0]) if step else []
        if saw:
            sp = saw[0].poll
            # the loop's result: a tuple, or a (private) struct with the same components
            tup = [s for _, s in lp.aggregates(kind="tuple") if len(s["rv"]["ops"]) == 4]
            tup += [s for _, s in lp.aggregates() if s["rv"].get("kind") == "adt" and len(s["rv"].get("ops", [])) >= 3 and (s["rv"].get("adt") or "").startswith("ractor::") and s["rv"].get("variant") == (s["rv"].get("adt") or "").split("::")[-1]]
            okflag = False
            for s in tup:
                for o in s["rv"]["ops"]:
                    p = op_place(o)
                    if p and (lp.local_ty(p[0]) == "bool" or p[1]):
                        rts = lp.origins(o, through=THROUGH_TRY)
                        okflag = any(r["k"] == "call" and r["call"].bb == sp.bb and any(e.endswith(":" + c03.loop_result_fields(db)["killed"][0]) for e in r["proj"] + r["trail"]) for r in rts)
            run.check(okflag, "%s|flag-origin" % rt, "the bool returned by the loop is the step result's `was_killed` field", "the loop's bool does not originate from the step's was_killed", lp.where())
            okexit = False
            for site, t in lp.switches():
                if t["dty"] == "bool":
                    rts = lp.origins(t["discr"], through=THROUGH_TRY)
                    if any(r["k"] == "call" and r["call"].bb == sp.bb and any(e.endswith(":" + c03.loop_result_fields(db)["exit"][0]) for e in r["proj"] + r["trail"]) for r in rts):
                        te = lp.edge_of(site, c03.loop_result_fields(db)["exit"][1])
                        rets = [s for s, st in lp.aggregates(adt="std::result::Result", variant="Ok")]
                        okexit = bool(te) and all(lp.edge_dominates(te, s) for s in rets) and bool(rets)
            # a handler error ends the loop: from the Err edge of the step result no path leads back to the next step
            sbrs = try_branches_on(lp, sp)
            errs = [b["break_edge"] for b in sbrs if b.get("break_edge")]
            back = [e for e in errs if step[0].site in lp.reach(Site(e[1], 0))]
            run.check(bool(errs) and not back, "%s|handler-error-ends-loop" % rt,
                      "the Err outcome of a step (a handler that returned Err) leaves the message loop on every path: no later handler and no post_stop follow it",
                      "the message loop can go on after a step failed (%s): a handler error is swallowed on some path (e.g. while Draining), later handlers run, the drain marker ends the loop gracefully and post_stop runs after a handler error" % (
                          "a path from the Err edge of the step result leads back to the next step" if back else "the Err outcome of the step is not decided in the loop"), lp.where())
            run.check(okexit, "%s|exit-on-should_exit" % rt, "the loop leaves with Ok only on the true edge of the step result's `should_exit`", None, lp.where())


def skeleton(db, m, rt):
    """role-level event skeleton of a runtime, for sibling comparison"""
    sk = {}
    sb, lb, pb = m.start_body(rt), m.loop_body(rt), m.proc_body(rt)
    sk["loop.set_status"] = [v for c, v in sorted(set_status_calls(lb), key=lambda x: x[0].line or 0)]
    sk["loop.hooks"] = sorted(h.split(".")[1] for key, (c, tags) in m.ff().sink_calls.items() if c.fn.id == lb.id for h in [t[2:] for t in concrete(tags) if t.startswith("H:")])
    sk["proc.hooks"] = sorted(h.split(".")[1] for key, (c, tags) in m.ff().sink_calls.items() if c.fn.id == pb.id for h in [t[2:] for t in concrete(tags) if t.startswith("H:")])
    ctors = c03.loop_result_ctors(db)
    cnt = {}
    for c in pb.calls():
        for nm in (c.callee,):
            if nm in ctors:
                k = ctors[nm][0][0]
                cnt[k] = cnt.get(k, 0) + 1
    # which kinds of step result the step can produce (not how many syntactic copies of each constructor call there are)
    sk["proc.results"] = sorted(cnt)
    sk["loop.catch_unwind"] = len([1 for key, (c, t) in m.ff().catch_calls.items() if c.fn.id == lb.id])
    started = [1 for site, s in lb.aggregates(adt="SupervisionEvent", variant="ActorStarted")]
    sk["loop.ActorStarted"] = len(started)
    blk = m.spawn_block(rt)
    evs = sorted(s["rv"]["variant"] for site, s in blk.aggregates(adt="SupervisionEvent"))
    sk["block.events"] = evs
    sk["block.finish"] = len([c for c in blk.calls() if c.callee == m.guard_finish().id])
    return sk


def r6(run, db):
    m = model(db)
    a, b = skeleton(db, m, "S"), skeleton(db, m, "T")
    for k in sorted(a):
        run.check(a[k] == b[k], "skeleton:" + k, "Send and thread-local runtimes agree on %s = %s" % (k, a[k]),
                  "runtimes diverge on %s: Send=%s thread-local=%s" % (k, a[k], b[k]))


Q = ["dflt", "rc"]
TH = ["dflt", "rc", "atr", "astd", "mon", "opv2"]
RULES = [
    {"id": "C01.R1", "fn": r1, "quick": Q, "thorough": TH},
    {"id": "C01.R2", "fn": r2, "quick": Q, "thorough": TH},
    {"id": "C01.R3", "fn": r3, "quick": Q, "thorough": TH},
    {"id": "C01.R4", "fn": r4, "quick": Q, "thorough": TH},
    {"id": "C01.R5", "fn": r5, "quick": Q, "thorough": TH},
    {"id": "C01.R6", "fn": r6, "quick": Q, "thorough": TH},
    {"id": "C01.R7", "fn": r7, "quick": Q + ["astd"], "thorough": TH},
    {"id": "C01.R8", "fn": r8, "quick": Q, "thorough": TH},
    {"id": "C01.R9", "fn": r9, "quick": Q, "thorough": TH},
]
from .positive import control
RULES.append({"id": "C01.P", "fn": control('k14'), "quick": ["pos"], "thorough": ["pos"]})
DOC["C01.P"] = 'positive control: planted tokio::spawn(actor.handle(..)) must be reported by the future-flow analysis as un-raced and uncontained'
